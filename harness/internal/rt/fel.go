package rt

import (
	"encoding/hex"
	"fmt"

	vh "github.com/emmansun/gmsm/verifhook"
)

// fel family (C05, C09): rows of spec/mc/MC_Fel.tla - one operation, a left operand and every right operand of the
// column set - replayed on the limb-level field primitives (verifhook.P256Fel: internal/sm2ec assembly;
// verifhook.Gfp/Gfp2: internal/sm9/bn256; fiat elements through their canonical interface). Every primitive is called
// with a fresh result element and with the result aliasing each operand.

func felHex32(s string) *[32]byte {
	b, err := hex.DecodeString(s)
	if err != nil || len(b) != 32 {
		panic("harness: fel: bad 32-byte hex operand")
	}
	return (*[32]byte)(b)
}

var felNatMods = map[string]*vh.Modulus{}

func felNatMod(mhex string) *vh.Modulus {
	if m, ok := felNatMods[mhex]; ok {
		return m
	}
	b, err := hex.DecodeString(mhex)
	if err != nil {
		panic("harness: fel: bad modulus")
	}
	m, err := vh.NewModulusFromBytes(b)
	if err != nil {
		panic("harness: fel: modulus refused: " + err.Error())
	}
	felNatMods[mhex] = m
	return m
}

type felPrim func(a, b *[32]byte, alias int) (out [32]byte, flag int, ok bool)

// felLookup maps (field, op) of the specification to a primitive; ok=false: the primitive does not exist in this build.
func felLookup(field, op, mhex string) (prim felPrim, binary bool, skip bool) {
	n := 0
	switch op {
	case "sqr1":
		n = 1
	case "sqr2":
		n = 2
	case "sqr5":
		n = 5
	}
	switch field {
	case "p256", "p256ord":
		if !vh.HasP256Fel {
			return nil, false, true
		}
		name := map[string]string{"mul": "mul", "add": "add", "sqr1": "sqr", "sqr2": "sqr", "sqr5": "sqr", "frommont": "frommont", "neg": "negcond",
			"inv": "inverse", "sqrt": "sqrt", "lt": "lessthanp", "reduce": "reduce"}[op]
		if name == "" {
			panic("harness: fel: unknown op " + op)
		}
		if field == "p256ord" {
			name = "ord" + name
		}
		if op == "neg" {
			n = 1
		}
		return func(a, b *[32]byte, alias int) ([32]byte, int, bool) {
			o, f := vh.P256Fel(name, a, b, n, alias)
			return o, f, true
		}, op == "mul" || op == "add", false
	case "gfp":
		name := map[string]string{"mul": "mul", "add": "add", "sub": "sub", "sqr1": "sqr", "sqr2": "sqr", "sqr5": "sqr", "frommont": "frommont", "neg": "neg",
			"dbl": "double", "tpl": "triple", "inv": "invert", "sqrt": "sqrt", "lt": "lessthanp"}[op]
		if name == "" {
			panic("harness: fel: unknown op " + op)
		}
		return func(a, b *[32]byte, alias int) ([32]byte, int, bool) {
			o, f := vh.Gfp(name, a, b, n, alias)
			return o, f, true
		}, op == "mul" || op == "add" || op == "sub", false
	case "natn", "natn9":
		return func(a, b *[32]byte, alias int) (out [32]byte, flag int, ok bool) {
			m := felNatMod(mhex)
			x, e1 := vh.NewNat().SetBytes(a[:], m)
			y, e2 := vh.NewNat().SetBytes(b[:], m)
			if e1 != nil || e2 != nil {
				panic("harness: fel: Nat.SetBytes refused an operand below the modulus")
			}
			// Nat operations write their receiver: x op= y; alias 2 makes both operands the same object when they are equal in value
			if alias == 2 {
				if *a != *b {
					return out, 0, false
				}
				y = x
			}
			switch op {
			case "mul":
				x.Mul(y, m)
			case "add":
				x.Add(y, m)
			case "sub":
				x.Sub(y, m)
			default:
				panic("harness: fel: unknown op " + op)
			}
			copy(out[:], x.Bytes(m))
			return out, 0, true
		}, true, false
	case "fiatp":
		return func(a, b *[32]byte, alias int) (out [32]byte, flag int, ok bool) {
			x, e1 := new(vh.FiatP256Element).SetBytes(a[:])
			y, e2 := new(vh.FiatP256Element).SetBytes(b[:])
			if e1 != nil || e2 != nil {
				panic("harness: fel: fiat SetBytes refused an operand below the modulus")
			}
			res := new(vh.FiatP256Element)
			switch alias {
			case 1:
				res = x
			case 2:
				res = y
			}
			switch op {
			case "mul":
				res.Mul(x, y)
			case "add":
				res.Add(x, y)
			case "sub":
				res.Sub(x, y)
			case "sqr1":
				res.Square(x)
			case "inv":
				res.Invert(x)
			default:
				panic("harness: fel: unknown op " + op)
			}
			copy(out[:], res.Bytes())
			return out, 0, true
		}, op == "mul" || op == "add" || op == "sub", false
	case "fiatn":
		return func(a, b *[32]byte, alias int) (out [32]byte, flag int, ok bool) {
			x, e1 := new(vh.FiatP256OrderElement).SetBytes(a[:])
			y, e2 := new(vh.FiatP256OrderElement).SetBytes(b[:])
			if e1 != nil || e2 != nil {
				panic("harness: fel: fiat SetBytes refused an operand below the modulus")
			}
			res := new(vh.FiatP256OrderElement)
			switch alias {
			case 1:
				res = x
			case 2:
				res = y
			}
			switch op {
			case "mul":
				res.Mul(x, y)
			case "add":
				res.Add(x, y)
			case "sub":
				res.Sub(x, y)
			case "sqr1":
				res.Square(x)
			case "inv":
				res.Invert(x)
			default:
				panic("harness: fel: unknown op " + op)
			}
			copy(out[:], res.Bytes())
			return out, 0, true
		}, op == "mul" || op == "add" || op == "sub", false
	}
	panic("harness: fel: unknown field " + field)
}

func init() {
	Register("fel", func(t *Trace, env *Env) *Mismatch {
		for i, st := range t.Steps {
			At(i)
			field, op := st.Str("field"), st.Str("op")
			a, bs, exps := st.Str("a"), st.Str("bs"), st.Str("exps")
			if field == "gfp2" {
				if mm := felGfp2(i, st, op, a, bs, exps); mm != nil {
					return mm
				}
				continue
			}
			mhex := ""
			if st.Has("m") {
				mhex = st.Str("m")
			}
			prim, binary, skip := felLookup(field, op, mhex)
			if skip {
				continue
			}
			av := felHex32(a)
			if !binary {
				for alias := 0; alias <= 1; alias++ {
					if alias == 1 && op == "inv" {
						continue // the library never inverts in place and the primitives do not promise it
					}
					x := *av
					var zero [32]byte
					out, flag, _ := prim(&x, &zero, alias)
					if st.Has("flag") && flag != st.Int("flag") {
						return &Mismatch{Step: i, Kind: "mismatch", Got: fmt.Sprint("flag=", flag), Exp: fmt.Sprint("flag=", st.Int("flag")), Note: fmt.Sprintf("%s.%s(%s) alias=%d", field, op, a, alias)}
					}
					if exps == "" || (op == "sqrt" && flag == 0) {
						continue
					}
					got := hex.EncodeToString(out[:])
					if got != exps && !(st.Has("alts") && got == st.Str("alts")) {
						return &Mismatch{Step: i, Kind: "mismatch", Got: got, Exp: exps, Note: fmt.Sprintf("%s.%s(%s) alias=%d", field, op, a, alias)}
					}
				}
				continue
			}
			if len(bs)%64 != 0 || len(bs) != len(exps) {
				panic("harness: fel: malformed row")
			}
			for j := 0; j < len(bs); j += 64 {
				bv := felHex32(bs[j : j+64])
				for alias := 0; alias <= 2; alias++ {
					x, y := *av, *bv
					out, _, ok := prim(&x, &y, alias)
					if !ok {
						continue
					}
					if got := hex.EncodeToString(out[:]); got != exps[j:j+64] {
						return &Mismatch{Step: i, Kind: "mismatch", Got: got, Exp: exps[j : j+64], Note: fmt.Sprintf("%s.%s(%s, %s) alias=%d", field, op, a, bs[j:j+64], alias)}
					}
				}
			}
		}
		return nil
	})
}

func felGfp2(i int, st Step, op, a, bs, exps string) *Mismatch {
	name := map[string]string{"mul": "mul", "mulu": "mulu", "add": "add", "sub": "sub", "mulu1": "mulu1", "square": "square", "squareu": "squareu",
		"neg": "neg", "dbl": "double", "tpl": "triple", "inv": "invert"}[op]
	if name == "" {
		panic("harness: fel: unknown gfp2 op " + op)
	}
	ax, ay := felHex32(a[:64]), felHex32(a[64:])
	call := func(b string, alias int) string {
		var bx, by [32]byte
		if b != "" {
			bx, by = *felHex32(b[:64]), *felHex32(b[64:])
		}
		x, y := *ax, *ay
		ox, oy := vh.Gfp2(name, &x, &y, &bx, &by, alias)
		return hex.EncodeToString(ox[:]) + hex.EncodeToString(oy[:])
	}
	if bs == "" {
		for alias := 0; alias <= 1; alias++ {
			if alias == 1 && op == "inv" {
				continue
			}
			if got := call("", alias); got != exps {
				return &Mismatch{Step: i, Kind: "mismatch", Got: got, Exp: exps, Note: fmt.Sprintf("gfp2.%s(%s) alias=%d", op, a, alias)}
			}
		}
		return nil
	}
	if len(bs)%128 != 0 || len(bs) != len(exps) {
		panic("harness: fel: malformed gfp2 row")
	}
	for j := 0; j < len(bs); j += 128 {
		for alias := 0; alias <= 2; alias++ {
			if got := call(bs[j:j+128], alias); got != exps[j:j+128] {
				return &Mismatch{Step: i, Kind: "mismatch", Got: got, Exp: exps[j : j+128], Note: fmt.Sprintf("gfp2.%s(%s, %s) alias=%d", op, a, bs[j:j+128], alias)}
			}
		}
	}
	return nil
}
