package rt

import "crypto/cipher"

// Block wrappers that hide or expose the fast-path interfaces of a cipher.Block, so that the generic
// compositions of crypto/cipher and gmsm/cipher are entered as well as the fused assembly.

type blockOnly struct{ b cipher.Block }

func (w blockOnly) BlockSize() int          { return w.b.BlockSize() }
func (w blockOnly) Encrypt(dst, src []byte) { w.b.Encrypt(dst, src) }
func (w blockOnly) Decrypt(dst, src []byte) { w.b.Decrypt(dst, src) }

type concurrent interface {
	Concurrency() int
	EncryptBlocks(dst, src []byte)
	DecryptBlocks(dst, src []byte)
}

type batchedOnly struct {
	blockOnly
	c concurrent
}

func (w batchedOnly) Concurrency() int              { return w.c.Concurrency() }
func (w batchedOnly) EncryptBlocks(dst, src []byte) { w.c.EncryptBlocks(dst, src) }
func (w batchedOnly) DecryptBlocks(dst, src []byte) { w.c.DecryptBlocks(dst, src) }

// WrapBlock applies the wrapper named by mode (native | blockonly | batched).
func WrapBlock(b cipher.Block, mode string) cipher.Block {
	switch mode {
	case "", "native":
		return b
	case "blockonly":
		return blockOnly{b}
	case "batched":
		if c, ok := b.(concurrent); ok {
			return batchedOnly{blockOnly{b}, c}
		}
		return blockOnly{b}
	}
	panic("harness: unknown wrapper " + mode)
}

func wrappedCreator(ciph, mode string) func(key []byte) (cipher.Block, error) {
	cr := blockCreator(ciph)
	return func(key []byte) (cipher.Block, error) {
		b, err := cr(key)
		if err != nil {
			return nil, err
		}
		return WrapBlock(b, mode), nil
	}
}
