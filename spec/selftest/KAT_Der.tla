------------------------------ MODULE KAT_Der ------------------------------
(* lib/Der.tla against hand-checked X.690 examples and against itself          *)
(* (decode . encode = id, one-octet damage is refused).  The signature example  *)
(* is the DER form of the (r, s) of GB/T 32918.5-2017 Annex A.                   *)
EXTENDS Integers, Sequences, TLC
Hx == INSTANCE Hex
BN == INSTANCE BigNat
D  == INSTANCE Der
X(s) == Hx!ToBytes(s)
HX(b) == Hx!FromBytes(b)
Zs(n) == SubSeq([i \in 1..n |-> 0], 1, n)

(* lengths *)
ASSUME D!LenOctets(0) = <<0>> /\ D!LenOctets(127) = <<127>> /\ D!LenOctets(128) = <<129, 128>>
ASSUME D!LenOctets(255) = <<129, 255>> /\ D!LenOctets(256) = <<130, 1, 0>> /\ D!LenOctets(65536) = <<131, 1, 0, 0>>
(* INTEGER (X.690 8.3): 0, 127, 128, 256, -128, -129, -1 *)
ASSUME HX(D!EncUInt(<<>>)) = "020100" /\ HX(D!EncUInt(<<0, 0>>)) = "020100" /\ HX(D!EncUInt(<<127>>)) = "02017f"
ASSUME HX(D!EncUInt(<<128>>)) = "02020080" /\ HX(D!EncUInt(<<1, 0>>)) = "02020100" /\ HX(D!EncUInt(<<0, 255, 255>>)) = "020300ffff"
ASSUME HX(D!EncNegInt(<<128>>)) = "020180" /\ HX(D!EncNegInt(<<129>>)) = "0202ff7f" /\ HX(D!EncNegInt(<<1>>)) = "0201ff"
ASSUME HX(D!EncNegInt(<<1, 0>>)) = "0202ff00" /\ HX(D!EncNegInt(<<128, 0>>)) = "02028000" /\ HX(D!EncNegInt(<<128, 1>>)) = "0203ff7fff"
ASSUME D!DecIntContent(X("ff7f")) = [ok |-> TRUE, neg |-> TRUE, val |-> <<129>>]
ASSUME D!DecIntContent(X("80")) = [ok |-> TRUE, neg |-> TRUE, val |-> <<128>>]
ASSUME D!DecIntContent(X("00")) = [ok |-> TRUE, neg |-> FALSE, val |-> <<>>]
ASSUME ~D!DecIntContent(<<>>).ok /\ ~D!DecIntContent(X("0000")).ok /\ ~D!DecIntContent(X("007f")).ok /\ ~D!DecIntContent(X("ff80")).ok
ASSUME D!DecIntContent(X("0080")).ok /\ D!DecIntContent(X("ff7f")).ok /\ ~D!DecUIntContent(X("ff7f")).ok
(* OCTET STRING, BIT STRING, SEQUENCE *)
ASSUME HX(D!EncOctets(X("0102"))) = "04020102" /\ HX(D!EncBits(X("0a3b5f291cd0"), 4)) = "0307040a3b5f291cd0"
ASSUME D!DecBits(D!ReadTLV(X("0307040a3b5f291cd0"))) = [ok |-> TRUE, val |-> X("0a3b5f291cd0"), unused |-> 4]
ASSUME ~D!DecBits(D!ReadTLV(X("0307040a3b5f291cd8"))).ok /\ ~D!DecBits(D!ReadTLV(X("0300"))).ok /\ ~D!DecBits(D!ReadTLV(X("030101"))).ok
ASSUME D!DecBits(D!ReadTLV(X("030100"))).ok /\ ~D!DecBits(D!ReadTLV(X("03020800"))).ok
ASSUME D!DecOctets(D!ReadTLV(X("0400"))) = [ok |-> TRUE, val |-> <<>>, unused |-> 0]
ASSUME HX(D!EncSeq(<<D!EncUInt(<<5>>), D!EncOctets(<<>>)>>)) = "30050201050400"
ASSUME LET q == D!ReadSeq(X("30050201050400")) IN q.ok /\ Len(q.items) = 2 /\ q.items[1].tag = 2 /\ q.items[2].tag = 4 /\ q.items[1].content = <<5>>
(* a 200-octet OCTET STRING needs the long form 81 c8; 82 00 c8, 81 7f.. and the indefinite form are refused *)
ASSUME LET e == D!EncOctets(Zs(200)) IN SubSeq(e, 1, 3) = <<4, 129, 200>> /\ D!ReadTLV(e).ok /\ D!ReadTLV(e).hdr = 3 /\ D!ReadTLV(e).content = Zs(200)
ASSUME ~D!ReadTLV(<<4, 130, 0, 200>> \o Zs(200)).ok /\ ~D!ReadTLV(<<4, 129, 127>> \o Zs(127)).ok /\ D!ReadTLV(<<4, 127>> \o Zs(127)).ok
ASSUME ~D!ReadTLV(<<4, 128>> \o Zs(4)).ok /\ ~D!ReadTLV(<<4, 255>> \o Zs(4)).ok /\ ~D!ReadTLV(<<4, 132, 0, 0, 0, 1, 0>>).ok
ASSUME ~D!ReadTLV(<<4, 129>>).ok /\ ~D!ReadTLV(<<4>>).ok /\ ~D!ReadTLV(<<>>).ok /\ ~D!ReadTLV(<<4, 3, 1, 2>>).ok /\ ~D!ReadTLV(<<31, 1, 0>>).ok
ASSUME LET e == D!EncOctets(Zs(300)) IN SubSeq(e, 1, 4) = <<4, 130, 1, 44>> /\ D!ReadTLV(e \o <<9>>).rest = <<9>>

(* the signature of GB/T 32918.5-2017 Annex A in DER: r has the top bit set (leading 00), s too *)
R == X("f5a03b0648d2c4630eeac513e1bb81a15944da3827d5b74143ac7eaceee720b3")
Sv == X("b1b6aa29df212fd8763182bc0d421ca1bb9038fd1f7f42d4840b69c485bbc1aa")
Sig == D!EncSig(R, Sv)
ASSUME HX(Sig) = "3046022100f5a03b0648d2c4630eeac513e1bb81a15944da3827d5b74143ac7eaceee720b3022100b1b6aa29df212fd8763182bc0d421ca1bb9038fd1f7f42d4840b69c485bbc1aa"
ASSUME D!StrictSig(Sig) = [ok |-> TRUE, r |-> R, s |-> Sv]
ASSUME HX(D!EncSig(<<1>>, <<0, 127>>)) = "300602010102017f" /\ D!StrictSig(X("300602010102017f")) = [ok |-> TRUE, r |-> <<1>>, s |-> <<127>>]
ASSUME D!StrictSig(X("3006020100020100")) = [ok |-> TRUE, r |-> <<>>, s |-> <<>>]
(* refused: trailing octet outside / inside, truncated, one or three integers, non-minimal or negative integers, *)
(* long-form / indefinite lengths, wrong tags, empty                                                            *)
ASSUME ~D!StrictSig(Sig \o <<0>>).ok /\ ~D!StrictSig(SubSeq(Sig, 1, Len(Sig) - 1)).ok /\ ~D!StrictSig(<<>>).ok /\ ~D!StrictSig(<<48, 0>>).ok
ASSUME ~D!StrictSig(X("300702010102017f00")).ok /\ ~D!StrictSig(X("3003020101")).ok /\ ~D!StrictSig(X("300902010102017f020101")).ok
ASSUME ~D!StrictSig(X("30070202000102017f")).ok /\ ~D!StrictSig(X("30060201ff02017f")).ok /\ ~D!StrictSig(X("300602018002017f")).ok
ASSUME ~D!StrictSig(X("30810602010102017f")).ok /\ ~D!StrictSig(X("308002010102017f0000")).ok /\ ~D!StrictSig(X("30070281010102017f")).ok
ASSUME ~D!StrictSig(X("310602010102017f")).ok /\ ~D!StrictSig(X("100602010102017f")).ok /\ ~D!StrictSig(X("300604010102017f")).ok
ASSUME ~D!StrictSig(X("3005020002017f")).ok /\ ~D!StrictSig(X("30080230063001020101")).ok
(* every single-octet change of the two header levels or of a length is refused or changes (r, s); *)
(* every strict encoding decodes to what was encoded (sample)                                        *)
ASSUME \A i \in 1..Len(Sig) : \A m \in {1, 128} :
         LET p == D!StrictSig([Sig EXCEPT ![i] = IF (@ \div m) % 2 = 1 THEN @ - m ELSE @ + m])
         IN ~p.ok \/ p.r # R \/ p.s # Sv
ASSUME \A a \in {<<>>, <<1>>, <<127>>, <<128>>, <<255>>, <<1, 0>>, <<127, 255>>, <<128, 0>>, R, Sv, Tail(R), <<0>> \o R} :
         \A b \in {<<>>, <<1>>, <<200>>, Sv} :
           D!StrictSig(D!EncSig(a, b)) = [ok |-> TRUE, r |-> BN!Norm(a), s |-> BN!Norm(b)]
VARIABLE x
Init == x = 0
Next == UNCHANGED x
=============================================================================
