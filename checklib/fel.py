"""Shared plan fragment: the limb-level field machine (spec/mc/MC_Fel.tla over algo/Mont.tla), used by C05 (internal/sm2ec
assembly + fiat-crypto elements) and C09 (internal/sm9/bn256 gfP and gfP2)."""
import os
from . import core

S = core.tla_set


def jobs(ctx, fields):
    """TLC jobs (one per field) and their output files."""
    quick = ctx.tier == "quick"
    js, outs = [], []
    for f in fields:
        if quick:
            rows, cols, nrnd, nsh = [1, 2, 3, 4], [1, 2, 3, 4], 3, 1
        elif f in ("fiatp", "fiatn", "natn", "natn9"):
            rows, cols, nrnd, nsh = [1, 2, 3, 4, 5, 6, 7, 8], [1, 2, 3, 4], 8, 6
        elif f == "gfp2":
            rows, cols, nrnd, nsh = [1, 2, 3, 4], [1, 2, 3, 4], 8, 1
        else:
            rows, cols, nrnd, nsh = [1, 2, 3, 4, 5, 6, 7, 8, 9], [1, 2, 3, 4], 8, 12
        for k in range(nsh):
            o = os.path.join(ctx.scratch, "fel-%s-%d.ndjson" % (f, k))
            outs.append(o)
            js.append(dict(module="MC_Fel", name="MC_Fel_%s_%d" % (f, k), view="View", workers=2 if quick else 3, timeout=3000, heap="4g",
                           constants=dict(Seed=ctx.seed, OutFile=core.tla_str(o), Field='"%s"' % f, RowLetters=S(rows), ColLetters=S(cols), NRnd=nrnd, NShards=nsh, Shard=k),
                           invariants=("DomainOk", "InverseOk", "RootOk", "Inverse2Ok")))
    return js, outs


def replay(ctx, outs, cfgs):
    allf = core.cat_files(outs, os.path.join(ctx.scratch, "fel.ndjson"))
    ctx.replay_all(allf, cfgs, per_trace_timeout=120)
    ctx.binding_guard(allf, cfgs[0], field="exps")
    ctx.sample_traces(allf)

    def key(t):
        s = t["steps"][0]
        return (s["field"], s["op"], s["a"])
    ctx.count_distinct(allf, key)
    ctx.extra["fel_products"] = ctx.extra.get("fel_products", 0) + sum(max(1, len(__import__("json").loads(l)["steps"][0]["bs"]) // 64) for l in open(allf))
    ctx.assumptions.append(
        "limb-level field arithmetic (family fel): residues are structured in their 64-bit limbs (alphabet 0, 1, 2^64-1, 2^63, the limbs of the modulus, "
        "a random limb; thorough tier: the full alphabet on the left operand), plus the modulus with one limb replaced, thirds/half of the modulus, R, R^2, m-2^k, "
        "random residues; every primitive is called with a fresh result and with the result aliasing each operand (inversion: fresh result only); "
        "operands outside the field only for the range test and the final reduction; square roots are accepted in either sign")
