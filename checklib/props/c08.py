"""C08 SM2 key agreement: obj/Sm2Kx protocol machine (two parties, network, adversary), MC_C08 bounded instance
with emission of whole runs, replay through sm2.KeyExchange (scripted reader) and package ecdh (SM2MQV +
SM2SharedKey + ECDH + SM2ZA), Annex B example through the machine (MC_C08kat), recorded real runs validated by
Trace_Sm2Kx."""
import os
from .. import core, cfgs

S = core.tla_set
SPECIALS = [10000, 10001, 10002, 10003, 10004]   # t = 0 (V = O) at the responder / initiator; P = [x~]R (the peer adds equal points) at the responder / initiator; klen = 300
INVS = ("TypeOK", "Agreement", "BadPointRejected", "BadConfirmRejected", "FailClosed", "CrossImpl", "DhAgree")


def _small_heaps(ctx, heap):
    """core.Ctx.validate starts its JVMs with the default 6g heap; the state spaces here are a few hundred small
    states, and a dozen such JVMs next to other checks got the machine's OOM killer going.  Cap the default."""
    orig = ctx.tlc

    def tlc(*a, **kw):
        if kw.get("heap", "6g") == "6g":
            kw["heap"] = heap
        return orig(*a, **kw)
    ctx.tlc = tlc


def run(ctx):
    _small_heaps(ctx, "1500m")
    out = os.path.join(ctx.scratch, "c08.ndjson")
    cf = list(cfgs.K_EC) + [dict(cfgs.K_SM3[2], label="sm3 " + cfgs.K_SM3[2]["label"])]
    for c in cf:                                   # build everything first: a build failure must not cost a TLC run
        ctx.build("replay", tuple(c["tags"]))
        ctx.build("record", tuple(c["tags"]))
    if ctx.tier == "quick":
        # one orthogonal-array block (49 scenarios: every pair of scalar classes / identity pair / key length /
        # confirmation setting) x the honest run and every second single adversary action at every protocol point
        # (alternating with the scenario number: every action is taken from half of the scenarios)
        groups = [("b0", list(range(49)) + SPECIALS, 2, 1, 4)]
        nshard_workers = 4
        nrec, rec_shards = 32, 8
        nrec2, rec2_shards = 12, 4
    else:
        # seven blocks (column pairings rotate from block to block), all single adversary actions; plus every
        # ordered pair of adversary actions on the diagonal of block 0
        groups = [("b%d" % b, list(range(49 * b, 49 * b + 49)) + (SPECIALS if b == 0 else []), 1, 1, 2) for b in range(7)]
        groups.append(("adv2", [0, 8, 16, 24, 32, 40, 48], 1, 2, 2))
        nshard_workers = 4
        nrec, rec_shards = 240, 8
        nrec2, rec2_shards = 80, 8
    jobs, outs = [], []
    for name, ids, advmod, maxadv, nsh in groups:
        for i in range(nsh):
            sub = ids[i::nsh]
            if not sub:
                continue
            o = "%s.%s.%d" % (out, name, i)
            outs.append(o)
            jobs.append(dict(module="MC_C08", name="MC_C08_%s_%d" % (name, i), view="View", workers=nshard_workers, timeout=3000, heap="2g",
                             constants=dict(Seed=ctx.seed, Ids=S(sub), AdvMod=advmod, MaxAdv=maxadv, LongAt=6, LongLen=8191,
                                            OutFile=core.tla_str(o)),
                             invariants=INVS))
    # the standard's worked example through the protocol machine itself
    jobs.append(dict(module="MC_C08kat", name="MC_C08kat", constants={}, workers=1, timeout=900, heap="2g",
                     invariants=("KatOK", "Agreement", "BadPointRejected", "BadConfirmRejected", "FailClosed", "CrossImpl"),
                     postcondition="KatComplete"))
    ctx.tlc_many(jobs, parallel=5 if ctx.tier == "quick" else 4)
    core.cat_files(outs, out)
    if core.count_lines(out) == 0:
        raise core.Infra("MC_C08 emitted no run")

    ctx.replay_all(out, cf)
    ctx.binding_guard(out, cf[0])

    # code -> spec: recorded real runs (the library draws r from the recorder's scripted reader)
    ev = ctx.record("sm2kx", nrec, tags=cfgs.K_EC[0]["tags"], env=cfgs.K_EC[0]["env"], name="sm2kx-" + cfgs.K_EC[0]["label"])
    ctx.validate("Trace_Sm2Kx", ev, "sm2kx", shards=rec_shards, label=cfgs.K_EC[0]["label"], guard=True, timeout=3000)
    ev = ctx.record("sm2kx", nrec2, seed=ctx.seed + 7919, tags=cfgs.K_EC[3]["tags"], env=cfgs.K_EC[3]["env"], name="sm2kx-" + cfgs.K_EC[3]["label"])
    ctx.validate("Trace_Sm2Kx", ev, "sm2kx", shards=rec2_shards, label=cfgs.K_EC[3]["label"], guard=False, timeout=3000)

    ctx.sample_traces(out)

    def key(t):
        st = t["steps"]
        n = st[0]
        advs = tuple((s["what"], s["at"], s["kind"], s["pos"]) for s in st if s["op"] == "adv")
        return (tuple(n["cls"]) if n["k"] < 10000 else ("special", n["k"]), len(n["uidA"]) // 2, len(n["uidB"]) // 2, n["klen"],
                n["confA"], n["confB"], advs, st[-1]["op"], st[-1]["ok"])
    ctx.count_distinct(out, key)
    # vacuity guard: every adversary action at every protocol point, the honest completion and the honest V = O abort
    # must have been explored and emitted
    seen = set()
    for k in ctx.distinct:
        advs, last, ok = k[6], k[7], k[8]
        seen.add(("honest", last, ok) if not advs else advs[0][:3] + ((advs[0][3],) if advs[0][0] == "flip" else ()))
    want = {("honest", "confirmA", True), ("honest", "respond", False)}
    want |= {("replaceR", at, kd) for at in ("RA", "RB") for kd in ("inf", "offcurve", "range", "wide", "other", "short", "long", "prefix", "empty")}
    want |= {("flip", at, "", p) for at in ("RB", "SA") for p in (1, 17, 32)}
    want |= {(w, at, "") for w in ("trunc", "drop", "forge") for at in ("RB", "SA")}
    if want - seen:
        raise core.Infra("C08 vacuity guard: not explored: %s" % sorted(want - seen, key=str))
    nrun = core.count_lines(out)
    ctx.extra["protocol_runs_emitted"] = nrun
    ctx.assumptions += [
        "scalars: classes 1, 2, n-2 (n-1 for ephemeral keys in even scenarios), 2^127-1, 2^127, 2^127+1 and pseudo-random values, combined as an orthogonal array of strength 2 (every pair of classes of every two of dA, dB, rA, rB, identity pair, key length, confirmation setting occurs), not the full product; plus special scenarios: t = (d + x~r) mod n = 0 at either side (V = O, and the peer adds opposite points), d = x~r mod n at either side (the peer's P + [x~]R is a doubling), klen = 300",
        "identities: empty (default), explicit default, 1, 53, 62, 117, 200 bytes and 8191 bytes once; key lengths 1, 16, 32, 33, 48, 128, 129 (and 300 once) bytes; one side in three learns its peer's key and identity through SetPeerParameters",
        "adversary: at most %s alteration(s) per run out of {R -> O, off-curve, abscissa = p (non-canonical), abscissa + p (257 bits), other valid point, encoding short / long / wrong prefix / empty; confirmation bit flipped at byte 1/17/32, truncated, forged, dropped}%s" % (
            ("1 (2 on 7 scenarios)", "") if ctx.tier != "quick" else ("1", "; the quick tier takes every second action per scenario, alternating with the scenario number")),
        "package ecdh has no confirmation values and holds private scalars in [1, n-2]: r = n-1 is replayed through sm2.KeyExchange only; S1/S2 are checked on sm2.KeyExchange only",
        "the ephemeral scalar of sm2.KeyExchange is injected through the random reader (randFieldElement: one 32-byte read, no MaybeReadByte); reader errors / short reads belong to C12",
        "peer static public keys are always valid (key validation is C05/C06 territory); only ephemeral points are attacked",
    ]
    return ctx.finish(
        rule="one case = one whole protocol run explored by TLC on obj/Sm2Kx (scenario x honest/adversary path), replayed through sm2.KeyExchange "
             "and package ecdh under 5 configurations; distinct = distinct (scalar classes, identity lengths, klen, confirmation setting, adversary "
             "actions, final call, outcome); non-trivial = K, S1, S2, V, R or an accept/reject decision was compared; recorded real runs are "
             "validated event by event against the same machine",
        exhaustive=False)
