package rt

import (
	"bytes"
	"crypto/ecdsa"
	"encoding/asn1"
	"encoding/hex"
	"errors"
	"io"
	"math/big"

	"github.com/emmansun/gmsm/ecdh"
	"github.com/emmansun/gmsm/sm2"
	"github.com/emmansun/gmsm/sm9"
)

// scripted is the caller's random source of family randsrc (C12): the bytes of the trace, served
// in order; the byte at index failAt (if >= 0) cannot be read: the Read that needs it returns the
// bytes before it together with the scripted error.
type scripted struct {
	data     []byte
	pos      int
	failAt   int
	err      error
	consumed int
	chunk    int  // at most this many bytes per Read call (0 = no limit): a legal io.Reader may return short reads
	late     bool // deliver the bytes before the failing index with a nil error and the error on the NEXT call (bytes.Reader style)
}

func (s *scripted) Read(p []byte) (int, error) {
	if len(p) == 0 {
		return 0, nil
	}
	limit := len(s.data)
	if s.failAt >= 0 && s.failAt < limit {
		limit = s.failAt
	}
	if s.pos >= limit {
		if s.failAt >= 0 && s.pos >= s.failAt {
			return 0, s.err
		}
		return 0, io.ErrUnexpectedEOF // script exhausted: the scenario was too short (harness problem)
	}
	want := len(p)
	if s.chunk > 0 && want > s.chunk {
		want = s.chunk
	}
	n := copy(p[:want], s.data[s.pos:limit])
	s.pos += n
	s.consumed = s.pos
	if n < want && s.failAt >= 0 && s.pos >= s.failAt && !s.late {
		return n, s.err
	}
	return n, nil
}

var errScripted = errors.New("scripted random source failure")

type randOutcome struct {
	ok       bool
	consumed int
	fields   map[string]string
}

func bigHex32(b *big.Int) string {
	out := make([]byte, 32)
	b.FillBytes(out)
	return hex.EncodeToString(out)
}

func runRandOp(st Step, src *scripted) (o randOutcome) {
	o.fields = map[string]string{}
	fail := func(err error) randOutcome { o.ok = false; o.consumed = src.consumed; return o }
	done := func() randOutcome { o.ok = true; o.consumed = src.consumed; return o }
	d := st.Hex("d")
	msg, uid, hid := st.Hex("msg"), st.Hex("uid"), byte(st.Int("hid"))
	switch st.Str("what") {
	case "sm2sign":
		priv, err := sm2.NewPrivateKey(d)
		if err != nil {
			panic("harness: randsrc: bad SM2 key in trace: " + err.Error())
		}
		sig, err := priv.Sign(src, msg, sm2.DefaultSM2SignerOpts)
		if err != nil {
			if sig != nil {
				o.fields["leak"] = "signature returned with an error"
			}
			return fail(err)
		}
		var rs struct{ R, S *big.Int }
		if rest, err := asn1.Unmarshal(sig, &rs); err != nil || len(rest) != 0 {
			panic("harness: randsrc: signature is not DER: " + hex.EncodeToString(sig))
		}
		o.fields["r"], o.fields["s"] = bigHex32(rs.R), bigHex32(rs.S)
		return done()
	case "sm2enc":
		priv, _ := sm2.NewPrivateKey(d)
		ct, err := sm2.Encrypt(src, &priv.PublicKey, msg, nil)
		if err != nil {
			if ct != nil {
				o.fields["leak"] = "ciphertext returned with an error"
			}
			return fail(err)
		}
		o.fields["out"] = hex.EncodeToString(ct)
		return done()
	case "sm2keygen":
		k, err := sm2.GenerateKey(src)
		if err != nil {
			if k != nil {
				o.fields["leak"] = "key returned with an error"
			}
			return fail(err)
		}
		o.fields["priv"] = bigHex32(k.D)
		o.fields["pub"] = "04" + bigHex32(k.X) + bigHex32(k.Y)
		return done()
	case "sm2kx":
		priv, _ := sm2.NewPrivateKey(d)
		peer, _ := sm2.NewPrivateKey(bytes.Repeat([]byte{7}, 32))
		ke, err := sm2.NewKeyExchange(priv, &peer.PublicKey, nil, nil, 16, false)
		if err != nil {
			panic("harness: randsrc: NewKeyExchange: " + err.Error())
		}
		var ra *ecdsa.PublicKey
		ra, err = ke.InitKeyExchange(src)
		if err != nil {
			if ra != nil {
				o.fields["leak"] = "ephemeral key returned with an error"
			}
			return fail(err)
		}
		o.fields["pub"] = "04" + bigHex32(ra.X) + bigHex32(ra.Y)
		return done()
	case "ecdhkeygen":
		k, err := ecdh.P256().GenerateKey(src)
		if err != nil {
			if k != nil {
				o.fields["leak"] = "key returned with an error"
			}
			return fail(err)
		}
		o.fields["priv"] = hex.EncodeToString(k.Bytes())
		o.fields["pub"] = hex.EncodeToString(k.PublicKey().Bytes())
		return done()
	case "sm9masters":
		k, err := sm9.GenerateSignMasterKey(src)
		if err != nil {
			if k != nil {
				o.fields["leak"] = "key returned with an error"
			}
			return fail(err)
		}
		o.fields["priv"] = hex.EncodeToString(k.Bytes())
		o.fields["pub"] = hex.EncodeToString(k.PublicKey().Bytes())
		return done()
	case "sm9mastere":
		k, err := sm9.GenerateEncryptMasterKey(src)
		if err != nil {
			if k != nil {
				o.fields["leak"] = "key returned with an error"
			}
			return fail(err)
		}
		o.fields["priv"] = hex.EncodeToString(k.Bytes())
		o.fields["pub"] = hex.EncodeToString(k.PublicKey().Bytes())
		return done()
	case "sm9wrap", "sm9kx", "sm9sign":
		ke := st.Hex("ke")
		switch st.Str("what") {
		case "sm9wrap":
			master, err := sm9EncMaster(ke)
			if err != nil {
				panic("harness: randsrc: bad SM9 master key in trace: " + err.Error())
			}
			key, cipher, err := sm9.WrapKey(src, master.PublicKey(), uid, hid, 16)
			if err != nil {
				if key != nil || cipher != nil {
					o.fields["leak"] = "key or cipher returned with an error"
				}
				return fail(err)
			}
			if len(cipher) != 65 || cipher[0] != 4 {
				panic("harness: randsrc: unexpected SM9 cipher form")
			}
			o.fields["c1"] = hex.EncodeToString(cipher[1:])
			return done()
		case "sm9kx":
			master, err := sm9EncMaster(ke)
			if err != nil {
				panic("harness: randsrc: bad SM9 master key in trace: " + err.Error())
			}
			uk, err := master.GenerateUserKey([]byte("Bob-initiator"), hid)
			if err != nil {
				panic("harness: randsrc: GenerateUserKey: " + err.Error())
			}
			kx := uk.NewKeyExchange([]byte("Bob-initiator"), uid, 16, false)
			ra, err := kx.InitKeyExchange(src, hid)
			if err != nil {
				if ra != nil {
					o.fields["leak"] = "ephemeral value returned with an error"
				}
				return fail(err)
			}
			if len(ra) != 65 || ra[0] != 4 {
				panic("harness: randsrc: unexpected SM9 RA form")
			}
			o.fields["c1"] = hex.EncodeToString(ra[1:])
			return done()
		default:
			master, err := sm9SignMaster(ke)
			if err != nil {
				panic("harness: randsrc: bad SM9 master key in trace: " + err.Error())
			}
			uk, err := master.GenerateUserKey(uid, hid)
			if err != nil {
				panic("harness: randsrc: GenerateUserKey: " + err.Error())
			}
			sig, err := uk.Sign(src, msg, nil)
			if err != nil {
				if sig != nil {
					o.fields["leak"] = "signature returned with an error"
				}
				return fail(err)
			}
			if !master.PublicKey().Verify(uid, hid, msg, sig) {
				o.fields["leak"] = "honest SM9 signature does not verify"
			}
			return done()
		}
	}
	panic("harness: randsrc: unknown operation " + st.Str("what"))
}

// randsrc family (C12): the operation is run several times (MaybeReadByte discards 0 or 1 byte at
// random); every run's reply must be one of the outcomes the specification allows.
func init() {
	Register("randsrc", func(t *Trace, env *Env) *Mismatch {
		for i, st := range t.Steps {
			At(i)
			stream := st.Hex("stream")
			failAt := -1
			var ferr error
			if f, ok := st["fault"].([]interface{}); ok && len(f) == 2 {
				failAt = int(f[1].(float64))
				if f[0].(string) == "eof" {
					ferr = io.EOF
				} else {
					ferr = errScripted
				}
			}
			allowed, _ := st["allowed"].([]interface{})
			// every legal delivery style of an io.Reader must give the same outcome: whole reads, short reads of
			// at most 7 bytes / 1 byte, and (with a fault) the error together with the last bytes or on the next call
			type style struct {
				chunk int
				late  bool
			}
			styles := []style{{0, false}, {7, false}, {1, false}}
			if failAt >= 0 {
				styles = append(styles, style{0, true}, style{7, true})
			}
			for rep := 0; rep < 8*len(styles); rep++ {
				sty := styles[rep%len(styles)]
				src := &scripted{data: stream, failAt: failAt, err: ferr, chunk: sty.chunk, late: sty.late}
				got := runRandOp(st, src)
				if l := got.fields["leak"]; l != "" {
					return &Mismatch{Step: i, Kind: "mismatch", Got: l, Exp: "no output with an error / honest output valid"}
				}
				matched := false
				for _, a := range allowed {
					am := a.(map[string]interface{})
					if am["ok"].(bool) != got.ok {
						continue
					}
					if !got.ok {
						matched = true
						break
					}
					if int(am["consumed"].(float64)) != got.consumed {
						continue
					}
					same := true
					for k, v := range got.fields {
						if s, has := am[k].(string); has && s != v {
							same = false
						}
					}
					if same {
						matched = true
						break
					}
				}
				if !matched {
					g := map[string]interface{}{"ok": got.ok, "consumed": got.consumed}
					for k, v := range got.fields {
						g[k] = v
					}
					return &Mismatch{Step: i, Kind: "mismatch", Got: jsonStr(g), Exp: "one of " + jsonStr(allowed)}
				}
			}
		}
		return nil
	})
}

func sm9EncMaster(k []byte) (*sm9.EncryptMasterPrivateKey, error) {
	der, err := asn1.Marshal(new(big.Int).SetBytes(k))
	if err != nil {
		return nil, err
	}
	return sm9.UnmarshalEncryptMasterPrivateKeyASN1(der)
}

func sm9SignMaster(k []byte) (*sm9.SignMasterPrivateKey, error) {
	der, err := asn1.Marshal(new(big.Int).SetBytes(k))
	if err != nil {
		return nil, err
	}
	return sm9.UnmarshalSignMasterPrivateKeyASN1(der)
}
