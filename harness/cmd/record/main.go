// Command record drives the real gmsm objects with seeded random histories and logs the events.
package main

import (
	"flag"
	"os"

	"gmsmverif/internal/rt"
)

func main() {
	fam := flag.String("fam", "", "family")
	seed := flag.Int64("seed", 1, "seed")
	n := flag.Int("n", 100, "number of histories")
	out := flag.String("out", "", "ndjson event file")
	flag.Parse()
	f, err := os.Create(*out)
	if err != nil {
		panic(err)
	}
	rt.Record(*fam, *seed, *n, f)
	f.Close()
}
