------------------------------- MODULE ZucMac -------------------------------
(* The ZUC-based MACs as their specifications define them - one XOR of        *)
(* keystream windows per set message bit - and deliberately not shaped like   *)
(* the implementation (no sliding key registers, no block/tail split).        *)
(*                                                                            *)
(* 128-EIA3 (ETSI/SAGE "128-EEA3 & 128-EIA3 Document 1" v1.7 section 4,       *)
(* = GB/T 33133.3): L = ceil(LENGTH/32) + 2 keystream words z[0..L-1]; with   *)
(* z_i the 32-bit word starting at keystream bit i,                           *)
(*     T = XOR{ z_i : 0 <= i < LENGTH, M[i] = 1 } xor z_LENGTH ,              *)
(*     MAC = T xor z[L-1].                                                    *)
(* ZUC-256 MAC ("The ZUC-256 Stream Cipher", section 4), tag length t in      *)
(* {32, 64, 128}: keystream initialised with the constants d of that tag      *)
(* size, L = ceil(l/32) + 2*(t/32) words;                                     *)
(*     Tag = (z_0 .. z_{t-1});  for i < l with m_i = 1: Tag ^= W_i where      *)
(*     W_i = (z_{t+i} .. z_{i+2t-1});  Tag ^= W_l.                            *)
(* A message is a bit string (bytes, nbits): bit i (0-based) is bit 7-(i%8)   *)
(* of byte i div 8; bits of the last byte beyond nbits do not belong to it.   *)
EXTENDS Integers, Sequences, Bitwise
LOCAL INSTANCE SequencesExt
Z == INSTANCE ZUC

Bit(bytes, i) == (bytes[(i \div 8) + 1] \div Z!P2(7 - (i % 8))) % 2

(* the keystream as 16-bit pieces: piece k (1-based) holds keystream bits 16(k-1) .. 16k-1 *)
(* (SubSeq(f, 1, n) turns TLC's lazy function value into a concrete tuple, so that it is evaluated once) *)
Halves(ws) == SubSeq([k \in 1..(2 * Len(ws)) |-> ws[(k + 1) \div 2][2 - (k % 2)]], 1, 2 * Len(ws))
(* the t-bit window of the keystream starting at bit j (0-based), as t/16 pieces *)
Win(hs, j, t) ==
  LET r == j % 16
      q == j \div 16
  IN  SubSeq([m \in 1..(t \div 16) |->
                IF r = 0 THEN hs[q + m]
                ELSE ((hs[q + m] * Z!P2(r)) % 65536) + (hs[q + m + 1] \div Z!P2(16 - r))], 1, t \div 16)
XorH(a, b) == SubSeq([m \in 1..Len(a) |-> a[m] ^^ b[m]], 1, Len(a))
HBytes(h) == SubSeq([i \in 1..(2 * Len(h)) |-> IF i % 2 = 1 THEN h[(i + 1) \div 2] \div 256 ELSE h[(i + 1) \div 2] % 256], 1, 2 * Len(h))

(* XOR of the windows at bit (shift + i) over the set bits i < nbits of msg, folded into base.  (FoldLeft *)
(* of SequencesExt is evaluated iteratively by TLC; i runs through 0..nbits-1.)                          *)
FoldBits(hs, msg, nbits, t, shift, base) ==
  FoldLeft(LAMBDA acc, k : IF Bit(msg, k - 1) = 1 THEN XorH(acc, Win(hs, shift + k - 1, t)) ELSE acc,
           base, [k \in 1..nbits |-> k])

Eia3Words(nbits) == ((nbits + 31) \div 32) + 2
Mac256Words(nbits, t) == ((nbits + 31) \div 32) + (2 * (t \div 32))

(* 128-EIA3 on a given keystream ws (at least Eia3Words(nbits) words) *)
Eia3OnKS(ws, msg, nbits) ==
  LET hs == Halves(ws)
      L  == Eia3Words(nbits)
      t1 == FoldBits(hs, msg, nbits, 32, 0, <<0, 0>>)
      t2 == XorH(t1, Win(hs, nbits, 32))
  IN  HBytes(XorH(t2, Win(hs, 32 * (L - 1), 32)))

(* ZUC-256 MAC with a t-bit tag on a given keystream ws (at least Mac256Words(nbits, t) words) *)
Mac256OnKS(ws, msg, nbits, t) ==
  LET hs == Halves(ws)
      t0 == Win(hs, 0, t)
      t1 == FoldBits(hs, msg, nbits, t, t, t0)
  IN  HBytes(XorH(t1, Win(hs, t + nbits, t)))

(* from key and IV *)
Eia3(key, iv, msg, nbits) == Eia3OnKS(Z!Keystream128(key, iv, Eia3Words(nbits)), msg, nbits)
Mac256(key, iv, tagBytes, msg, nbits) ==
  Mac256OnKS(Z!Keystream256Mac(key, iv, tagBytes, Mac256Words(nbits, 8 * tagBytes)), msg, nbits, 8 * tagBytes)

(* ------------------------------------------------------------------------ *)
(* NOT part of the standard: a model of known defect D8 of the pinned tree     *)
(* (internal/zuc/eia256.go, ZUC256Mac.checkSum), used only to classify a       *)
(* mismatch as that defect.  For 64/128-bit tags the loop over the whole       *)
(* 32-bit words of the final partial block shifts the key window in place into *)
(* k0[0..tw-1], but the code for the last 1..32 bits (and the final XOR) reads *)
(* the window at k0[kIdx..kIdx+tw], kIdx = number of whole words processed.    *)
(* With old[j] the keystream word j of the tail (old[0] = z word tw + 4*blocks) *)
(* the array it reads is A[j] = old[kIdx + j] for j < tw, old[j] otherwise.    *)
(* The value equals the standard's whenever the bit length modulo 128 is <= 32 *)
(* (kIdx = 0) or the tag has 32 bits.                                          *)
(* ------------------------------------------------------------------------ *)
Mac256D8OnKS(ws, msg, nbits, t) ==
  LET tw   == t \div 32
      nb   == nbits \div 128
      r128 == nbits % 128
      kIdx == ((r128 + 31) \div 32) - 1
  IN  IF r128 <= 32 THEN Mac256OnKS(ws, msg, nbits, t)
      ELSE LET base == tw + (4 * nb)
               A(j) == IF j < tw THEN ws[base + kIdx + j + 1] ELSE ws[base + j + 1]
               ap   == SubSeq([j \in 1..(8 - kIdx) |-> A(kIdx + j - 1)], 1, 8 - kIdx)
               hs   == Halves(ws)
               ha   == Halves(ap)
               head == (128 * nb) + (32 * kIdx)
               t1   == FoldBits(hs, msg, head, t, t, Win(hs, 0, t))
               t2   == FoldLeft(LAMBDA acc, k : IF Bit(msg, head + k - 1) = 1 THEN XorH(acc, Win(ha, k - 1, t)) ELSE acc,
                                t1, [k \in 1..(nbits - head) |-> k])
           IN  HBytes(XorH(t2, Win(ha, nbits - head, t)))

(* ------------------------------------------------------------------------ *)
(* 3GPP parameter blocks.  count: 4 bytes (big-endian COUNT), bearer 0..31,   *)
(* direction 0..1.                                                           *)
(* 128-EEA3: IV[0..3] = COUNT, IV[4] = BEARER || DIRECTION || 00,             *)
(*           IV[5..7] = 0, IV[8+i] = IV[i].                                   *)
(* 128-EIA3: IV[0..3] = COUNT, IV[4] = BEARER || 000, IV[5..7] = 0,           *)
(*           IV[8] = IV[0] xor (DIRECTION << 7), IV[9..13] = IV[1..5],         *)
(*           IV[14] = IV[6] xor (DIRECTION << 7), IV[15] = IV[7].             *)
(* ------------------------------------------------------------------------ *)
Eea3IV(count, bearer, direction) ==
  LET h == count \o <<(bearer * 8) + (direction * 4), 0, 0, 0>>
  IN  h \o h
Eia3IV(count, bearer, direction) ==
  LET h == count \o <<bearer * 8, 0, 0, 0>>
  IN  SubSeq([i \in 1..16 |-> IF i <= 8 THEN h[i]
                              ELSE IF i = 9 \/ i = 15 THEN h[i - 8] ^^ (direction * 128)
                              ELSE h[i - 8]], 1, 16)
=============================================================================
