// Command corpus produces the valid artefacts that C13 (hostile bytes) mutates: one or more instances
// per entry-point type, every one of them made by the library under test (never hand-made bytes),
// written as ndjson {type, name, hex, der, <side inputs needed to consume it>}. Keys are fixed
// scalars; randomness comes from a seeded reader wherever the API takes an io.Reader (pkcs7, pkcs8
// and MarshalCSRResponse draw from crypto/rand internally - those artefacts differ between runs in
// their random fields only, never in shape). The only bytes not produced by the library are
// FIXTURES read from the repository's own test files (BER-encoded PKCS#7 from other
// implementations), marked fixture=true.
package main

import (
	"bufio"
	"bytes"
	"crypto"
	"crypto/cipher"
	"crypto/ecdsa"
	"crypto/elliptic"
	"crypto/x509"
	"crypto/x509/pkix"
	"encoding/asn1"
	"encoding/base64"
	"encoding/hex"
	"encoding/json"
	"encoding/pem"
	"flag"
	"fmt"
	"math/big"
	mrand "math/rand"
	"os"
	"path/filepath"
	"time"

	"github.com/emmansun/gmsm/cfca"
	gcipher "github.com/emmansun/gmsm/cipher"
	"github.com/emmansun/gmsm/ecdh"
	"github.com/emmansun/gmsm/padding"
	"github.com/emmansun/gmsm/pkcs"
	"github.com/emmansun/gmsm/pkcs7"
	"github.com/emmansun/gmsm/pkcs8"
	"github.com/emmansun/gmsm/sm2"
	"github.com/emmansun/gmsm/sm3"
	"github.com/emmansun/gmsm/sm4"
	"github.com/emmansun/gmsm/sm9"
	"github.com/emmansun/gmsm/smx509"

	"gmsmverif/internal/rt"

	"golang.org/x/crypto/cryptobyte"
	cbasn1 "golang.org/x/crypto/cryptobyte/asn1"
)

type entry map[string]interface{}

var out *bufio.Writer
var count int

func hx(b []byte) string { return hex.EncodeToString(b) }

func must(err error) {
	if err != nil {
		panic(err)
	}
}

func mustB(b []byte, err error) []byte {
	must(err)
	return b
}

// add writes one artefact. der says that the bytes are one DER TLV (node-level mutations apply).
func add(typ, name string, data []byte, der bool, side entry) {
	e := entry{"type": typ, "name": name, "hex": hx(data), "der": der, "len": len(data)}
	for k, v := range side {
		e[k] = v
	}
	b, err := json.Marshal(e)
	must(err)
	out.Write(b)
	out.WriteByte('\n')
	count++
}

func scalar(seed int64, label byte) []byte {
	// a fixed 32-byte scalar well inside [1, n-2] of both SM2 and SM9 group orders (top byte small)
	r := mrand.New(mrand.NewSource(seed*131 + int64(label)))
	b := make([]byte, 32)
	r.Read(b)
	b[0] = 0x1f & b[0]
	b[31] |= 1
	return b
}

type pair struct {
	cert *smx509.Certificate
	key  *sm2.PrivateKey
}

func main() {
	outp := flag.String("out", "", "ndjson output file")
	seed := flag.Int64("seed", 1, "seed of the deterministic reader")
	repo := flag.String("repo", "/repo", "repository root (test fixtures are read from it)")
	table := flag.Bool("table", false, "print the C13 entry-point table as JSON and exit")
	flag.Parse()
	if *table {
		b, _ := json.Marshal(rt.HostileTable())
		fmt.Println(string(b))
		return
	}
	f, err := os.Create(*outp)
	must(err)
	out = bufio.NewWriter(f)
	rnd := mrand.New(mrand.NewSource(*seed))

	uid := []byte("1234567812345678")
	msg := []byte("C13 corpus message")
	password := []byte("c13-password")

	// ------------------------------------------------------------------ SM2 keys
	keyA, err := sm2.NewPrivateKey(scalar(*seed, 1)) // signer / CA
	must(err)
	keyB, err := sm2.NewPrivateKey(scalar(*seed, 2)) // recipient / encryption key
	must(err)
	keyT, err := sm2.NewPrivateKey(scalar(*seed, 3)) // temporary key (CFCA)
	must(err)
	dB, dT := scalar(*seed, 2), scalar(*seed, 3)
	ecdhB, err := keyB.ECDH()
	must(err)
	pubB65 := ecdhB.PublicKey().Bytes()
	ecdhA, err := keyA.ECDH()
	must(err)
	pubA65 := ecdhA.PublicKey().Bytes()

	// SM2 signature (DER) over msg with uid, and over a bare digest
	sig, err := keyA.SignWithSM2(rnd, uid, msg)
	must(err)
	digest := mustB(sm2.CalculateSM2Hash(&keyA.PublicKey, msg, uid))
	add("sm2-sig", "sm2-sig-uid", sig, true, entry{"pub": hx(pubA65), "uid": hx(uid), "msg": hx(msg), "hash": hx(digest)})
	sig2, err := sm2.SignASN1(rnd, keyA, digest, nil)
	must(err)
	add("sm2-sig", "sm2-sig-hash", sig2, true, entry{"pub": hx(pubA65), "uid": hx(uid), "msg": hx(msg), "hash": hx(digest)})

	// SM2 ciphertexts
	pt := []byte("C13 plaintext, 33 bytes long.....")
	ct := mustB(sm2.Encrypt(rnd, &keyB.PublicKey, pt, nil))
	add("sm2-ct", "sm2-ct-c1c3c2", ct, false, entry{"key": hx(dB), "order": "c1c3c2"})
	ct = mustB(sm2.Encrypt(rnd, &keyB.PublicKey, pt, sm2.NewPlainEncrypterOpts(sm2.MarshalUncompressed, sm2.C1C2C3)))
	add("sm2-ct", "sm2-ct-c1c2c3", ct, false, entry{"key": hx(dB), "order": "c1c2c3"})
	ct = mustB(sm2.Encrypt(rnd, &keyB.PublicKey, pt, sm2.NewPlainEncrypterOpts(sm2.MarshalCompressed, sm2.C1C3C2)))
	add("sm2-ct", "sm2-ct-compressed", ct, false, entry{"key": hx(dB), "order": "c1c3c2"})
	ct = mustB(sm2.Encrypt(rnd, &keyB.PublicKey, pt, sm2.NewPlainEncrypterOpts(sm2.MarshalHybrid, sm2.C1C3C2)))
	add("sm2-ct", "sm2-ct-hybrid", ct, false, entry{"key": hx(dB), "order": "c1c3c2"})
	ct = mustB(sm2.Encrypt(rnd, &keyB.PublicKey, []byte{0x5a}, nil))
	add("sm2-ct", "sm2-ct-1byte", ct, false, entry{"key": hx(dB), "order": "c1c3c2"})
	ct = mustB(sm2.EncryptASN1(rnd, &keyB.PublicKey, pt))
	add("sm2-ct-asn1", "sm2-ct-asn1", ct, true, entry{"key": hx(dB)})

	// SM2 enveloped private key (GM/T 0010 SM2EnvelopedKey): keyT enveloped for keyB
	env := mustB(sm2.MarshalEnvelopedPrivateKey(rnd, &keyB.PublicKey, keyT))
	add("sm2-envkey", "sm2-envkey", env, true, entry{"key": hx(dB)})

	// SM2 / ecdh key encodings
	add("sm2-pub-raw", "sm2-pub-raw65", pubB65, false, nil)
	add("sm2-pub-raw", "sm2-pub-raw33", elliptic.MarshalCompressed(sm2.P256(), keyB.X, keyB.Y), false, entry{"nomust": true}) // compressed points are refused by both constructors
	add("sm2-priv-raw", "sm2-priv-raw32", dB, false, nil)
	add("ecdh-pub", "ecdh-pub65", ecdhB.PublicKey().Bytes(), false, nil)
	add("ecdh-priv", "ecdh-priv32", ecdhB.Bytes(), false, nil)
	p8 := mustB(smx509.MarshalPKCS8PrivateKey(keyB))
	add("pkcs8", "pkcs8-sm2", p8, true, nil)
	nist, err := ecdsa.GenerateKey(elliptic.P256(), rnd)
	must(err)
	add("pkcs8", "pkcs8-nistp256", mustB(smx509.MarshalPKCS8PrivateKey(nist)), true, nil)
	add("sec1", "sec1-nistp256", mustB(smx509.MarshalECPrivateKey(nist)), true, nil)
	p8dh := mustB(smx509.MarshalPKCS8PrivateKey(ecdhB))
	add("pkcs8", "pkcs8-sm2-ecdh", p8dh, true, nil)
	sec1 := mustB(smx509.MarshalSM2PrivateKey(keyB))
	add("sec1", "sec1-sm2", sec1, true, nil)
	pkix1 := mustB(smx509.MarshalPKIXPublicKey(&keyB.PublicKey))
	add("pkix", "pkix-sm2", pkix1, true, nil)
	pkix2 := mustB(smx509.MarshalPKIXPublicKey(ecdhB.PublicKey()))
	add("pkix", "pkix-sm2-ecdh", pkix2, true, nil)

	// ------------------------------------------------------------------ SM9
	hidS, hidE := byte(1), byte(3)
	smk, err := sm9.UnmarshalSignMasterPrivateKeyASN1(mustB(asn1.Marshal(new(big.Int).SetBytes(scalar(*seed, 4)))))
	must(err)
	emk, err := sm9.UnmarshalEncryptMasterPrivateKeyASN1(mustB(asn1.Marshal(new(big.Int).SetBytes(scalar(*seed, 5)))))
	must(err)
	suk, err := smk.GenerateUserKey(uid, hidS)
	must(err)
	euk, err := emk.GenerateUserKey(uid, hidE)
	must(err)
	smpub := smk.PublicKey()
	empub := emk.PublicKey()
	sm9hash := sm3.Sum(msg)
	s9sig := mustB(sm9.SignASN1(rnd, suk, sm9hash[:]))
	add("sm9-sig", "sm9-sig", s9sig, true, entry{"mpub": hx(smpub.Bytes()), "uid": hx(uid), "hid": int(hidS), "hash": hx(sm9hash[:])})

	eukRaw := mustB(smx509.MarshalPKCS8PrivateKey(euk)) // PKCS#8: carries the master public key
	wk, wc, err := sm9.WrapKey(rnd, empub, uid, hidE, 32)
	must(err)
	_ = wk
	add("sm9-wrapped-raw", "sm9-wrapped-raw", wc, false, entry{"upriv": hx(eukRaw), "uid": hx(uid), "klen": 32})
	_, wca, err := empub.WrapKey(rnd, uid, hidE, 32)
	must(err)
	add("sm9-wrapped-asn1", "sm9-wrapped-asn1", wca, true, entry{"upriv": hx(eukRaw), "uid": hx(uid), "klen": 32})
	kp := mustB(empub.WrapKeyASN1(rnd, uid, hidE, 32))
	add("sm9-keypackage", "sm9-keypackage", kp, true, entry{"upriv": hx(eukRaw), "uid": hx(uid), "klen": 32})
	modes := []struct {
		n string
		o sm9.EncrypterOpts
	}{{"xor", sm9.DefaultEncrypterOpts}, {"ecb", sm9.SM4ECBEncrypterOpts}, {"cbc", sm9.SM4CBCEncrypterOpts}, {"cfb", sm9.SM4CFBEncrypterOpts}, {"ofb", sm9.SM4OFBEncrypterOpts}}
	for _, m := range modes {
		c := mustB(sm9.Encrypt(rnd, empub, uid, hidE, pt, m.o))
		add("sm9-ct-raw", "sm9-ct-raw-"+m.n, c, false, entry{"upriv": hx(eukRaw), "uid": hx(uid), "mode": m.n})
		c = mustB(sm9.EncryptASN1(rnd, empub, uid, hidE, pt, m.o))
		add("sm9-ct-asn1", "sm9-ct-asn1-"+m.n, c, true, entry{"upriv": hx(eukRaw), "uid": hx(uid), "mode": m.n})
	}
	// hostile by construction: a sender needs only the master PUBLIC key to make the MAC (C3) of an arbitrary C2
	// valid - here a C2 that is not a whole number of cipher blocks. Assembled from library calls
	// (WrapKey, sm3, cryptobyte as in sm9.Encrypt); marked crafted, no vacuity expectation.
	for _, m := range []struct {
		n   string
		typ int64
	}{{"ecb", 1}, {"cbc", 2}} {
		k, c1, err := sm9.WrapKey(rnd, empub, uid, hidE, 16+sm3.Size)
		must(err)
		c2 := append([]byte{}, pt[:16+16+1]...)
		h := sm3.New()
		h.Write(c2)
		h.Write(k[16:])
		c3 := h.Sum(nil)
		raw := append(append(append([]byte{}, c1[1:]...), c3...), c2...)
		add("sm9-ct-raw", "sm9-ct-raw-crafted-"+m.n, raw, false, entry{"upriv": hx(eukRaw), "uid": hx(uid), "mode": m.n, "crafted": true, "nomust": true})
		var b cryptobyte.Builder
		b.AddASN1(cbasn1.SEQUENCE, func(b *cryptobyte.Builder) {
			b.AddASN1Int64(m.typ)
			b.AddASN1BitString(c1)
			b.AddASN1OctetString(c3)
			b.AddASN1OctetString(c2)
		})
		add("sm9-ct-asn1", "sm9-ct-asn1-crafted-"+m.n, mustB(b.Bytes()), true, entry{"upriv": hx(eukRaw), "uid": hx(uid), "mode": m.n, "crafted": true, "nomust": true})
	}
	// key exchange: initiator's first message rA, consumed by the responder
	eukB, err := emk.GenerateUserKey([]byte("Bob"), hidE)
	must(err)
	kxA := euk.NewKeyExchange(uid, []byte("Bob"), 16, true)
	rA := mustB(kxA.InitKeyExchange(rnd, hidE))
	add("sm9-kx-ra", "sm9-kx-ra", rA, false, entry{"upriv": hx(mustB(smx509.MarshalPKCS8PrivateKey(eukB))), "mpub": hx(empub.Bytes()), "uid": hx([]byte("Bob")), "peer": hx(uid), "hid": int(hidE)})

	// the six key types
	add("sm9-sign-master-priv", "sm9-smk-asn1", mustB(smk.MarshalASN1()), true, nil)
	add("sm9-sign-master-pub", "sm9-smpub-raw", smpub.Bytes(), false, entry{"enc": "raw"})
	add("sm9-sign-master-pub", "sm9-smpub-asn1", mustB(smpub.MarshalASN1()), true, entry{"enc": "asn1"})
	add("sm9-sign-master-pub", "sm9-smpub-casn1", mustB(smpub.MarshalCompressedASN1()), true, entry{"enc": "asn1"})
	add("sm9-sign-master-pub", "sm9-smpub-pem", pem.EncodeToMemory(&pem.Block{Type: "SM9 SIGN MASTER PUBLIC KEY", Bytes: mustB(smpub.MarshalASN1())}), false, entry{"enc": "pem"})
	add("sm9-sign-priv", "sm9-suk-raw", suk.Bytes(), false, entry{"enc": "raw"})
	add("sm9-sign-priv", "sm9-suk-asn1", mustB(suk.MarshalASN1()), true, entry{"enc": "asn1"})
	add("sm9-sign-priv", "sm9-suk-casn1", mustB(suk.MarshalCompressedASN1()), true, entry{"enc": "asn1"})
	add("sm9-enc-master-priv", "sm9-emk-asn1", mustB(emk.MarshalASN1()), true, nil)
	add("sm9-enc-master-pub", "sm9-empub-raw", empub.Bytes(), false, entry{"enc": "raw"})
	add("sm9-enc-master-pub", "sm9-empub-asn1", mustB(empub.MarshalASN1()), true, entry{"enc": "asn1"})
	add("sm9-enc-master-pub", "sm9-empub-casn1", mustB(empub.MarshalCompressedASN1()), true, entry{"enc": "asn1"})
	add("sm9-enc-master-pub", "sm9-empub-pem", pem.EncodeToMemory(&pem.Block{Type: "SM9 ENC MASTER PUBLIC KEY", Bytes: mustB(empub.MarshalASN1())}), false, entry{"enc": "pem"})
	add("sm9-enc-priv", "sm9-euk-raw", euk.Bytes(), false, entry{"enc": "raw"})
	add("sm9-enc-priv", "sm9-euk-asn1", mustB(euk.MarshalASN1()), true, entry{"enc": "asn1"})
	add("sm9-enc-priv", "sm9-euk-casn1", mustB(euk.MarshalCompressedASN1()), true, entry{"enc": "asn1"})
	// PKCS#8 containers of the four private key types
	add("pkcs8", "pkcs8-sm9-smk", mustB(smx509.MarshalPKCS8PrivateKey(smk)), true, nil)
	add("pkcs8", "pkcs8-sm9-suk", mustB(smx509.MarshalPKCS8PrivateKey(suk)), true, nil)
	add("pkcs8", "pkcs8-sm9-emk", mustB(smx509.MarshalPKCS8PrivateKey(emk)), true, nil)
	add("pkcs8", "pkcs8-sm9-euk", mustB(smx509.MarshalPKCS8PrivateKey(euk)), true, nil)

	// ------------------------------------------------------------------ X.509
	nb := time.Date(2020, 1, 1, 0, 0, 0, 0, time.UTC)
	na := time.Date(2049, 12, 31, 0, 0, 0, 0, time.UTC)
	mk := func(cn string, serial int64, key *sm2.PrivateKey, issuer *pair, ca bool) *pair {
		t := x509.Certificate{
			SerialNumber: big.NewInt(serial),
			Subject:      pkix.Name{CommonName: cn, Organization: []string{"C13 Org"}, Country: []string{"CN"}},
			NotBefore:    nb, NotAfter: na,
			KeyUsage:     x509.KeyUsageKeyEncipherment | x509.KeyUsageDigitalSignature,
			ExtKeyUsage:  []x509.ExtKeyUsage{x509.ExtKeyUsageEmailProtection},
			SubjectKeyId: []byte{byte(serial), 2, 3, 4, 5, 6, 7, 8},
		}
		if ca {
			t.IsCA = true
			t.KeyUsage |= x509.KeyUsageCertSign | x509.KeyUsageCRLSign
			t.BasicConstraintsValid = true
		} else {
			t.DNSNames = []string{"c13.example.org"}
			t.EmailAddresses = []string{"c13@example.org"}
		}
		parent := &t
		var signer crypto.PrivateKey = key
		if issuer != nil {
			parent = (*x509.Certificate)(issuer.cert)
			signer = issuer.key
		}
		der := mustB(smx509.CreateCertificate(rnd, &t, parent, &key.PublicKey, signer))
		c, err := smx509.ParseCertificate(der)
		must(err)
		return &pair{c, key}
	}
	root := mk("C13 Root CA", 1, keyA, nil, true)
	leaf := mk("C13 Recipient", 2, keyB, root, false)
	tmpc := mk("C13 Signer", 3, keyT, root, false)
	add("x509-cert", "x509-root", root.cert.Raw, true, entry{"parent": hx(root.cert.Raw)})
	add("x509-cert", "x509-leaf", leaf.cert.Raw, true, entry{"parent": hx(root.cert.Raw)})
	add("x509-cert-pem", "x509-leaf-pem", pem.EncodeToMemory(&pem.Block{Type: "CERTIFICATE", Bytes: leaf.cert.Raw}), false, entry{"parent": hx(root.cert.Raw)})
	add("x509-certs", "x509-two-certs", append(append([]byte{}, leaf.cert.Raw...), root.cert.Raw...), false, entry{"parent": hx(root.cert.Raw)})

	csrT := &x509.CertificateRequest{Subject: pkix.Name{CommonName: "C13 CSR", Organization: []string{"C13 Org"}}, DNSNames: []string{"c13.example.org"}}
	csr := mustB(smx509.CreateCertificateRequest(rnd, csrT, keyB))
	add("x509-csr", "x509-csr", csr, true, nil)
	add("x509-csr-pem", "x509-csr-pem", pem.EncodeToMemory(&pem.Block{Type: "CERTIFICATE REQUEST", Bytes: csr}), false, nil)

	crlT := &x509.RevocationList{
		Number:     big.NewInt(7),
		ThisUpdate: nb, NextUpdate: na,
		RevokedCertificateEntries: []x509.RevocationListEntry{{SerialNumber: big.NewInt(2), RevocationTime: nb, ReasonCode: 1}, {SerialNumber: big.NewInt(99), RevocationTime: nb}},
	}
	crl := mustB(smx509.CreateRevocationList(rnd, crlT, root.cert, keyA))
	add("x509-crl", "x509-crl", crl, true, entry{"parent": hx(root.cert.Raw)})
	add("x509-crl-pem", "x509-crl-pem", pem.EncodeToMemory(&pem.Block{Type: "X509 CRL", Bytes: crl}), false, entry{"parent": hx(root.cert.Raw)})

	// CFCA CSR (with temporary public key + challenge password) and the CSR response
	ccsr := mustB(cfca.CreateCertificateRequest(rnd, &x509.CertificateRequest{Subject: pkix.Name{CommonName: "C13 CFCA", Organization: []string{"CFCA TEST CA"}}}, keyB, &keyT.PublicKey, "111111"))
	add("cfca-csr", "cfca-csr", ccsr, true, nil)
	// response: sign cert chain for keyT(as "sign" key), escrowed encryption key keyB + its cert
	rsp := mustB(smx509.MarshalCSRResponse([]*smx509.Certificate{tmpc.cert}, keyB, []*smx509.Certificate{leaf.cert}))
	add("csr-response", "csr-response", rsp, true, entry{"key": hx(dT)})
	rsp2 := mustB(smx509.MarshalCSRResponse([]*smx509.Certificate{tmpc.cert}, nil, nil))
	add("csr-response", "csr-response-signonly", rsp2, true, entry{"key": hx(dT)})

	// CFCA escrow private key blob: base64(SEQUENCE{1, OCTET STRING C1C3C2 (without the 04 prefix) of X||Y||D}) under the temporary key
	{
		xyD := append(append([]byte{}, pubB65[1:]...), dB...)
		c := mustB(sm2.Encrypt(rnd, &keyT.PublicKey, xyD, nil))
		inner := mustB(asn1.Marshal(struct {
			Version      int
			EncryptedKey []byte
		}{1, c[1:]}))
		b64 := []byte(base64.StdEncoding.EncodeToString(inner))
		add("cfca-escrow", "cfca-escrow-b64", b64, false, entry{"key": hx(dT)})
		pre := []byte("0000000000000001000000000000000100000000000000000000000000000000" + fmt.Sprintf("%016d", len(b64)))
		add("cfca-escrow", "cfca-escrow-prefixed", append(pre, b64...), false, entry{"key": hx(dT)})
	}

	// ------------------------------------------------------------------ PKCS#8 encrypted, legacy PEM
	encs := []struct {
		n string
		e pkcs.PBESEncrypter
	}{
		{"pbes2-sm4cbc-pbkdf2sm3", pkcs.NewPBESEncrypter(pkcs.SM4CBC, pkcs.NewPBKDF2Opts(pkcs.SM3, 8, 16))},
		{"pbes2-aes128gcm-pbkdf2sha256", pkcs.NewPBESEncrypter(pkcs.AES128GCM, pkcs.NewPBKDF2Opts(pkcs.SHA256, 8, 16))},
		{"pbes2-sm4ecb-scrypt", pkcs.NewPBESEncrypter(pkcs.SM4ECB, pkcs.NewScryptOpts(8, 16, 1, 1))},
		{"pbes2-des3-scrypt", pkcs.NewPBESEncrypter(pkcs.TripleDESCBC, pkcs.NewScryptOpts(8, 16, 1, 1))},
		{"smpbes", pkcs.NewSMPBESEncrypter(8, 16)},
	}
	for _, e := range encs {
		der := mustB(pkcs8.MarshalPrivateKey(keyB, password, e.e))
		add("pkcs8-enc", "pkcs8-enc-"+e.n, der, true, entry{"password": hx(password)})
	}
	if p1, err := pkcs.NewPbeWithSHA1AndDESCBC(rnd, 8, 16); err == nil {
		der := mustB(pkcs8.MarshalPrivateKey(keyB, password, p1))
		add("pkcs8-enc", "pkcs8-enc-pbes1-sha1-des", der, true, entry{"password": hx(password)})
	}
	if p1, err := pkcs.NewPbeWithMD5AndRC2CBC(rnd, 8, 16); err == nil {
		der := mustB(pkcs8.MarshalPrivateKey(keyB, password, p1))
		add("pkcs8-enc", "pkcs8-enc-pbes1-md5-rc2", der, true, entry{"password": hx(password)})
	}
	for _, a := range []struct {
		n string
		c smx509.PEMCipher
	}{{"sm4", smx509.PEMCipherSM4}, {"aes128", smx509.PEMCipherAES128}, {"des", smx509.PEMCipherDES}} {
		blk, err := smx509.EncryptPEMBlock(rnd, "EC PRIVATE KEY", sec1, password, a.c)
		must(err)
		add("pem-legacy-enc", "pem-legacy-enc-"+a.n, pem.EncodeToMemory(blk), false, entry{"password": hx(password)})
	}

	// ------------------------------------------------------------------ PKCS#7
	content := []byte("C13 pkcs7 content")
	signed := func(sm, detach, noattr bool) []byte {
		var sd *pkcs7.SignedData
		var err error
		if sm {
			sd, err = pkcs7.NewSMSignedData(content)
		} else {
			sd, err = pkcs7.NewSignedData(content)
			if err == nil {
				sd.SetDigestAlgorithm(pkcs7.OIDDigestAlgorithmSM3)
			}
		}
		must(err)
		if noattr {
			must(sd.SignWithoutAttr(tmpc.cert, keyT, pkcs7.SignerInfoConfig{}))
		} else {
			must(sd.AddSignerChain(tmpc.cert, keyT, []*smx509.Certificate{root.cert}, pkcs7.SignerInfoConfig{}))
		}
		if detach {
			sd.Detach()
		}
		return mustB(sd.Finish())
	}
	sside := entry{"root": hx(root.cert.Raw), "content": hx(content)}
	add("pkcs7-signed", "pkcs7-signed-attached", signed(false, false, false), true, sside)
	add("pkcs7-signed", "pkcs7-signed-detached", signed(false, true, false), true, sside)
	add("pkcs7-signed", "pkcs7-signed-sm-attached", signed(true, false, false), true, sside)
	add("pkcs7-signed", "pkcs7-signed-sm-noattr", signed(true, false, true), true, sside)
	add("pkcs7-signed", "pkcs7-degenerate", mustB(pkcs7.DegenerateCertificate(leaf.cert.Raw)), true, sside)
	dgst := sm3.Sum(content)
	add("pkcs7-signed", "cfca-sign-attach", mustB(cfca.SignMessageAttach(content, tmpc.cert, keyT)), true, sside)
	add("pkcs7-signed", "cfca-sign-detach", mustB(cfca.SignMessageDetach(content, tmpc.cert, keyT)), true, sside)
	add("pkcs7-signed", "cfca-sign-digest", mustB(cfca.SignDigestDetach(dgst[:], tmpc.cert, keyT)), true, entry{"root": hx(root.cert.Raw), "content": hx(content), "digest": hx(dgst[:])})

	rc := []*smx509.Certificate{leaf.cert}
	eside := entry{"cert": hx(leaf.cert.Raw), "key": hx(dB)}
	add("pkcs7-enveloped", "pkcs7-env-sm4cbc", mustB(pkcs7.Encrypt(pkcs.SM4CBC, content, rc)), true, eside)
	add("pkcs7-enveloped", "pkcs7-env-sm4gcm", mustB(pkcs7.Encrypt(pkcs.SM4GCM, content, rc)), true, eside)
	add("pkcs7-enveloped", "pkcs7-env-sm", mustB(pkcs7.EncryptSM(pkcs.SM4ECB, content, rc)), true, eside)
	add("pkcs7-enveloped", "pkcs7-env-cfca-legacy", mustB(pkcs7.EncryptCFCA(pkcs.SM4CBC, content, rc)), true, eside)
	add("pkcs7-enveloped", "pkcs7-env-cfca-skid", mustB(cfca.EnvelopeMessage(pkcs.SM4CBC, content, rc)), true, eside)
	psk := scalar(*seed, 9)[:16]
	add("pkcs7-encrypted", "pkcs7-enc-sm4cbc", mustB(pkcs7.EncryptUsingPSK(pkcs.SM4CBC, content, psk)), true, entry{"psk": hx(psk)})
	add("pkcs7-encrypted", "pkcs7-enc-sm-sm4gcm", mustB(pkcs7.EncryptSMUsingPSK(pkcs.SM4GCM, content, psk)), true, entry{"psk": hx(psk)})
	add("pkcs7-encrypted", "pkcs7-enc-des3", mustB(pkcs7.EncryptUsingPSK(pkcs.TripleDESCBC, content, scalar(*seed, 9)[:24])), true, entry{"psk": hx(scalar(*seed, 9)[:24])})
	for _, sm := range []bool{false, true} {
		var saed *pkcs7.SignedAndEnvelopedData
		var err error
		n := "pkcs7-signed-enveloped"
		if sm {
			saed, err = pkcs7.NewSMSignedAndEnvelopedData(dT, pkcs.SM4CBC)
			n += "-sm"
		} else {
			saed, err = pkcs7.NewSignedAndEnvelopedData(dT, pkcs.SM4GCM)
			if err == nil {
				saed.SetDigestAlgorithm(pkcs7.OIDDigestAlgorithmSM3)
			}
		}
		must(err)
		must(saed.AddSigner(root.cert, keyA))
		must(saed.AddRecipient(leaf.cert))
		add("pkcs7-signed-enveloped", n, mustB(saed.Finish()), true, eside)
	}
	// BER / foreign fixtures from the repository's own test files
	for _, fx := range []struct{ file, typ, name string }{
		{"pkcs7/ber_test.go", "pkcs7-signed", "pkcs7-ber-fixture"},
		{"pkcs7/sign_enveloped_test.go", "pkcs7-signed-enveloped", "pkcs7-gmcert-fixture"},
	} {
		raw, err := os.ReadFile(filepath.Join(*repo, fx.file))
		if err != nil {
			fmt.Fprintf(os.Stderr, "corpus: fixture file %s not readable: %v\n", fx.file, err)
			continue
		}
		rest := raw
		if i := bytes.Index(raw, []byte("-----BEGIN PKCS7-----")); i >= 0 {
			rest = raw[i:]
		}
		for {
			var blk *pem.Block
			blk, rest = pem.Decode(rest)
			if blk == nil {
				fmt.Fprintf(os.Stderr, "corpus: no PKCS7 PEM block in %s\n", fx.file)
				break
			}
			if blk.Type == "PKCS7" {
				side := entry{"fixture": true, "root": hx(root.cert.Raw), "content": hx(content), "cert": hx(leaf.cert.Raw), "key": hx(dB)}
				add(fx.typ, fx.name, blk.Bytes, false, side)
				break
			}
		}
	}

	// ------------------------------------------------------------------ CFCA SM2 key blob, SM4-CBC password encryption
	blob := mustB(cfca.MarshalSM2(password, keyB, leaf.cert))
	add("cfca-sm2", "cfca-sm2", blob, true, entry{"password": hx(password)})
	add("cfca-sm4cbc", "cfca-sm4cbc", mustB(cfca.EncryptBySM4CBC(pt, password)), false, entry{"password": hx(password)})

	// ------------------------------------------------------------------ pkcs.Cipher payloads and parameters
	for _, c := range []struct {
		n string
		c pkcs.Cipher
	}{{"sm4cbc", pkcs.SM4CBC}, {"sm4ecb", pkcs.SM4ECB}, {"sm4gcm", pkcs.SM4GCM}, {"aes256gcm", pkcs.AES256GCM}} {
		k := append(scalar(*seed, 9), scalar(*seed, 10)...)[:c.c.KeySize()]
		alg, cct, err := c.c.Encrypt(rnd, k, pt)
		must(err)
		algDer := mustB(asn1.Marshal(*alg))
		add("pkcs-cipher-ct", "pkcs-ct-"+c.n, cct, false, entry{"alg": hx(algDer), "key": hx(k)})
		add("pkcs-cipher-alg", "pkcs-alg-"+c.n, algDer, true, entry{"ct": hx(cct), "key": hx(k)})
	}

	// ------------------------------------------------------------------ padded plaintexts
	for _, p := range []struct {
		n string
		p padding.Padding
	}{{"pkcs7", padding.NewPKCS7Padding(16)}, {"x923", padding.NewANSIX923Padding(16)}, {"m2", padding.NewISO9797M2Padding(16)}, {"m3", padding.NewISO9797M3Padding(16)}} {
		add("padded", "padded-"+p.n+"-21", p.p.Pad(append([]byte{}, pt[:21]...)), false, entry{"scheme": p.n, "bs": 16})
		add("padded", "padded-"+p.n+"-16", p.p.Pad(append([]byte{}, pt[:16]...)), false, entry{"scheme": p.n, "bs": 16})
	}

	// ------------------------------------------------------------------ AEAD sealed messages
	{
		k := scalar(*seed, 11)[:16]
		blk, err := sm4.NewCipher(k)
		must(err)
		nonce := scalar(*seed, 12)[:12]
		aad := []byte("c13 aad")
		g, err := cipher.NewGCM(blk)
		must(err)
		add("aead", "aead-sm4gcm", g.Seal(nil, nonce, pt, aad), false, entry{"alg": "gcm", "key": hx(k), "nonce": hx(nonce), "aad": hx(aad)})
		c, err := gcipher.NewCCM(blk)
		must(err)
		add("aead", "aead-sm4ccm", c.Seal(nil, nonce, pt, aad), false, entry{"alg": "ccm", "key": hx(k), "nonce": hx(nonce), "aad": hx(aad)})
	}
	_ = ecdh.P256
	must(out.Flush())
	must(f.Close())
	fmt.Fprintf(os.Stderr, "corpus: %d artefacts\n", count)
}
