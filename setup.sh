#!/bin/sh
# Offline setup: compile the TLC operator overrides and pre-build the Go harness.
set -e
cd "$(dirname "$0")"
./tlc/build.sh
