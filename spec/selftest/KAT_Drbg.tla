------------------------------ MODULE KAT_Drbg ------------------------------
(* The generic DRBG operators of algo/Drbg.tla instantiated with SHA-256       *)
(* (prim/SHA256.tla) and AES (prim/AES.tla) against NIST CAVP DRBG vectors      *)
(* (drbgvectors_pr_false: Hash_DRBG [SHA-256], HMAC_DRBG [SHA-256], CTR_DRBG     *)
(* [AES-128/192/256 use df], COUNT = 0 of the respective sections; taken from    *)
(* the repository's drbg/*_test.go, which replay these CAVP files including the  *)
(* intermediate V / C / Key values).  Test procedure of the CAVP files:          *)
(* Instantiate, Reseed, Generate (output discarded), Generate (ReturnedBits).    *)
(* No SM3/SM4 DRBG vectors are published: the same operators run with SM3/SM4    *)
(* in obj/DrbgObj.tla.  Also: FIPS 180-4 / FIPS 197 examples for the two         *)
(* primitives, and the AES S-box table against its algebraic definition.         *)
EXTENDS Integers, Sequences, TLC, Bitwise
D  == INSTANCE Drbg
S2 == INSTANCE SHA256
A  == INSTANCE AES
HM == INSTANCE HMAC
H  == INSTANCE Hex
X(s) == H!ToBytes(s)
Hx(b) == H!FromBytes(b)

(* ---- primitives ---- *)
ASSUME Hx(S2!Hash(<<97, 98, 99>>)) = "ba7816bf8f01cfea414140de5dae2223b00361a396177a9cb410ff61f20015ad"
ASSUME Hx(S2!Hash(<<>>)) = "e3b0c44298fc1c149afbf4c8996fb92427ae41e4649b934ca495991b7852b855"
ASSUME Hx(S2!Hash(X("6162636462636465636465666465666765666768666768696768696a68696a6b696a6b6c6a6b6c6d6b6c6d6e6c6d6e6f6d6e6f706e6f7071")))
         = "248d6a61d20638b8e5c026930c3e6039a33ce45964ff2167f6ecedd419db06c1"
PT == X("00112233445566778899aabbccddeeff")
ASSUME Hx(A!Enc(X("000102030405060708090a0b0c0d0e0f"), PT)) = "69c4e0d86a7b0430d8cdb78070b4c55a"
ASSUME Hx(A!Enc(X("000102030405060708090a0b0c0d0e0f1011121314151617"), PT)) = "dda97ca4864cdfe06eaf70a0ec0d7191"
ASSUME Hx(A!Enc(X("000102030405060708090a0b0c0d0e0f101112131415161718191a1b1c1d1e1f"), PT)) = "8ea2b7ca516745bfeafc49904b496089"
RECURSIVE GMul(_, _)
GMul(a, b) == IF b = 0 THEN 0 ELSE (IF b % 2 = 1 THEN a ELSE 0) ^^ GMul(A!XTime(a), b \div 2)
GInv(a) == IF a = 0 THEN 0 ELSE CHOOSE b \in 1..255 : GMul(a, b) = 1
Rotl8(x, n) == ((x * (2 ^ n)) % 256) + (x \div (2 ^ (8 - n)))
Aff(b) == ((((b ^^ Rotl8(b, 1)) ^^ Rotl8(b, 2)) ^^ Rotl8(b, 3)) ^^ Rotl8(b, 4)) ^^ 99
ASSUME \A x \in 0..255 : A!S(x) = Aff(GInv(x))

(* ---- bindings ---- *)
Sha(m) == S2!Hash(m)
Id(k) == k
ShaMac(k, m) == HM!Mac(Sha, 64, k, m)
AesKS(k) == A!RoundKeys(k)
AesEnc(rk, b) == A!EncRK(rk, b)

(* ---- Hash_DRBG SHA-256 (outlen 32, seedlen 55) ---- *)
HashRun(e, n, p, er, ar, a1, a2, len) ==
  LET s0 == D!HashInstantiate(Sha, 32, 55, X(e), X(n), X(p))
      s1 == D!HashReseed(Sha, 32, 55, FALSE, s0, X(er), X(ar))
      g1 == D!HashGenerate(Sha, 32, 55, FALSE, s1, len, X(a1))
      g2 == D!HashGenerate(Sha, 32, 55, FALSE, g1[2], len, X(a2))
  IN <<Hx(s0.V), Hx(s0.C), Hx(s1.V), Hx(s1.C), Hx(g1[2].V), Hx(g2[1]), Hx(g2[2].V), g2[2].reseed_counter>>
ASSUME HashRun("63363377e41e86468deb0ab4a8ed683f6a134e47e014c700454e81e95358a569", "808aa38f2a72a62359915a9f8a04ca68", "",
               "e62b8a8ee8f141b6980566e3bfe3c04903dad4ac2cdf9f2280010a6739bc83d3", "", "", "", 128)
       = <<"32ab605ddc8d5651093b8a59bd9d3adea1249e21a69e2e4a3967515fa03ad41ccf5b126eb9f3b268080c952df88241fe4cc27bbcbbbed5",
           "8ea2691d1915ebb4975593ca3fbad0ba137026d901a95950a207c41dc7773e15c1e85f4a5f91002866830bebe5c4ee1785b839323fbb44",
           "59177d93843f0550f33933a51eb488168699ab9c85651536a61f7ec71e8b274a151f17e56becaf531dcfc955f2f1adb6536d51b256d53c",
           "897c02699f4254e1f33c94f7bfa85da3826df6c2590ed0815cbced36d77aa3375a1582ffc1c887416afd1ba0f04b6ddff81a2b0e5b844d",
           "e2937ffd23815a32e675c89cde5ce5ba0907a25ede73e61c9ec76d67da582c94001fda32b60ec40202a164c6a4d66411cc6b99b1284617",
           "04eec63bb231df2c630a1afbe724949d005a587851e1aa795e477347c8b056621c18bddcdd8d99fc5fc2b92053d8cfacfb0bb8831205fad1ddd6c071318a6018f03b73f5ede4d4d071f9de03fd7aea105d9299b8af99aa075bdb4db9aa28c18d174b56ee2a014d098896ff2282c955a81969e069fa8ce007a180183a07dfae17",
           "6c0f8266c2c3af14d9b25d949e05435d8b7599213782b6eac6cd90a10d48e1c96088f5dba20241b68cb64bb05028c35e5558ef8a6edca6", 3>>
ASSUME HashRun("9cfb7ad03be487a3b42be06e9ae44f283c2b1458cec801da2ae6532fcb56cc4c", "a20765538e8db31295747ec922c13a69", "",
               "96bc8014f90ebdf690db0e171b59cc46c75e2e9b8e1dc699c65c03ceb2f4d7dc", "6fea0894052dab3c44d503950c7c72bd7b87de87cb81d3bb51c32a62f742286d",
               "d3467c78563b74c13db7af36c2a964820f2a9b1b167474906508fdac9b2049a6", "5840a11cc9ebf77b963854726a826370ffdb2fc2b3d8479e1df5dcfa3dddd10b", 128)
       = <<"8037eb9f243343f8af8c756475ea998f47a487c64dfad9945391004b08cf1a9102d4669492f554b543d820f18a90f453ad53acaf39f0c9",
           "ed540b209e044dc2591923883c9a3b1b7c265bc053c40aa91971b09be4d3b3034b05f197a09c6339c7c16de14a20e29ea17bf11cbdb248",
           "cf9d4dd8a2c4fb507addbe849643acef2bcf6a4403082a026d50371bc7f2ea9d3975790238af78b750ef0334b7e42e0b1e71aeb97c6029",
           "e16ed4378e0342deff3003334eae72709c31f5b4004ab9870ee73a6ab4c7eb6f18027c717bf8c94ccc1e06ce5a3afaacb431e2f860f7ed",
           "b10c221030c83e2f7a0dc1b7e4f21f5fc8015ff80352e416298fcc88847c8d0ca970964fbaa83f411e07fb6d6ac42b95a2c1abce0fc285",
           "71c1154a2a7a3552413970bf698aa02f14f8ea95e861f801f463be27868b1b14b1b4babd9eba5915a6414ab1104c8979b1918f3094925aeab0d07d2037e613b63cbd4f79d9f95c84b47ed9b77230a57515c211f48f4af6f5edb2c308b33905db308cf88f552c8912c49b34e66c026e67b302ca65b187928a1aba9a49edbfe190",
           "927af647becb810e793dc4eb33a091d0643355ac039d9e1e4d60a2ac023dca791d46f5e560b237047371aa1d629988772af7b96c0d0a07", 3>>

(* ---- HMAC_DRBG SHA-256 ---- *)
HmacRun(e, n, p, er, ar, a1, a2, len) ==
  LET s0 == D!HmacInstantiate(Id, ShaMac, 32, X(e), X(n), X(p))
      s1 == D!HmacReseed(Id, ShaMac, s0, X(er), X(ar))
      g1 == D!HmacGenerate(Id, ShaMac, 32, s1, len, X(a1))
      g2 == D!HmacGenerate(Id, ShaMac, 32, g1[2], len, X(a2))
  IN <<Hx(s0.V), Hx(s0.Key), Hx(s1.V), Hx(s1.Key), Hx(g1[2].V), Hx(g1[2].Key), Hx(g2[1]), Hx(g2[2].V), Hx(g2[2].Key)>>
ASSUME HmacRun("06032cd5eed33f39265f49ecb142c511da9aff2af71203bffaf34a9ca5bd9c0d", "0e66f71edc43e42a45ad3c6fc6cdc4df", "",
               "01920a4e669ed3a85ae8a33b35a74ad7fb2a6bb4cf395ce00334a9c9a5a5d552", "", "", "", 128)
       = <<"81e0d8830ed2d16f9b288a1cb289c5fab3f3c5c28131be7cafedcc7734604d34", "17dc11c2389f5eeb9d0f6a5148a1ea83ee8a828f4f140ac78272a0da435fa121",
           "c246fa97570ba2b9d9e5b453fe4632366f146fbd8491146563eb463c9eafe50c", "ca43e73325de43c41d7e0a7a3163fb04061b09fcee4c7b8884e969e3bdfdff9a",
           "df67d0816d6a8f3b73ba7638ea113bef0e33a1da451272ef1472211fb31c1cd6", "8be4c7f9f249d5af2c6345a8f07af14be1d7adc2b9892286ffe37760d8aa5a1b",
           "76fc79fe9b50beccc991a11b5635783a83536add03c157fb30645e611c2898bb2b1bc215000209208cd506cb28da2a51bdb03826aaf2bd2335d576d519160842e7158ad0949d1a9ec3e66ea1b1a064b005de914eac2e9d4f2d72a8616a80225422918250ff66a41bd2f864a6a38cc5b6499dc43f7f2bd09e1e0f8f5885935124",
           "80524881711e89a61e6fe7169581e50fb9ad642f3dff48fba5773352fa04cec3", "5ed31bc06cc4f3a97f7f34929b0558b0c34de1f4bd1cef456a8364140e2d9f41">>
ASSUME HmacRun("05ac9fc4c62a02e3f90840da5616218c6de5743d66b8e0fbf833759c5928b53d", "2b89a17904922ed8f017a63044848545", "",
               "2791126b8b52ee1fd9392a0a13e0083bed4186dc649b739607ac70ec8dcecf9b", "43bac13bae715092cf7eb280a2e10a962faf7233c41412f69bc74a35a584e54c",
               "3f2fed4b68d506ecefa21f3f5bb907beb0f17dbc30f6ffbba5e5861408c53a1e", "529030df50f410985fde068df82b935ec23d839cb4b269414c0ede6cffea5b68", 128)
       = <<"eaa29892ee1e46198ea68c07588ac12641fc901e484eda321c2f26a9ff328e3d", "8d3006bd33b7d8b935a8484b786850f107b731a7efc51521848b875c2214d154",
           "25d3b766cd9f8ad5c45efd7fa01cc08dbce8d0d3792ec2b59bfead7bce39ed01", "3138df070c49f48b080004df669f386676b4cb92b40de4d021b2a9e4451e5013",
           "06624fa590e1d63397b13a0e69081274434f793fdfc1e6298a7373834024da46", "cac850b111de755bb8a5ed1ebc052ed53ab1ff1b9d0fab2946a3728c7e9f43e4",
           "02ddff5173da2fcffa10215b030d660d61179e61ecc22609b1151a75f1cbcbb4363c3a89299b4b63aca5e581e73c860491010aa35de3337cc6c09ebec8c91a6287586f3a74d9694b462d2720ea2e11bbd02af33adefb4a16e6b370fa0effd57d607547bdcfbb7831f54de7073ad2a7da987a0016a82fa958779a168674b56524",
           "92971e96fc46608d4343821491990915cdb957ae983ab6cdab84fd094bce1380", "b15ae269570790a8c6a81c5be7aef33f645abb161d218761ff8739cb7997eed8">>

(* ---- CTR_DRBG AES, with derivation function ---- *)
CtrRun(kl, e, n, p, er, ar, a1, a2, len) ==
  LET s0 == D!CtrInstantiate(AesKS, AesEnc, kl, 16, X(e), X(n), X(p))
      s1 == D!CtrReseed(AesKS, AesEnc, kl, 16, s0, X(er), X(ar))
      g1 == D!CtrGenerate(AesKS, AesEnc, kl, 16, s1, len, X(a1))
      g2 == D!CtrGenerate(AesKS, AesEnc, kl, 16, g1[2], len, X(a2))
  IN <<Hx(s0.V), Hx(s0.Key), Hx(s1.V), Hx(s1.Key), Hx(g1[2].V), Hx(g1[2].Key), Hx(g2[1]), Hx(g2[2].V), Hx(g2[2].Key)>>
ASSUME CtrRun(16, "0f65da13dca407999d4773c2b4a11d85", "5209e5b4ed82a234", "", "1dea0a12c52bf64339dd291c80d8ca89", "", "", "", 64)
       = <<"80941680713df715056fb2a3d2e998b2", "0c42ea6804303954deb197a07e6dbdd2", "f2bacbb233252fba35fb0582f9286179", "32fbfd0109f364ed21ef21a6e5c763e7",
           "99003d630bba500fe17c37f8c7331bf6", "757c8eb766f9aaa4650d6500b58624a3",
           "2859cc468a76b08661ffd23b28547ffd0997ad526a0f51261b99ed3a37bd407bf418dbe6c6c3e26ed0ddefcb7474d899bd99f3655427519fc5b4057bcaf306d4",
           "5907ab447a88e5106753507cc97e0fd5", "e421ff2445e04992faf36cf9a5eaf1f9">>
ASSUME CtrRun(16, "285da6cf762552634636bfee3400b156", "8f8bada74820cb43", "", "b4699b33354a83bfed115f770f32db0b", "38bfec9a10e6e40c106841dae48dc3b8",
              "629ead5bacfac8235711ffeb22f57558", "dd8a02ee668ca3e03949b38cb6e6b4df", 64)
       = <<"ad2af7e4c84337cfc3116d59f02c54a8", "c92780982442d348cc7363dfc96a999d", "923f37427a8e10bf945249a5b790769a", "57004c8a776f5c702e83ff56acc32dcc",
           "7ade619ed91092987d8a1d244605f85f", "3b5f92f511c10fef2f640de2cd8c9049",
           "e555aa4432bde04dcf0f0b03ead187b31df06653d444234b5c1bfc11b224285f2fb2b6cdd5a9ae6f13d99bd02c3c9fe9c3c1be46a600f5f757ab4574af893501",
           "f5dac2375e820f797c6f1258147d8ea7", "6bc01c1518fe9f9dfbbb08d97c34db1e">>
ASSUME CtrRun(24, "3a09c9cc5e01f152ea2ed3021d49b4d6386aa6f04521ebde", "490bd4ee628cf9615035543e70fce4e2", "",
              "df06e5668d41a6fa7660aef477eff7a0ffc0542c1cd406d5", "59b8c26626aab69e462752722f19450d12e2c0e959882d4d06ef4177e396855d",
              "28e57a9128e479985cce391e98127fd126f37ad0f317fd5f97b8c18e762f360b", "d488672b52e867816178369f542190685bbe8672720c1943d8a4378cc9b9dd0c", 64)
       = <<"59a45ccbc3864f79b896c30d4a231d46", "a4283dc9450ac97bf22c387082e3816728243473cedaa2af", "5857d49a1552923931926dca1682fbc2", "9c4d7784fe341619e21f2535d404866df3b75e9a7940d471",
           "bb8ed7bcbe1203be861b8e6570fe116b", "6a8fddde995255f89ea3c9454cc481045ff0e16ce5a34693",
           "5c233e2850e4981bab0f6513a76ca2c9f9f97b89b7fedd3d9aaffecf305d89fd5306cf24715895ad9ba7dac8c389fd87f95b4973003150871fa281e962f270cb",
           "1cf82a0638c421bb43401943498d0f88", "5dec9ad1f5f3d0e7bb59ae581097a3f616e443e4f5bd804a">>
ASSUME CtrRun(32, "6f60f0f9d486bc23e1223b934e61c0c78ae9232fa2e9a87c6dacd447c3f10e9e", "401e3f87762fa8a14ab232ccb8480a2f", "",
              "350be52552a65a804a106543ebb7dd046cffae104e4e8b2f18936d564d3c1950", "7a3688adb1cfb6c03264e2762ece96bfe4daf9558fabf74d7fff203c08b4dd9f",
              "67cf4a56d081c53670f257c25557014cd5e8b0e919aa58f23d6861b10b00ea80", "648d4a229198b43f33dd7dd8426650be11c5656adcdf913bb3ee5eb49a2a3892", 64)
       = <<"ee534dcfd9d2be3a3f9c65a6c5f599b0", "6d9aa2e029466438d3e4c22530bd071dbe57b549b87370957b28da8ae083f8d6", "433725f6c4b8c662c3b2db4b75f38d86", "b5953178a900b2fcf052b5cbc1d882ea944da2965e84fef59c4919bb4d5c892d",
           "2c342b2ab12bd3484e4660b8dd5f85eb", "b2b9e9f1ffcfd84c050445f93dfad90d6ca240494bbed5d44a0deb38fbaeb751",
           "2d819fb9fee38bfc3f15a07ef0e183ff36db5d3184cea1d24e796ba103687415abe6d9f2c59a11931439a3d14f45fc3f4345f331a0675a3477eaf7cd89107e37",
           "a9729f842063b9464e74018c0ab30df3", "770600434fe0af64e045f5530e2b9732da9e3b4c3af342994a4f1f7ee5c4144e">>
ASSUME PrintT("KAT_Drbg ok")
VARIABLE x
Init == x = 0
Next == UNCHANGED x
=============================================================================
