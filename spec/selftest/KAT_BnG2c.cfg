SPECIFICATION Spec
