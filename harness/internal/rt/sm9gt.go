package rt

import (
	"math/big"
	"strconv"
	"sync"

	vh "github.com/emmansun/gmsm/verifhook"
)

// sm9gt family (C09, exact GT): registers over G1, G2, GT; every step carries the exact encoding (exp) of its
// result as the specification computed it (affine coordinates for G1/G2, the twelve F_p coefficients of the
// R-ate pairing value / of the F_p^12 arithmetic for GT). The adapter calls the library, encodes and compares
// bytes; where the library offers several routes to the same result (fixed-base table, windowed power, big.Int
// power, Miller + Finalize, receivers aliasing operands, operands entered through the decoder) every route must
// give the same bytes.

type gtreg struct {
	grp string
	g1  *vh.G1
	g2  *vh.G2
	gt  *vh.GT
}

// bytes encodes a COPY of the element (Marshal normalises the point it is called on).
func (r *gtreg) bytes() []byte {
	switch r.grp {
	case "g1":
		return new(vh.G1).Set(r.g1).Marshal()
	case "g2":
		return new(vh.G2).Set(r.g2).Marshal()
	}
	return new(vh.GT).Set(r.gt).Marshal()
}

// decoded returns the element as the decoder produces it from the element's own encoding, the unread rest, and the error.
func (r *gtreg) decoded(used bool) (*gtreg, []byte, error) {
	d := &gtreg{grp: r.grp}
	var rest []byte
	var err error
	switch r.grp {
	case "g1":
		d.g1 = new(vh.G1)
		if used {
			d.g1.Set(vh.Gen1)
		}
		rest, err = d.g1.Unmarshal(r.bytes())
	case "g2":
		d.g2 = new(vh.G2)
		if used {
			d.g2.Set(vh.Gen2)
		}
		rest, err = d.g2.Unmarshal(r.bytes())
	default:
		d.gt = new(vh.GT)
		if used {
			d.gt.Set(gtGen())
		}
		rest, err = d.gt.Unmarshal(r.bytes())
	}
	return d, rest, err
}

func gtGen() *vh.GT { return vh.Pair(vh.Gen1, vh.Gen2) }

var gtFixedOnce sync.Once
var gtFixed *[32 * 2]vh.GTFieldTable

// gtFixedTable: the fixed-base table of e(P1, P2), built once per process by the library's own generator.
func gtFixedTable() *[32 * 2]vh.GTFieldTable {
	gtFixedOnce.Do(func() { gtFixed = vh.GenerateGTFieldTable(gtGen()) })
	return gtFixed
}

type gtroute struct {
	how string
	b   []byte
	err error
}

// gtapply performs the step on the registers of one bank through the primary route.
func gtapply(op, grp string, st Step, regs map[int]*gtreg) (*gtreg, error) {
	r := &gtreg{grp: grp}
	var err error
	switch op {
	case "base":
		switch grp {
		case "g1":
			r.g1, err = new(vh.G1).ScalarBaseMult(st.Hex("k"))
		case "g2":
			r.g2, err = new(vh.G2).ScalarBaseMult(st.Hex("k"))
		case "gt":
			r.gt, err = vh.ScalarBaseMultGT(gtFixedTable(), st.Hex("k"))
		}
	case "pair":
		r.gt = vh.Pair(regs[st.Int("a")].g1, regs[st.Int("b")].g2)
	case "one":
		r.gt = new(vh.GT).SetOne()
	case "mul":
		r.gt = new(vh.GT).Add(regs[st.Int("a")].gt, regs[st.Int("b")].gt)
	case "exp":
		r.gt, err = vh.ScalarMultGT(regs[st.Int("src")].gt, st.Hex("k"))
	default:
		panic("harness: sm9gt: unknown op " + op)
	}
	return r, err
}

// gtroutes: the other ways the library offers to the same result (copies of the registers are used, the
// registers themselves stay intact).
func gtroutes(op, grp string, st Step, regs map[int]*gtreg) []gtroute {
	var out []gtroute
	add := func(how string, b []byte, err error) { out = append(out, gtroute{how, b, err}) }
	switch op {
	case "base":
		k := st.Hex("k")
		switch grp {
		case "g1":
			x := new(vh.G1).Set(vh.Gen1)
			_, err := x.ScalarBaseMult(k)
			add("used receiver", x.Marshal(), err)
			y, err := new(vh.G1).ScalarMult(vh.Gen1, k)
			if err == nil {
				add("ScalarMult(Gen1, k)", y.Marshal(), nil)
			} else {
				add("ScalarMult(Gen1, k)", nil, err)
			}
		case "g2":
			x := new(vh.G2).Set(vh.Gen2)
			_, err := x.ScalarBaseMult(k)
			add("used receiver", x.Marshal(), err)
			y, err := new(vh.G2).ScalarMult(vh.Gen2, k)
			if err == nil {
				add("ScalarMult(Gen2, k)", y.Marshal(), nil)
			} else {
				add("ScalarMult(Gen2, k)", nil, err)
			}
		case "gt":
			add("GT.ScalarBaseMult(big)", new(vh.GT).ScalarBaseMult(new(big.Int).SetBytes(k)).Marshal(), nil)
			x := gtGen()
			add("used receiver: x.ScalarBaseMult(big)", x.ScalarBaseMult(new(big.Int).SetBytes(k)).Marshal(), nil)
			y, err := vh.ScalarMultGT(gtGen(), k)
			if err == nil {
				add("ScalarMultGT(Pair(Gen1, Gen2), k)", y.Marshal(), nil)
			} else {
				add("ScalarMultGT(Pair(Gen1, Gen2), k)", nil, err)
			}
		}
	case "pair":
		a, b := regs[st.Int("a")], regs[st.Int("b")]
		// gt.go: "Miller(g1, g2).Finalize() is equivalent to Pair(g1, g2)". Only for finite points: Pair special-cases the point
		// at infinity (e(O, Q) = e(P, O) = 1) and Miller does not (observed: Miller(P, [0]P2).Finalize() is the ZERO of F_p^12);
		// Miller has no caller in the library, so nothing C09 states depends on it.
		if !gtAllZero(a.bytes()) && !gtAllZero(b.bytes()) {
			add("Miller(a, b).Finalize()", vh.Miller(new(vh.G1).Set(a.g1), new(vh.G2).Set(b.g2)).Finalize().Marshal(), nil)
		}
		add("Pair on copies, again", vh.Pair(new(vh.G1).Set(a.g1), new(vh.G2).Set(b.g2)).Marshal(), nil)
	case "one":
		add("used receiver: x.SetOne()", gtGen().SetOne().Marshal(), nil)
	case "mul":
		a, b := regs[st.Int("a")], regs[st.Int("b")]
		x := new(vh.GT).Set(a.gt)
		x.Add(x, b.gt)
		add("x.Add(x, b)", x.Marshal(), nil)
		y := new(vh.GT).Set(b.gt)
		y.Add(a.gt, y)
		add("y.Add(a, y)", y.Marshal(), nil)
		if st.Int("a") == st.Int("b") {
			z := new(vh.GT).Set(a.gt)
			z.Add(z, z)
			add("z.Add(z, z)", z.Marshal(), nil)
		}
		add("b * a", new(vh.GT).Add(b.gt, a.gt).Marshal(), nil)
	case "exp":
		s, k := regs[st.Int("src")], st.Hex("k")
		add("GT.ScalarMult(src, big)", new(vh.GT).ScalarMult(s.gt, new(big.Int).SetBytes(k)).Marshal(), nil)
		x := new(vh.GT).Set(s.gt)
		x.ScalarMult(x, new(big.Int).SetBytes(k))
		add("x.ScalarMult(x, big)", x.Marshal(), nil)
		// the way internal/sm9 raises its cached e(P1, Ppub-s) / e(Ppub-e, P2) to a nonce: a table of the base, then the fixed-base power
		y, err := vh.ScalarBaseMultGT(vh.GenerateGTFieldTable(new(vh.GT).Set(s.gt)), k)
		if err == nil {
			add("ScalarBaseMultGT(GenerateGTFieldTable(src), k)", y.Marshal(), nil)
		} else {
			add("ScalarBaseMultGT(GenerateGTFieldTable(src), k)", nil, err)
		}
	}
	return out
}

func init() {
	Register("sm9gt", func(t *Trace, env *Env) *Mismatch {
		regs := map[int]*gtreg{}    // the elements as the library computed them
		regsDec := map[int]*gtreg{} // the same elements entered through the decoder, or computed from such operands
		for i, st := range t.Steps {
			At(i)
			op := st.Str("op")
			if op == "dec" {
				if mm := gtdec(i, st); mm != nil {
					return mm
				}
				continue
			}
			grp := st.Str("grp")
			exp := st.Hex("exp")
			r, err := gtapply(op, grp, st, regs)
			if err != nil {
				return &Mismatch{Step: i, Kind: "errmismatch", Got: "error: " + err.Error(), Exp: "ok"}
			}
			got := r.bytes()
			if mm := Diff(i, got, exp); mm != nil {
				mm.Note = "exact encoding of the result of " + op + " (" + grp + ")"
				return mm
			}
			for _, al := range gtroutes(op, grp, st, regs) {
				if al.err != nil {
					return &Mismatch{Step: i, Kind: "errmismatch", Got: "error: " + al.err.Error(), Exp: "ok", Note: al.how}
				}
				if mm := Diff(i, al.b, exp); mm != nil {
					mm.Note = "another route to the same result: " + al.how
					return mm
				}
			}
			// Marshal -> Unmarshal -> Marshal, into a fresh and into a used receiver
			var dec *gtreg
			for _, used := range []bool{false, true} {
				d, rest, err := r.decoded(used)
				if err != nil {
					return &Mismatch{Step: i, Kind: "errmismatch", Got: "error: " + err.Error(), Exp: "ok", Note: "the encoding of a result does not decode"}
				}
				if len(rest) != 0 {
					return &Mismatch{Step: i, Kind: "mismatch", Got: "rest of " + strconv.Itoa(len(rest)) + " bytes", Exp: "empty rest", Note: "decoding exactly one encoding"}
				}
				if mm := Diff(i, d.bytes(), exp); mm != nil {
					mm.Note = "decode(encode(x)) encodes differently (used receiver: " + boolStr(used) + ")"
					return mm
				}
				dec = d
			}
			// the same operation on operands in the decoder's representation
			viaDec := dec
			if op != "base" && op != "one" {
				v, err := gtapply(op, grp, st, regsDec)
				if err != nil {
					return &Mismatch{Step: i, Kind: "errmismatch", Got: "error: " + err.Error(), Exp: "ok", Note: "operands in decoded representation"}
				}
				if mm := Diff(i, v.bytes(), exp); mm != nil {
					mm.Note = "the same operation on operands in the decoder's representation (or computed from such)"
					return mm
				}
				viaDec = v
			}
			// the operands are unchanged by all of the above
			for _, f := range []string{"a", "b", "src"} {
				if st.Has(f) {
					o := regs[st.Int(f)]
					if mm := Diff(i, o.bytes(), t.Steps[st.Int(f)-1].Hex("exp")); mm != nil {
						mm.Note = "operand register " + f + " changed by the operation"
						return mm
					}
				}
			}
			regs[st.Int("dst")] = r
			regsDec[st.Int("dst")] = viaDec
		}
		return nil
	})
}

func gtAllZero(b []byte) bool {
	for _, x := range b {
		if x != 0 {
			return false
		}
	}
	return true
}

func gtdec(i int, st Step) *Mismatch {
	verdict := st.Str("verdict")
	for _, used := range []bool{false, true} {
		data := st.Hex("data")
		e := new(vh.GT)
		if used {
			e.Set(gtGen())
		}
		rest, err := e.Unmarshal(data)
		switch verdict {
		case "accept":
			if mm := DiffErr(i, err, false); mm != nil {
				return mm
			}
		case "reject":
			if mm := DiffErr(i, err, true); mm != nil {
				return mm
			}
		case "either":
		default:
			panic("harness: sm9gt: unknown verdict " + verdict)
		}
		if err == nil {
			if mm := Diff(i, e.Marshal(), st.Hex("reenc")); mm != nil {
				mm.Note = "re-encoding of the decoded element (used receiver: " + boolStr(used) + ")"
				return mm
			}
			if len(rest) != st.Int("rest") {
				return &Mismatch{Step: i, Kind: "mismatch", Got: "rest of " + strconv.Itoa(len(rest)) + " bytes", Exp: "rest of " + strconv.Itoa(st.Int("rest")) + " bytes"}
			}
		}
	}
	return nil
}
