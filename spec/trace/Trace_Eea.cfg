CONSTANT TraceFile = "/tmp/vs/rec.ndjson"
SPECIFICATION TraceSpec
POSTCONDITION TraceAccepted
CHECK_DEADLOCK FALSE
