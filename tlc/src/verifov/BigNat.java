package verifov;

import java.math.BigInteger;

import tlc2.overrides.TLAPlusOperator;
import tlc2.value.impl.IntValue;
import tlc2.value.impl.TupleValue;
import tlc2.value.impl.Value;

/**
 * Java evaluation of the operators of spec/lib/BigNat.tla. A big natural is a
 * big-endian sequence of bytes (0..255); results are minimal (no leading zero
 * bytes, zero is the empty sequence) unless a width is asked for. Every
 * operator keeps a pure TLA+ definition in BigNat.tla; selftest/BigNatAgree
 * compares the two.
 */
public final class BigNat {
  private BigNat() {}

  static BigInteger toBig(final Value v) {
    final TupleValue t = (TupleValue) v.toTuple();
    if (t == null) {
      throw new IllegalArgumentException("BigNat: not a sequence: " + v);
    }
    final int n = t.elems.length;
    final byte[] b = new byte[n + 1];
    for (int i = 0; i < n; i++) {
      final int x = ((IntValue) t.elems[i]).val;
      if (x < 0 || x > 255) {
        throw new IllegalArgumentException("BigNat: not a byte: " + x);
      }
      b[i + 1] = (byte) x;
    }
    return new BigInteger(b);
  }

  static Value fromBig(final BigInteger x) {
    if (x.signum() < 0) {
      throw new IllegalArgumentException("BigNat: negative result");
    }
    byte[] b = x.toByteArray();
    int off = 0;
    while (off < b.length && b[off] == 0) {
      off++;
    }
    final Value[] e = new Value[b.length - off];
    for (int i = off; i < b.length; i++) {
      e[i - off] = IntValue.gen(b[i] & 0xff);
    }
    return new TupleValue(e);
  }

  @TLAPlusOperator(identifier = "Add", module = "BigNat", warn = false)
  public static Value add(final Value a, final Value b) {
    return fromBig(toBig(a).add(toBig(b)));
  }

  @TLAPlusOperator(identifier = "Sub", module = "BigNat", warn = false)
  public static Value sub(final Value a, final Value b) {
    return fromBig(toBig(a).subtract(toBig(b)));
  }

  @TLAPlusOperator(identifier = "Mul", module = "BigNat", warn = false)
  public static Value mul(final Value a, final Value b) {
    return fromBig(toBig(a).multiply(toBig(b)));
  }

  @TLAPlusOperator(identifier = "Div", module = "BigNat", warn = false)
  public static Value div(final Value a, final Value b) {
    return fromBig(toBig(a).divide(toBig(b)));
  }

  @TLAPlusOperator(identifier = "Mod", module = "BigNat", warn = false)
  public static Value mod(final Value a, final Value b) {
    return fromBig(toBig(a).mod(toBig(b)));
  }

  @TLAPlusOperator(identifier = "Cmp", module = "BigNat", warn = false)
  public static Value cmp(final Value a, final Value b) {
    return IntValue.gen(toBig(a).compareTo(toBig(b)));
  }

  @TLAPlusOperator(identifier = "AddMod", module = "BigNat", warn = false)
  public static Value addMod(final Value a, final Value b, final Value m) {
    return fromBig(toBig(a).add(toBig(b)).mod(toBig(m)));
  }

  @TLAPlusOperator(identifier = "SubMod", module = "BigNat", warn = false)
  public static Value subMod(final Value a, final Value b, final Value m) {
    return fromBig(toBig(a).subtract(toBig(b)).mod(toBig(m)));
  }

  @TLAPlusOperator(identifier = "MulMod", module = "BigNat", warn = false)
  public static Value mulMod(final Value a, final Value b, final Value m) {
    return fromBig(toBig(a).multiply(toBig(b)).mod(toBig(m)));
  }

  @TLAPlusOperator(identifier = "ExpMod", module = "BigNat", warn = false)
  public static Value expMod(final Value a, final Value e, final Value m) {
    return fromBig(toBig(a).modPow(toBig(e), toBig(m)));
  }

  /** Inverse of a modulo a prime m (0 when a = 0 mod m, as a^(m-2) gives). */
  @TLAPlusOperator(identifier = "InvMod", module = "BigNat", warn = false)
  public static Value invMod(final Value a, final Value m) {
    final BigInteger mm = toBig(m);
    final BigInteger aa = toBig(a).mod(mm);
    if (aa.signum() == 0) {
      return fromBig(BigInteger.ZERO);
    }
    return fromBig(aa.modInverse(mm));
  }

  @TLAPlusOperator(identifier = "BitLen", module = "BigNat", warn = false)
  public static Value bitLen(final Value a) {
    return IntValue.gen(toBig(a).bitLength());
  }

  @TLAPlusOperator(identifier = "Bit", module = "BigNat", warn = false)
  public static Value bit(final Value a, final Value i) {
    return IntValue.gen(toBig(a).testBit(((IntValue) i).val) ? 1 : 0);
  }

  @TLAPlusOperator(identifier = "ShiftR", module = "BigNat", warn = false)
  public static Value shiftR(final Value a, final Value i) {
    return fromBig(toBig(a).shiftRight(((IntValue) i).val));
  }
}
