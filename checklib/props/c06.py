"""C06 SM2 signatures: Sm2KeyObj instances (MC_C06: key routes x sign entries x uid/message lengths x crafted
digests/streams x call histories x candidate mutations x verify entries) replayed under K_EC; recorded
sign/verify histories validated by Trace_Sm2Dsa; Der selftest; implementation-shaped lazy-init model (documentation)."""
import json
import os
from .. import core, cfgs

S = core.tla_set


def q(xs):
    return S('"%s"' % x for x in xs)


E_ALL = ["signasn1_gm", "sign_gm", "sign_default", "signwithsm2", "sign_nil", "signasn1_nil", "sign_nogm", "legacy_sign", "legacy_signwithsm2"]
E_DIG = ["sign_nil", "signasn1_nil", "sign_nogm", "legacy_sign"]
R_ALL = ["new", "newint", "struct", "fromec", "sec1"]
CRAFTS = ["none", "kbig", "kzero", "r0", "rk", "s0", "r1", "rnm1", "rshort", "s1", "snm1", "sshort"]
BAD = ["nm1", "n", "np5", "max", "big33"]
M_STRUCT = ["none", "len", "tag", "int", "enc", "ctx", "forge", "adv"]


def shard(name, workers=3, **kw):
    c = dict(Keys=q(["r1"]), Routes=q(["new"]), Entries=q(["signasn1_gm"]), UidLens=S([0]), MsgLens=S([1]), Crafts=q(["none"]), Skews=S([0]),
             MaxSigns=1, MutSel=q(["none"]), FlipMasks=S([1, 128]), NForge=4)
    for k, v in kw.items():
        c[k] = v
    return name, workers, c


def plan(tier):
    if tier == "quick":
        return [
            shard("flips", 4, Keys=q(["r1", "nm2", "short"]), MutSel=q(["flip"])),
            shard("flipcraft", 4, Keys=q(["r2"]), Entries=q(["sign_nil"]), Crafts=q(["r1", "rshort", "s1", "sshort", "rnm1", "snm1"]), MutSel=q(["flip"])),
            shard("craftint", 4, Keys=q(["r1"]), Entries=q(["sign_nil", "legacy_sign"]), Crafts=q(["r1", "rshort", "s1", "sshort", "rnm1", "snm1"]), MutSel=q(["int", "enc", "adv"])),
            shard("struct_a", 4, Keys=q(["k1", "nm2", "short", "r3"]), Entries=q(["sign_gm"]), UidLens=S([16]), MsgLens=S([64]), MutSel=q(M_STRUCT)),
            shard("struct_b", 4, Keys=q(["k2", "r1", "r2", "r4"]), Entries=q(["signwithsm2"]), UidLens=S([0]), MsgLens=S([33]), MutSel=q(M_STRUCT)),
            shard("combos_a", 4, Keys=q(["k1", "r3", "k2"]), Entries=q(["signasn1_gm", "legacy_signwithsm2"]), UidLens=S([0, 1, 16]), MsgLens=S([0, 1, 64, 1024])),
            shard("combos_b", 4, Keys=q(["nm2", "r1", "short"]), Entries=q(["sign_gm", "sign_nil"]), UidLens=S([0, 1, 16]), MsgLens=S([0, 1, 64, 1024])),
            shard("ctx", 4, Keys=q(["r1"]), Entries=q(["signasn1_gm"]), UidLens=S([0, 16]), MsgLens=S([1, 64, 1024]), MutSel=q(["ctx"])),
            shard("entries", 4, Keys=q(["r1"]), Routes=q(R_ALL), Entries=q(E_ALL), UidLens=S([0, 16]), MsgLens=S([32]), Skews=S([0, 1])),
            shard("hist", 4, Keys=q(["r2", "nm2"]), Routes=q(["struct", "sec1"]), Entries=q(["sign_gm", "sign_nil", "legacy_sign"]), MsgLens=S([16]), Skews=S([1]), MaxSigns=3),
            shard("crafts", 4, Keys=q(["r1", "nm2"]), Entries=q(E_DIG), Crafts=q(CRAFTS), Skews=S([0, 1]), MsgLens=S([8])),
            shard("bad", 3, Keys=q(BAD), Routes=q(["struct", "fromec", "sec1"]), MaxSigns=3,
                  Entries=q(["signasn1_gm", "sign_nil", "signwithsm2", "legacy_sign", "sign_default", "legacy_signwithsm2"])),
            shard("uid8191", 1, Keys=q(["r4"]), Entries=q(["signwithsm2"]), UidLens=S([8191])),
        ]
    keys = ["k1", "k2", "nm2", "r1", "r2", "r3", "r4", "short"]
    out = []
    for i in range(4):
        ks = keys[i::4]
        out.append(shard("flips_%d" % i, 4, Keys=q(ks), UidLens=S([0, 16]), MsgLens=S([1, 64]), MutSel=q(["flip"]), FlipMasks=S([1, 4, 32, 128])))
        out.append(shard("struct_%d" % i, 4, Keys=q(ks), Entries=q(["sign_gm", "legacy_signwithsm2"]), UidLens=S([0, 16]), MsgLens=S([0, 64]), MutSel=q(M_STRUCT), NForge=8))
        out.append(shard("combos_%d" % i, 4, Keys=q(ks), Entries=q(["signasn1_gm", "sign_nil"]), UidLens=S([0, 1, 16, 64]), MsgLens=S([0, 1, 64, 1024]),
                         MutSel=q(["none", "ctx"])))
    out += [
        shard("flipcraft", 4, Keys=q(["r2", "k1", "nm2"]), Entries=q(["sign_nil", "legacy_sign"]), Crafts=q(["r1", "rshort", "s1", "sshort", "rnm1", "snm1"]), MutSel=q(["flip"])),
        shard("entries", 4, Keys=q(["r1", "nm2", "k1"]), Routes=q(R_ALL), Entries=q(E_ALL), UidLens=S([0, 16]), MsgLens=S([32]), Skews=S([0, 1])),
        shard("hist_a", 4, Keys=q(["r2", "nm2", "k1"]), Routes=q(["struct", "sec1"]), Entries=q(["sign_gm", "sign_nil", "legacy_sign", "signwithsm2"]), MsgLens=S([16]), Skews=S([1]), MaxSigns=3),
        shard("hist_b", 4, Keys=q(["r3"]), Entries=q(E_ALL), MsgLens=S([5]), Skews=S([0, 1]), MaxSigns=2),
        shard("crafts", 4, Keys=q(["r1", "k2", "nm2", "short"]), Entries=q(E_DIG), Crafts=q(CRAFTS), Skews=S([0, 1]), MsgLens=S([8]), MutSel=q(["none", "enc"])),
        shard("craftint", 4, Keys=q(["r1", "k1", "nm2"]), Entries=q(["sign_nil", "legacy_sign"]), Crafts=q(["r1", "rshort", "s1", "sshort", "rnm1", "snm1"]), MutSel=q(["int", "enc", "len", "tag"])),
        shard("bad", 3, Keys=q(BAD), Routes=q(["struct", "fromec", "sec1"]), Entries=q(E_ALL), MaxSigns=3),
        shard("uid8191", 2, Keys=q(["r4"]), Entries=q(["signwithsm2"]), UidLens=S([8191]), MsgLens=S([1]), MutSel=q(["none", "ctx"])),
    ]
    return out


def relational_fallback(ctx):
    """A signature that differs from the one predicted from the scripted random stream is not a violation
    by itself (C06 asks for a VALID signature): such replies are handed to Trace_Sm2Dsa, which decides."""
    soft = [f for f in ctx.fails if f.get("kind") == "sigdiff"]
    if not soft:
        return
    ctx.fails = [f for f in ctx.fails if f.get("kind") != "sigdiff"]
    evf = os.path.join(ctx.scratch, "unpredicted.ndjson")
    seen = set()
    with open(evf, "w") as fh:
        for f in soft:
            steps = f["trace"]["steps"]
            st = steps[f["step"]]
            key = json.dumps([steps[0], st, f["got"]], sort_keys=True)
            if key in seen or len(seen) >= 400:
                continue
            t = len(seen)
            seen.add(key)
            new = steps[0]
            fh.write(json.dumps({"t": t, "op": "new", "route": new["route"], "d": new["d"], "qx": new["qx"], "qy": new["qy"]}) + "\n")
            ev = {"t": t, "op": "sign", "entry": st["entry"], "uid": st["uid"], "msg": st["msg"], "dig": st["dig"], "err": False, "panic": False,
                  "ints": False, "out": "", "r": "", "s": "", "cfg": f.get("cfg")}
            if f["got"].startswith("r="):
                r, s = f["got"].split(",")
                ev.update(ints=True, r=r[2:], s=s[2:])
            else:
                ev["out"] = f["got"]
            fh.write(json.dumps(ev) + "\n")
    ctx.notes.append("%d signatures differed from the nonce-exact prediction and were judged relationally by Trace_Sm2Dsa" % len(seen))
    ctx.extra["unpredicted_signatures"] = len(seen)
    ctx.validate("Trace_Sm2Dsa", evf, "sm2dsa", shards=8, guard=False, label="unpredicted")


def run(ctx):
    out = os.path.join(ctx.scratch, "c06.ndjson")
    jobs, outs = [], []
    for name, workers, consts in plan(ctx.tier):
        o = "%s.%s" % (out, name)
        outs.append(o)
        jobs.append(dict(module="MC_C06", name="MC_C06_" + name, view="View", workers=workers, timeout=3000, heap="3g",
                         constants=dict(consts, Seed=ctx.seed, OutFile=core.tla_str(o)),
                         invariants=("TypeOK", "HistBadKeyAlwaysErr"),
                         properties=("Complete", "OnlyHonestAccepted", "BadKeyAlwaysErr", "GoodKeyNeverErr", "IntsAgree")))
    # small instance on which every Verify reply is recomputed as Accept for every applicable entry point
    # and the block-wise digest the candidates carry is compared with algo/SM2Scheme's Digest in every state
    _, _, rc = shard("refine", 3, Keys=q(["r1"]), Entries=q(["sign_gm", "sign_nil"]), UidLens=S([17]), MsgLens=S([70]), MutSel=q(["none", "enc", "ctx"]))
    jobs.append(dict(module="MC_C06", name="MC_C06_refine", view="View", workers=3, timeout=1200, heap="2g",
                     constants=dict(rc, Seed=ctx.seed, OutFile=core.tla_str(os.path.join(ctx.scratch, "c06refine.ndjson"))),
                     invariants=("TypeOK", "DigestRefines"), properties=("Sound", "Complete", "OnlyHonestAccepted")))
    jobs.append(dict(module="KAT_Der", name="KAT_Der", constants={}, init_next=("Init", "Next"), workers=1, timeout=600, heap="1g"))
    jobs.append(dict(module="KAT_Sm2KeyObj", name="KAT_Sm2KeyObj", constants={}, init_next=("Init", "Next"), workers=1, timeout=900, heap="1g"))
    # documentation: the lazy-init bookkeeping of sm2_dsa.go as a model; with the proposed patch the invariants hold
    jobs.append(dict(module="Sm2KeyImpl", name="Sm2KeyImpl_fixed", constants=dict(Fixed="TRUE"), invariants=("NoPanic", "BadKeyAlwaysErr", "RefinesObj"),
                     workers=1, timeout=300, heap="1g"))
    jobs.append(dict(module="Sm2KeyImpl", name="Sm2KeyImpl_pinned", constants=dict(Fixed="FALSE"), invariants=("NoPanic", "BadKeyAlwaysErr", "RefinesObj"),
                     workers=1, timeout=300, heap="1g", allow_fail=True))
    # heavy shards first; the JVMs share the machine
    # behaviour beyond the listed property: public-key recovery (MC_C06rec); replayed as an OBSERVATION, never a verdict of C06
    rec_out = os.path.join(ctx.scratch, "c06rec.ndjson")
    jobs.insert(0, dict(module="MC_C06rec", name="MC_C06rec", workers=3, timeout=1200, heap="2g", invariants=("TypeOK",),
                        constants=dict(Seed=ctx.seed, Keys=S([1, 2, 3] if ctx.tier == "quick" else range(1, 9)), Nonces=S([1, 2, 3, 4] if ctx.tier == "quick" else range(1, 9)),
                                       OutFile=core.tla_str(rec_out))))
    res = ctx.tlc_many(jobs, parallel=6)
    pinned = res[-1]
    ctx.tlc_runs.remove(pinned)
    if not pinned["ok"] and "Invariant NoPanic is violated" not in pinned["out_tail"]:
        raise core.Infra("Sm2KeyImpl did not run to a verdict:\n" + pinned["out_tail"][-1500:])
    ctx.extra["impl_shaped_model"] = ("Sm2KeyImpl (documentation only, never a verdict): with the bookkeeping of the pinned sm2_dsa.go TLC %s; "
                                      "with the proposed nil check all invariants hold"
                                      % ("reaches reply = panic after two Sign steps on d = n-1" if not pinned["ok"] else "finds no bad state (the code shape no longer has the second-call nil state)"))
    core.cat_files(outs, out)

    # vacuity: the scenario classes the plan promises are all present
    seen = {"retry": 0, "acc": 0, "rej": 0, "bad3": 0, "skew1": 0}
    ventries, sentries = set(), set()
    lastverify = os.path.join(ctx.scratch, "c06.verify.ndjson")
    lastsign = os.path.join(ctx.scratch, "c06.sign.ndjson")
    with open(lastverify, "w") as fv, open(lastsign, "w") as fs:
        for line in core._lines(out):
            t = json.loads(line)
            st = t["steps"][-1]
            if st["op"] == "verify":
                seen["acc" if st["exp"] == "01" else "rej"] += 1
                ventries.update(st["entries"])
                if seen["acc"] + seen["rej"] <= 3:
                    fv.write(line)
            elif st["op"] == "sign":
                sentries.add(st["entry"])
                seen["retry"] += st["tries"] >= 2
                seen["skew1"] += st["skew"] == 1
                seen["bad3"] += st["err"] and len(t["steps"]) == 4
                if not st["err"] and seen.get("s", 0) < 3:
                    seen["s"] = seen.get("s", 0) + 1
                    fs.write(line)
    if min(seen.values()) == 0 or ventries != {"asn1", "x509digest", "asn1sm2", "x509", "legacy", "legacysm2"} or sentries != set(E_ALL):
        raise core.Infra("C06 plan is vacuous somewhere: %s verify entries %s sign entries %s" % (seen, sorted(ventries), sorted(sentries)))

    # recovery: what the library does on the recoverable-key cases is recorded in the evidence (counts only)
    saved = (ctx.fails, ctx.replayed, ctx.steps, dict(ctx.per_cfg))
    ctx.fails = []
    obs = ctx.replay(rec_out, cfgs.K_EC[0]) if os.path.exists(rec_out) else []
    ctx.fails, ctx.replayed, ctx.steps, ctx.per_cfg = saved
    ctx.extra["recover_observation"] = {"cases": core.count_lines(rec_out) if os.path.exists(rec_out) else 0, "deviations": len(obs),
                                        "first": (core._shorten(obs[0]) if obs else None),
                                        "note": "sm2.RecoverPublicKeysFromSM2Signature against the recoverable-key set of GB/T 32918.2 (MC_C06rec); outside the wording of C06, never a verdict"}
    ctx.replay_all(out, cfgs.K_EC)
    ctx.binding_guard(out, cfgs.K_EC[0])
    ctx.binding_guard(lastverify, cfgs.K_EC[0])
    ctx.binding_guard(lastsign, cfgs.K_EC[0])
    relational_fallback(ctx)

    # code -> spec: recorded histories (the library draws its own nonces), validated relationally by TLC
    nrec = 50 if ctx.tier == "quick" else 500
    for i, c in enumerate((cfgs.K_EC[0], cfgs.K_EC[3])):
        ev = ctx.record("sm2dsa", nrec, seed=ctx.seed + 7919 * i, tags=c["tags"], env=c["env"], name="sm2dsa-" + c["label"])
        if ev is None:
            continue
        # a shard stops at its first rejected history: histories in which the library panicked (the trace
        # specification has no such event, TLC rejects them) are validated apart so that they do not hide the others
        panicked = set(json.loads(l)["t"] for l in core._lines(ev) if json.loads(l).get("panic"))
        parts = {"": ev + ".clean", "-panicked": ev + ".panicked"}
        with open(parts[""], "w") as fc, open(parts["-panicked"], "w") as fp:
            for l in core._lines(ev):
                (fp if json.loads(l)["t"] in panicked else fc).write(l)
        ctx.validate("Trace_Sm2Dsa", parts[""], "sm2dsa", shards=6 if ctx.tier == "quick" else 8, label=c["label"], guard=(i == 0), timeout=2400)
        if panicked:
            ctx.validate("Trace_Sm2Dsa", parts["-panicked"], "sm2dsa", shards=min(4, len(panicked)), label=c["label"] + "-panicked", guard=False, timeout=2400)

    # what the failures are, by class (evidence only)
    classes = {}
    for f in ctx.fails:
        steps = (f.get("trace") or {}).get("steps") or [{}]
        first = steps[0]
        st = steps[f["step"]] if isinstance(f.get("step"), int) and 0 <= f["step"] < len(steps) else {}
        k = "%s|%s|key=%s route=%s|at %s #%s|%s" % (f.get("fam"), f.get("kind"), first.get("key", first.get("d", ""))[-8:], first.get("route"),
                                                  st.get("op"), f.get("step"), str(f.get("got"))[:60])
        classes[k] = classes.get(k, 0) + 1
    if classes:
        ctx.extra["failure_classes"] = dict(sorted(classes.items(), key=lambda kv: -kv[1])[:40])

    ctx.sample_traces(lastverify)
    ctx.sample_traces(lastsign)

    def key(t):
        n = t["steps"][0]
        k = [n["key"], n["route"]]
        for s in t["steps"][1:]:
            if s["op"] == "sign":
                k.append(("sign", s["entry"], len(s["uid"]) // 2, len(s["msg"]) // 2, s["craft"], s["skew"], s["tries"], s["err"]))
            else:
                k.append(("verify", tuple(s["kind"]), s["exp"], len(s["sig"]) // 2))
        return tuple(k)
    ctx.count_distinct(out, key)
    ctx.assumptions += [
        "Sign is predicted byte-exactly from a scripted random stream because the pinned library draws the nonce by plain rejection sampling on 32-byte blocks of the caller's reader (sm2_dsa.go randomPoint) after randutil.MaybeReadByte; the scripted reader answers one-byte reads without moving, so both MaybeReadByte outcomes the model explores are replayable; a signature that differs from the prediction is not reported but judged relationally (strict DER + verification equation in TLA+)",
        "an empty uid means the default uid 1234567812345678, as the API documents for Sign/Verify entry points",
        "digest entry points are given 32-byte digests; verification under invalid (off-curve, infinity) public keys is not explored",
        "key objects with d >= n-1 exist through direct struct construction, PrivateKey.FromECPrivateKey and smx509.ParseSM2PrivateKey (d = n-1 only); if the library refuses to construct such an object the history is vacuous",
        "keys, messages, uids, nonces, forged pairs are pseudo-random or structured edge values (1, 2, n-2, 24-byte d; r, s in {1, 30-byte, n-1}); byte positions, masks, DER header values, integer replacements, re-encodings, entry points, routes and call orders are enumerated",
        "random forgeries and bit flips are rejected by the specification with overwhelming probability: they test agreement on rejection, not unforgeability",
    ]
    return ctx.finish(rule="one case per TLC transition of MC_C06 that has a reply: New (public key), Sign (entry point, uid/message length, crafted digest or stream, skew, position in the object's history) and Verify of one candidate (mutation kind x position/value) through all applicable verification entry points; each replayed in 4 EC dispatch configurations; distinct = distinct (key, route, sign-shape history, candidate kind) tuples; recorded histories add code->spec events",
                      exhaustive=False)
