----------------------------- MODULE Sm2KeyImpl -----------------------------
(* DOCUMENTATION ONLY - never a verdict about the code.                          *)
(* The bookkeeping of /repo/sm2/sm2_dsa.go inverseOfPrivateKeyPlus1 + signSM2EC   *)
(* transcribed as the code has it: a sync.Once, the cached pointer               *)
(* priv.inverseOfKeyPlus1, and an err variable that is LOCAL to each call and is   *)
(* only assigned inside the Once body.  Scalars are abstracted to three classes:   *)
(*   "valid"  1 <= d <= n-2       "nm1"  d = n-1       "big"  d >= n               *)
(* With Fixed = FALSE (the pinned tree) TLC reaches, in two Sign steps on "nm1",   *)
(* the state onceDone /\ cachePtr = "nil" in which the call sees err = nil,         *)
(* returns the nil pointer and signSM2EC dereferences it (k.Mul(nil, N)): reply     *)
(* "panic", so NoPanic and BadKeyAlwaysErr fail and the refinement of Sm2KeyObj     *)
(* (cache = Unset / Ok / Failed, reply Err whenever Failed) breaks.  For "big" the   *)
(* same nil pointer is returned but SetBytes(priv.D) fails before it is used.       *)
(* With Fixed = TRUE (proposed patch: return errInvalidPrivateKey when the cached    *)
(* pointer is nil after the Once) all three hold.                                   *)
EXTENDS Integers
CONSTANT Fixed
VARIABLES class, onceDone, cachePtr, reply, ncalls
ivars == <<class, onceDone, cachePtr, reply, ncalls>>

Init == class \in {"valid", "nm1", "big"} /\ onceDone = FALSE /\ cachePtr = "nil" /\ reply = "none" /\ ncalls = 0

(* one call of priv.Sign / SignASN1 on this object *)
Sign ==
  LET runs == ~onceDone                                       \* the Once body executes in this call
      errLocal == runs /\ class # "valid"                     \* SetBytes(D) fails for "big"; IsZero(d+1) for "nm1"
      ptr == IF runs /\ ~errLocal THEN "val" ELSE cachePtr    \* the body stores the inverse only on success
      ret == IF errLocal THEN "err"                           \* if err != nil { return nil, errInvalidPrivateKey }
             ELSE IF Fixed /\ ptr = "nil" THEN "err"          \* proposed: if priv.inverseOfKeyPlus1 == nil { return nil, err... }
             ELSE ptr                                         \* return priv.inverseOfKeyPlus1, nil
  IN /\ ncalls < 3 /\ ncalls' = ncalls + 1
     /\ onceDone' = TRUE /\ cachePtr' = ptr /\ UNCHANGED class
     /\ reply' = IF ret = "err" THEN "err"
                 ELSE IF ret = "val" THEN "sig"
                 ELSE IF class = "big" THEN "err"             \* nil inverse, but s.SetBytes(priv.D.Bytes(), N) fails first
                 ELSE "panic"                                 \* k.Mul(nil, N): nil dereference (sm2_dsa.go:411)
(* the package-level sm2.Sign(rand, *ecdsa.PrivateKey, hash) copies the key into a fresh object: always first use *)
LegacySign ==
  /\ ncalls < 3 /\ ncalls' = ncalls + 1
  /\ reply' = IF class = "valid" THEN "sig" ELSE "err"
  /\ UNCHANGED <<class, onceDone, cachePtr>>
Next == Sign \/ LegacySign
Spec == Init /\ [][Next]_ivars

NoPanic == reply # "panic"
BadKeyAlwaysErr == class # "valid" => reply \in {"none", "err"}
(* refinement mapping to Sm2KeyObj's cache and reply *)
AbsCache == IF ~onceDone THEN "Unset" ELSE IF cachePtr = "val" THEN "Ok" ELSE "Failed"
RefinesObj == (AbsCache = "Failed" /\ reply # "none" /\ class # "valid") => reply = "err"
=============================================================================
