------------------------------- MODULE MC_C17 -------------------------------
(* C17: bounded instances of DrbgObj with emission (family "drbg").            *)
(* One mechanism and mode per instance (constants Mech, Gm).  The operation    *)
(* alphabets are sets of *shapes*:                                             *)
(*   InstOps   entropy len * 10^6 + nonce len * 10^3 + personalisation len     *)
(*   GenOps    requested bytes * 10^3 + additional-input len                   *)
(*   ReseedOps entropy len * 10^3 + additional-input len                       *)
(*   TickOps   milliseconds                                                    *)
(* (integer codes because a TLC configuration file cannot hold tuples);       *)
(* byte contents come from Prng (keyed by Seed and the step number).          *)
(* Exploration modes, chosen by constants:                                     *)
(*   - Window >= MaxOps: every op sequence up to MaxOps (the VIEW contains the  *)
(*     whole op history);                                                      *)
(*   - Window = k small, MaxOps large: transition cover - one representative   *)
(*     history per (reseed_counter, gate, last k ops); every transition TLC    *)
(*     evaluates is emitted, i.e. every op in every such context;              *)
(*   - ScriptName # "": exactly the op sequence Scripts[ScriptName] (time       *)
(*     scenarios, regressions).                                                *)
(*   - Reach = TRUE prunes histories that can no longer observe a refusal      *)
(*     within MaxOps (boundary-directed exhaustive exploration).              *)
(* st (V, C, Key) is outside the VIEW except for reseed_counter.               *)
EXTENDS DrbgObj, TLC, Json
CONSTANTS Seed, OutFile, Mech, Gm, Algs, InstOps, GenOps, ReseedOps, TickOps, ScriptName,
          MaxOps, Window, LeavesOnly, Reach
R  == INSTANCE Prng
Hx == INSTANCE Hex
Em == INSTANCE Emit
VARIABLES nops, win, hist
vars == <<inst, mech, gm, alg, st, lastReseed, now, reply, nops, win, hist>>
(* exact instances name one primitive; envelope-only instances list all the primitives the trace is replayed on *)
Alg == CHOOSE a \in Algs : TRUE

Data(k, n) == R!Bytes(Seed, 1000 + 10 * nops + k, n)
LastK(s) == IF Len(s) <= Window THEN s ELSE SubSeq(s, Len(s) - Window + 1, Len(s))

Init == /\ DInit /\ nops = 0 /\ win = <<>>
        /\ hist = <<[op |-> "cfg", mech |-> Mech, gm |-> Gm, algs |-> Algs, exact |-> Exact, interval |-> Interval]>>
Step(desc, ev) ==
  /\ nops < MaxOps /\ nops' = nops + 1
  /\ win' = LastK(Append(win, desc))
  /\ hist' = Append(hist, ev)
  /\ IF LeavesOnly /\ nops' < MaxOps THEN TRUE
     ELSE Em!Line(OutFile, ToJson([fam |-> "drbg", steps |-> hist']))

(* decoded shapes *)
I3(c) == <<c \div 1000000, (c \div 1000) % 1000, c % 1000>>
P2(c) == <<c \div 1000, c % 1000>>
NInst(i) ==
  LET e == Data(1, i[1])
      n == Data(2, i[2])
      p == Data(3, i[3])
  IN /\ Instantiate(Mech, Gm, Alg, e, n, p)
     /\ Step(<<"inst", i[1], i[2], i[3]>>,
             [op |-> "inst", e |-> Hx!FromBytes(e), n |-> Hx!FromBytes(n), p |-> Hx!FromBytes(p),
              res |-> reply'.kind, max |-> AdvertisedMax(Mech, Gm)])
NGen(g) ==
  LET a == Data(4, g[2])
  IN /\ Generate(g[1], a)
     /\ Step(<<"gen", g[1], g[2]>>,
             [op |-> "gen", n |-> g[1], addl |-> Hx!FromBytes(a), need |-> NeedReseed,
              res |-> reply'.kind, exp |-> Hx!FromBytes(reply'.out)])
NReseed(r) ==
  LET e == Data(5, r[1])
      a == Data(6, r[2])
  IN /\ Reseed(e, a)
     /\ Step(<<"reseed", r[1], r[2]>>,
             [op |-> "reseed", e |-> Hx!FromBytes(e), addl |-> Hx!FromBytes(a), res |-> reply'.kind])
NTick(dt) == /\ inst /\ Tick(dt) /\ Step(<<"tick", dt>>, [op |-> "tick", ms |-> dt])

Do(d) == CASE d[1] = "inst"   -> NInst(<<d[2], d[3], d[4]>>)
           [] d[1] = "gen"    -> NGen(<<d[2], d[3]>>)
           [] d[1] = "reseed" -> NReseed(<<d[2], d[3]>>)
           [] d[1] = "tick"   -> NTick(d[2])

(* GM/T 0105 time rule (test level: 6 s): the generator refuses once the time has elapsed, a reseed   *)
(* re-opens it; in NIST mode time is no criterion.  Regression scripts can be added here.           *)
Scripts == [ tick |-> << <<"inst", 32, 16, 0>>, <<"gen", 16, 0>>, <<"tick", TimeLimit + 500>>, <<"gen", 16, 0>>,
                         <<"gen", 0, 3>>, <<"reseed", 32, 0>>, <<"gen", 16, 0>>, <<"gen", 16, 4>> >>,
             \* request sizes across the NIST-mode per-request maximum, each followed by further requests
             sizes |-> << <<"inst", 32, 16, 0>>, <<"gen", 2048, 0>>, <<"gen", 2049, 7>>, <<"gen", 1, 0>>, <<"gen", 2047, 7>>,
                          <<"reseed", 32, 0>>, <<"gen", 2048, 7>>, <<"gen", 2049, 0>>, <<"gen", 0, 0>>, <<"gen", 33, 0>> >>,
             sizes2 |-> << <<"inst", 32, 16, 0>>, <<"gen", 2048, 0>>, <<"gen", 2049, 7>>, <<"gen", 33, 0>> >>,
             \* a long history with exact bytes: early reseed, run into the gate, refusals, reseed at the gate,
             \* reseed in mid-interval, gate again, reseed, go on (request sizes fit every mode)
             long |-> << <<"inst", 32, 16, 0>>, <<"gen", 16, 0>>, <<"gen", 15, 5>>, <<"reseed", 32, 0>>,
                         <<"gen", 16, 0>>, <<"gen", 16, 0>>, <<"gen", 16, 0>>, <<"gen", 15, 5>>, <<"gen", 15, 5>>, <<"gen", 0, 0>>,
                         <<"gen", 16, 7>>, <<"gen", 1, 0>>, <<"gen", 16, 0>>, <<"gen", 15, 5>>, <<"reseed", 48, 9>>,
                         <<"gen", 15, 5>>, <<"gen", 15, 5>>, <<"gen", 15, 5>>, <<"gen", 0, 0>>, <<"reseed", 32, 0>> >>
                      \o [i \in 1..(Interval + 1) |-> <<"gen", 16, 0>>]
                      \o << <<"reseed", 32, 3>>, <<"gen", 16, 0>>, <<"gen", 15, 5>> >>,
             \* another configured interval (security level 2: 1024): run to the gate, see refusals, reseed, go on
             \* (instance constant Interval = 1024, envelope only)
             level |-> << <<"inst", 32, 16, 0>> >> \o [i \in 1..(Interval + 2) |-> <<"gen", 1, 0>>]
                       \o << <<"reseed", 32, 0>>, <<"gen", 1, 0>> >>,
             none |-> <<>> ]
Script == Scripts[ScriptName]
View == <<inst, st.reseed_counter, NeedReseed, win, IF Window >= MaxOps \/ Script # <<>> \/ Reach THEN nops ELSE 0>>
Next == IF Script # <<>>
        THEN nops < Len(Script) /\ Do(Script[nops + 1])
        ELSE \/ \E i \in InstOps : NInst(I3(i))
             \/ \E g \in GenOps : NGen(P2(g))
             \/ \E r \in ReseedOps : NReseed(P2(r))
             \/ \E t \in TickOps : NTick(t)
Spec == Init /\ [][Next]_vars

(* Reach: keep a history only while it can still run into the reseed gate and see the refusal     *)
(* within MaxOps; once a refusal has been seen the history goes on to MaxOps (reseed at the gate,    *)
(* generate after it, ...)                                                                          *)
SeenGate == \E i \in 1..Len(hist) : hist[i].op = "gen" /\ hist[i].res \in {"reseed", "anyerr"}
CanReach == ~Reach \/ ~inst \/ NeedReseed \/ SeenGate \/ (Interval + 1 - st.reseed_counter) + 1 <= MaxOps - nops

TypeOK == /\ nops <= MaxOps
          /\ B!IsBytes(st.V) /\ B!IsBytes(st.C) /\ B!IsBytes(st.Key)
          /\ (Exact /\ inst) => \/ mech = "hash" /\ Len(st.V) = SeedLen /\ Len(st.C) = SeedLen
                                \/ mech = "hmac" /\ Len(st.V) = OutLen /\ Len(st.Key) = OutLen
                                \/ mech = "ctr" /\ Len(st.V) = BlockLen /\ Len(st.Key) = KeyLenOf(alg)
(* an "ok" generate returned exactly the requested number of bytes (checked on the emitted event) *)
OutLenOK == LET ev == hist[Len(hist)]
            IN (Exact /\ ev.op = "gen" /\ ev.res = "ok") => Len(reply.out) = ev.n
=============================================================================
