-------------------------------- MODULE Der --------------------------------
(* Strict DER (ITU-T X.690 clause 10 on top of the BER rules of clause 8) for *)
(* the universal types the gmsm families exchange: INTEGER, BIT STRING, OCTET *)
(* STRING, SEQUENCE.  Two halves:                                             *)
(*   encoders  - the one encoding DER allows for a value;                     *)
(*   readers   - recognisers that accept EXACTLY what the encoders produce:    *)
(*               single-octet identifier (low tag number form), definite       *)
(*               length in the minimal number of octets (short form below 128, *)
(*               else long form without leading zero octet), INTEGER contents  *)
(*               in the minimal number of octets, nothing missing.             *)
(* Values: byte strings are sequences over 0..255; non-negative integers are   *)
(* BigNat values (big-endian, any number of leading zeros accepted on input,   *)
(* minimal on output).  Readers return records with a field ok and always the  *)
(* same fields; every operator is total on arbitrary byte strings.             *)
(* Lengths are TLC integers: contents of 2^24 octets or more are out of scope  *)
(* (a header announcing such a length cannot be followed by that many octets   *)
(* in any byte string TLC can hold, so the readers answer "not ok" correctly). *)
EXTENDS Integers, Sequences
LOCAL BN == INSTANCE BigNat

TagInteger     == 2
TagBitString   == 3
TagOctetString == 4
TagSequence    == 48      \* 0x30: universal 16, constructed
TagSet         == 49      \* 0x31

(* ------------------------------------------------------------- encoders *)
RECURSIVE Flat(_)
Flat(ss) == IF ss = <<>> THEN <<>> ELSE Head(ss) \o Flat(Tail(ss))
(* length octets (X.690 8.1.3 + 10.1): short form up to 127, else 0x80+k and k octets, k minimal *)
LenOctets(n) == IF n < 128 THEN <<n>>
                ELSE LET b == BN!FromInt(n) IN <<128 + Len(b)>> \o b
TLV(tag, content) == <<tag>> \o LenOctets(Len(content)) \o content
(* contents octets of a non-negative INTEGER (8.3): two's complement, minimal; zero is one octet 00 *)
UIntContent(a) == LET m == BN!Norm(a)
                  IN IF m = <<>> THEN <<0>> ELSE IF m[1] >= 128 THEN <<0>> \o m ELSE m
(* contents octets of the negative INTEGER -a, a > 0: two's complement of a on the least number *)
(* of octets L with a <= 2^(8L-1)                                                                 *)
Zs(n) == SubSeq([i \in 1..n |-> 0], 1, n)
Pow256(l) == <<1>> \o Zs(l)
NegIntContent(a) ==
  LET m == BN!Norm(a)
      half == <<128>> \o Zs(Len(m) - 1)                                    \* 2^(8 Len(m) - 1)
      l == IF BN!Le(m, half) THEN Len(m) ELSE Len(m) + 1
  IN IF m = <<>> THEN <<0>> ELSE BN!ToFixed(BN!Sub(Pow256(l), m), l)
EncUInt(a)    == TLV(TagInteger, UIntContent(a))
EncNegInt(a)  == TLV(TagInteger, NegIntContent(a))
EncOctets(b)  == TLV(TagOctetString, b)
(* BIT STRING whose number of bits is a multiple of eight unless unused > 0 (8.6); DER wants the unused bits zero *)
EncBits(b, unused) == TLV(TagBitString, <<unused>> \o b)
EncSeq(items) == TLV(TagSequence, Flat(items))          \* items: already encoded elements
(* Ecdsa-Sig-Value / SM2Signature ::= SEQUENCE { r INTEGER, s INTEGER } *)
EncSig(r, s) == EncSeq(<<EncUInt(r), EncUInt(s)>>)

(* -------------------------------------------------------------- readers *)
NoTLV == [ok |-> FALSE, tag |-> 0, content |-> <<>>, rest |-> <<>>, hdr |-> 0]
(* first element of b: identifier, length, contents; rest = what follows; hdr = octets before the contents *)
ReadTLV(b) ==
  IF Len(b) < 2 THEN NoTLV
  ELSE IF (b[1] % 32) = 31 THEN NoTLV                                   \* high tag number form: not used by these types
  ELSE IF b[2] < 128 THEN
         (IF Len(b) < 2 + b[2] THEN NoTLV
          ELSE [ok |-> TRUE, tag |-> b[1], content |-> SubSeq(b, 3, 2 + b[2]),
                rest |-> SubSeq(b, 3 + b[2], Len(b)), hdr |-> 2])
  ELSE LET k == b[2] - 128
       IN IF k = 0 THEN NoTLV                                           \* indefinite form (10.1)
          ELSE IF k > 3 THEN NoTLV                                      \* >= 2^24 octets announced (or 0xff reserved, or leading zeros)
          ELSE IF Len(b) < 2 + k THEN NoTLV
          ELSE LET lb == SubSeq(b, 3, 2 + k)
                   n == BN!ToInt(lb)
               IN IF lb[1] = 0 THEN NoTLV                               \* more length octets than necessary
                  ELSE IF n < 128 THEN NoTLV                            \* long form where the short form fits
                  ELSE IF Len(b) < 2 + k + n THEN NoTLV
                  ELSE [ok |-> TRUE, tag |-> b[1], content |-> SubSeq(b, 3 + k, 2 + k + n),
                        rest |-> SubSeq(b, 3 + k + n, Len(b)), hdr |-> 2 + k]

(* all elements of a constructed value's contents *)
NoItems == [ok |-> FALSE, items |-> <<>>]
RECURSIVE ReadAll(_)
ReadAll(c) == IF c = <<>> THEN [ok |-> TRUE, items |-> <<>>]
              ELSE LET t == ReadTLV(c)
                   IN IF ~t.ok THEN NoItems
                      ELSE LET more == ReadAll(t.rest)
                           IN IF more.ok THEN [ok |-> TRUE, items |-> <<t>> \o more.items] ELSE NoItems
(* b is exactly one SEQUENCE; items = its elements as ReadTLV records *)
ReadSeq(b) == LET t == ReadTLV(b)
              IN IF ~t.ok THEN NoItems
                 ELSE IF t.tag # TagSequence \/ t.rest # <<>> THEN NoItems
                 ELSE ReadAll(t.content)

(* INTEGER contents: at least one octet, and not more than necessary (8.3.2) *)
IntMinimal(c) == IF Len(c) = 0 THEN FALSE
                 ELSE IF Len(c) = 1 THEN TRUE
                 ELSE ~((c[1] = 0 /\ c[2] < 128) \/ (c[1] = 255 /\ c[2] >= 128))
NoInt == [ok |-> FALSE, neg |-> FALSE, val |-> <<>>]
(* value as sign and magnitude *)
DecIntContent(c) ==
  IF ~IntMinimal(c) THEN NoInt
  ELSE IF c[1] < 128 THEN [ok |-> TRUE, neg |-> FALSE, val |-> BN!Norm(c)]
  ELSE [ok |-> TRUE, neg |-> TRUE, val |-> BN!Sub(Pow256(Len(c)), BN!Norm(c))]
(* a non-negative INTEGER, else not ok *)
DecUIntContent(c) == LET v == DecIntContent(c)
                     IN IF v.ok THEN (IF v.neg THEN NoInt ELSE v) ELSE NoInt
DecUInt(t) == IF t.ok THEN (IF t.tag = TagInteger THEN DecUIntContent(t.content) ELSE NoInt) ELSE NoInt

NoBytes == [ok |-> FALSE, val |-> <<>>, unused |-> 0]
DecOctets(t) == IF t.ok THEN (IF t.tag = TagOctetString THEN [ok |-> TRUE, val |-> t.content, unused |-> 0] ELSE NoBytes) ELSE NoBytes
(* primitive BIT STRING: first contents octet = number of unused bits 0..7 (0 if no further octet), unused bits zero (11.2) *)
DecBits(t) ==
  IF ~t.ok THEN NoBytes
  ELSE IF t.tag # TagBitString THEN NoBytes
  ELSE IF Len(t.content) = 0 THEN NoBytes
  ELSE LET u == t.content[1]
           v == Tail(t.content)
       IN IF u > 7 THEN NoBytes
          ELSE IF v = <<>> THEN (IF u = 0 THEN [ok |-> TRUE, val |-> <<>>, unused |-> 0] ELSE NoBytes)
          ELSE IF (v[Len(v)] % (2 ^ u)) # 0 THEN NoBytes
          ELSE [ok |-> TRUE, val |-> v, unused |-> u]

(* ------------------------------------------------- signature recogniser *)
NoSigVal == [ok |-> FALSE, r |-> <<>>, s |-> <<>>]
(* bytes are exactly the DER encoding of SEQUENCE { r INTEGER, s INTEGER } with r, s >= 0: *)
(* nothing before, between, inside or after; minimal lengths; minimal, non-negative integers *)
StrictSig(bytes) ==
  LET q == ReadSeq(bytes)
  IN IF ~q.ok THEN NoSigVal
     ELSE IF Len(q.items) # 2 THEN NoSigVal
     ELSE LET r == DecUInt(q.items[1])
              s == DecUInt(q.items[2])
          IN IF r.ok /\ s.ok THEN [ok |-> TRUE, r |-> r.val, s |-> s.val] ELSE NoSigVal
=============================================================================
