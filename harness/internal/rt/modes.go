package rt

import (
	"crypto/cipher"

	gcipher "github.com/emmansun/gmsm/cipher"
	"github.com/emmansun/gmsm/sm4"

	"gmsmverif/internal/guard"
)

type modeObj struct {
	bm   cipher.BlockMode
	st   cipher.Stream
	lp   gcipher.LengthPreservingMode
	blk  cipher.Block
	dir  string
	mode string
}

func (m *modeObj) run(dst, src []byte) {
	switch {
	case m.bm != nil:
		m.bm.CryptBlocks(dst, src)
	case m.st != nil:
		m.st.XORKeyStream(dst, src)
	case m.lp != nil:
		if m.dir == "enc" {
			m.lp.EncryptBytes(dst, src)
		} else {
			m.lp.DecryptBytes(dst, src)
		}
	case m.blk != nil:
		if m.dir == "enc" {
			m.blk.Encrypt(dst, src)
		} else {
			m.blk.Decrypt(dst, src)
		}
	default:
		panic("harness: mode object not constructed")
	}
}

func newModeObj(st Step, env *Env) *modeObj {
	ciph, mode, dir := st.Str("ciph"), st.Str("mode"), st.Str("dir")
	key, key2, iv := st.Hex("key"), st.HexOr("key2"), st.HexOr("iv")
	cr := wrappedCreator(ciph, env.Wrap)
	b, err := cr(key)
	if err != nil {
		panic("harness: cipher creation failed: " + err.Error())
	}
	enc := dir == "enc"
	o := &modeObj{dir: dir, mode: mode}
	switch mode {
	case "block":
		o.blk = b
	case "ecb":
		if enc {
			o.bm = gcipher.NewECBEncrypter(b)
		} else {
			o.bm = gcipher.NewECBDecrypter(b)
		}
	case "cbc":
		if enc {
			o.bm = cipher.NewCBCEncrypter(b, iv)
		} else {
			o.bm = cipher.NewCBCDecrypter(b, iv)
		}
	case "cfb":
		if enc {
			o.st = cipher.NewCFBEncrypter(b, iv)
		} else {
			o.st = cipher.NewCFBDecrypter(b, iv)
		}
	case "ofb":
		o.st = cipher.NewOFB(b, iv)
	case "ctr":
		o.st = cipher.NewCTR(b, iv)
	case "bc":
		if enc {
			o.bm = gcipher.NewBCEncrypter(b, iv)
		} else {
			o.bm = gcipher.NewBCDecrypter(b, iv)
		}
	case "ofbnlf":
		if enc {
			o.bm, err = gcipher.NewOFBNLFEncrypter(cr, key, iv)
		} else {
			o.bm, err = gcipher.NewOFBNLFDecrypter(cr, key, iv)
		}
	case "xts", "gbxts":
		switch {
		case mode == "xts" && enc:
			o.bm, err = gcipher.NewXTSEncrypter(cr, key, key2, iv)
		case mode == "xts":
			o.bm, err = gcipher.NewXTSDecrypter(cr, key, key2, iv)
		case enc:
			o.bm, err = gcipher.NewGBXTSEncrypter(cr, key, key2, iv)
		default:
			o.bm, err = gcipher.NewGBXTSDecrypter(cr, key, key2, iv)
		}
	case "hctr":
		o.lp, err = gcipher.NewHCTR(b, iv, key2)
	default:
		panic("harness: unknown mode " + mode)
	}
	if err != nil {
		panic("harness: mode construction failed: " + err.Error())
	}
	return o
}

// mode family (C02, C03): one mode object, a sequence of calls partitioning a message. Buffers are
// guard-paged: "ie"/"is" in place (slice ends/starts at an inaccessible page), "de"/"ds" disjoint.
func init() {
	Register("mode", func(t *Trace, env *Env) *Mismatch {
		var o *modeObj
		for i, st := range t.Steps {
			At(i)
			switch st.Str("op") {
			case "new":
				o = newModeObj(st, env)
			case "setiv":
				sv, ok := o.bm.(interface{ SetIV([]byte) })
				if !ok {
					panic("harness: mode object has no SetIV: " + o.mode)
				}
				iv := st.Hex("iv")
				keep := append([]byte(nil), iv...)
				sv.SetIV(iv)
				// the caller may reuse its IV buffer afterwards
				for j := range iv {
					iv[j] ^= 0xFF
				}
				_ = keep
			case "newcipher":
				_, err := sm4.NewCipher(make([]byte, st.Int("keylen")))
				if mm := DiffErr(i, err, st.Bool("err")); mm != nil {
					return mm
				}
			case "call":
				in, exp := st.Hex("in"), st.Hex("exp")
				buf := "de"
				if st.Has("buf") {
					buf = st.Str("buf")
				}
				atEnd := buf[1] == 'e'
				src := guard.Alloc(len(in), atEnd)
				copy(src.B, in)
				dst := src
				if buf[0] == 'd' {
					dst = guard.Alloc(len(in), atEnd)
				}
				o.run(dst.B, src.B)
				mm := Diff(i, dst.B, exp)
				if mm == nil && buf[0] == 'd' {
					if mm = Diff(i, src.B, in); mm != nil {
						mm.Note = "the call modified its source buffer"
					}
				}
				if mm == nil && !(src.CanaryIntact() && dst.CanaryIntact()) {
					mm = &Mismatch{Step: i, Kind: "overrun", Got: "bytes outside the slices were written", Exp: "untouched"}
				}
				src.Free()
				if dst != src {
					dst.Free()
				}
				if mm != nil {
					return mm
				}
			default:
				panic("harness: mode: unknown op " + st.Str("op"))
			}
		}
		return nil
	})
}
