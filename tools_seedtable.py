#!/usr/bin/env python3
"""tools_seedtable.py — print the markdown table of the second-round seeded changes from seeded/*/meta.json"""
import json, glob, os, re
rows = []
for f in sorted(glob.glob(os.path.join(os.path.dirname(os.path.abspath(__file__)), "seeded", "*", "meta.json"))):
    m = json.load(open(f))
    if "second round" not in m.get("author", "") and "(third round)" not in m.get("needs_to_manifest", ""):
        continue
    det = m["detected_by"]
    missed = det.upper().startswith("MISSED")
    first = "**missed**" if missed else "detected"
    after = "-"
    if missed:
        after = re.sub(r"^MISSED at first run[^;]*;\s*", "", det)
    elif not det.startswith("detected at first run"):
        after = det
    rows.append("| %s | %s | %s | %s |" % (m["id"], m["needs_to_manifest"].replace("|", "/"), first, after.replace("|", "/")))
import sys
out = []
_print = print
def print(*a):
    out.append(" ".join(str(x) for x in a))
print("| seed | what it needs | first result | after strengthening / remark |\n|---|---|---|---|")
print("\n".join(rows))
n = len(rows)
print("\n%d seeds of the second, third and fourth rounds; %d missed at first run." % (n, sum(1 for r in rows if "**missed**" in r)))

text = "\n".join(out)
if "--update-design" in sys.argv:
    dp = os.path.join(os.path.dirname(os.path.abspath(__file__)), "DESIGN.md")
    d = open(dp).read()
    a, b = d.index("<!-- seedtable:begin -->") + len("<!-- seedtable:begin -->"), d.index("<!-- seedtable:end -->")
    open(dp, "w").write(d[:a] + "\n" + text + "\n" + d[b:])
else:
    _print(text)
