"""Shared machinery of ./check: scratch dirs, TLC runs, harness builds, trace replay with crash/hang
attribution, known-finding matching, evidence and replay files.  No property logic lives here."""
import collections
import concurrent.futures
import hashlib
import json
import os
import re
import shutil
import subprocess
import sys
import tempfile
import time

VERIF = os.path.dirname(os.path.dirname(os.path.abspath(__file__)))
REPO = os.environ.get("VERIF_REPO", "/repo")
TLCX = os.path.join(VERIF, "tlc", "tlcx")
NCPU = os.cpu_count() or 4


class Infra(Exception):
    """Infrastructure failure: exit 2, never a violation."""


def goenv(extra=None):
    e = dict(os.environ)
    e.update({"GOFLAGS": "-mod=mod", "GOPROXY": "off", "GOSUMDB": "off", "GOTOOLCHAIN": "local",
              "CGO_ENABLED": e.get("CGO_ENABLED", "1")})
    e.pop("GODEBUG", None)
    if extra:
        e.update(extra)
    return e


class Ctx:
    def __init__(self, prop, tier, seed):
        self.prop = prop
        self.tier = tier
        self.seed = seed
        self.t0 = time.time()
        self.scratch = tempfile.mkdtemp(prefix="verif-%s-" % prop, dir=os.environ.get("VERIF_SCRATCH", "/tmp"))
        self.specdir = os.path.join(self.scratch, "spec")
        self.tlc_runs = []          # stats per TLC invocation
        self.fails = []             # failures attributable to real-code behaviour
        self.replayed = 0           # traces replayed spec->code (trace x configuration)
        self.steps = 0              # replies compared
        self.validated = 0          # recorded traces accepted code->spec
        self.per_cfg = {}
        self.samples = []
        self.distinct = set()
        self.notes = []
        self.assumptions = []
        self.extra = {}
        self._bins = {}
        self.flatten()

    def cleanup(self):
        shutil.rmtree(self.scratch, ignore_errors=True)

    # ---------------------------------------------------------------- specs / TLC
    def flatten(self):
        os.makedirs(self.specdir, exist_ok=True)
        for root, _, files in os.walk(os.path.join(VERIF, "spec")):
            for f in files:
                if f.endswith(".tla"):
                    shutil.copy(os.path.join(root, f), os.path.join(self.specdir, f))

    def tlc(self, module, constants, spec="Spec", invariants=(), properties=(), view=None, workers=4,
            timeout=1800, name=None, extra_cfg="", simulate=None, heap="6g", coverage=False, postcondition=None,
            init_next=None, constraint=None, allow_fail=False):
        """Run TLC on spec/<module>.tla with a generated cfg.  Returns a stats dict."""
        name = name or module
        cfg = []
        if constants:
            cfg.append("CONSTANTS")
            for k, v in constants.items():
                cfg.append("  %s = %s" % (k, v))
        if init_next:
            cfg.append("INIT %s\nNEXT %s" % init_next)
        else:
            cfg.append("SPECIFICATION %s" % spec)
        if view:
            cfg.append("VIEW %s" % view)
        if invariants:
            cfg.append("INVARIANTS " + " ".join(invariants))
        if properties:
            cfg.append("PROPERTIES " + " ".join(properties))
        if postcondition:
            cfg.append("POSTCONDITION %s" % postcondition)
        if constraint:
            cfg.append("CONSTRAINT %s" % constraint)
        cfg.append("CHECK_DEADLOCK FALSE")
        cfg.append(extra_cfg)
        cfgpath = os.path.join(self.specdir, name + ".cfg")
        with open(cfgpath, "w") as f:
            f.write("\n".join(cfg) + "\n")
        meta = os.path.join(self.scratch, "meta-" + name)
        cmd = [TLCX, "-metadir", meta, "-config", cfgpath, "-workers", str(workers)]
        if simulate:
            cmd += ["-simulate", simulate]
        if coverage:
            cmd += ["-coverage", "1"]
        cmd += [os.path.join(self.specdir, module + ".tla")]
        env = dict(os.environ)
        env["TLCX_HEAP"] = "-Xmx" + heap
        jt = os.path.join(self.scratch, "jtmp")          # TLC leaves an empty tlc-<n> directory per run in java.io.tmpdir
        os.makedirs(jt, exist_ok=True)
        env["TLCX_TMP"] = jt
        t0 = time.time()
        try:
            p = subprocess.run(cmd, cwd=self.specdir, env=env, stdout=subprocess.PIPE, stderr=subprocess.STDOUT,
                               timeout=timeout, text=True, errors="replace")
            out, rc = p.stdout, p.returncode
        except subprocess.TimeoutExpired as e:
            subprocess.run(["pkill", "-f", meta], check=False)
            out = (e.stdout or b"").decode("utf8", "replace") if isinstance(e.stdout, bytes) else (e.stdout or "")
            if simulate:
                rc = 0
            else:
                raise Infra("TLC timeout after %ds on %s\n%s" % (timeout, name, out[-2000:]))
        shutil.rmtree(meta, ignore_errors=True)
        st = {"name": name, "module": module, "wall_s": round(time.time() - t0, 2), "rc": rc,
              "generated": 0, "distinct": 0, "depth": 0, "ok": False}
        m = re.findall(r"(\d+) states generated, (\d+) distinct states found", out)
        if m:
            st["generated"], st["distinct"] = int(m[-1][0]), int(m[-1][1])
        m = re.search(r"depth of the complete state graph search is (\d+)", out)
        if m:
            st["depth"] = int(m.group(1))
        st["ok"] = ("Model checking completed. No error has been found." in out) or (simulate is not None and rc == 0 and "Error:" not in out)
        st["out_tail"] = out[-3000:]
        if coverage:
            st["coverage_zero"] = re.findall(r"<(\w+) line \d+, col \d+ to line \d+, col \d+ of module (\w+)>: 0:0", out)
        self.tlc_runs.append(st)
        if not st["ok"] and not allow_fail:
            # TLC found an invariant violation of the model itself or failed to evaluate: the model is
            # ours, so this is an infrastructure error, not a verdict about the code.
            raise Infra("TLC did not complete cleanly on %s (rc=%d):\n%s" % (name, rc, _strip(out)[-4000:]))
        return st

    def kats(self, modules, seed_const=()):
        """Published vectors asserted on the TLA+ definitions (spec/selftest): a failure is an infrastructure error."""
        jobs = [dict(module=m, name=m, constants=({"Seed": self.seed} if m in seed_const else {}), init_next=("Init", "Next"), workers=1, timeout=900, heap="2g") for m in modules]
        res = self.tlc_many(jobs, parallel=4)
        for st in res:
            self.tlc_runs.remove(st)
        self.extra["kats_asserted"] = sorted(set(self.extra.get("kats_asserted", [])) | set(modules))

    def tlc_many(self, jobs, parallel=4):
        """jobs: list of kwargs dicts for self.tlc; run several JVMs at once."""
        res = []
        with concurrent.futures.ThreadPoolExecutor(max_workers=parallel) as ex:
            futs = [ex.submit(lambda kw=kw: self.tlc(**kw)) for kw in jobs]
            for f in futs:
                res.append(f.result())
        return res

    # ---------------------------------------------------------------- harness
    def build(self, cmd="replay", tags=("verif",), race=False):
        key = (cmd, tuple(tags), race)
        if key in self._bins:
            return self._bins[key]
        hs = os.path.join(VERIF, "harness")
        out = os.path.join(self.scratch, "bin-%s-%s%s" % (cmd, "-".join(tags) or "notag", "-race" if race else ""))
        args = ["go", "build", "-o", out]
        if REPO != "/repo":
            # mutation testing against a scratch copy of the library (never used by the registered checks):
            # same harness sources, module replaced by VERIF_REPO through an alternative go.mod
            mf = os.path.join(self.scratch, "alt.mod")
            if not os.path.exists(mf):
                with open(os.path.join(hs, "go.mod")) as fh:
                    txt = fh.read().replace("=> /repo", "=> " + REPO)
                with open(mf, "w") as fh:
                    fh.write(txt)
                shutil.copy(os.path.join(hs, "go.sum"), os.path.join(self.scratch, "alt.sum"))
            args += ["-modfile=" + mf]
        if tags:
            args += ["-tags", ",".join(tags)]
        if race:
            args += ["-race"]
        args += ["./cmd/" + cmd]
        p = subprocess.run(args, cwd=hs, env=goenv(), stdout=subprocess.PIPE, stderr=subprocess.STDOUT, text=True)
        if p.returncode != 0:
            raise Infra("harness build failed (%s):\n%s" % (" ".join(args), p.stdout[-4000:]))
        self._bins[key] = out
        return out

    def replay(self, trace_file, cfg, per_trace_timeout=30, extra_args=()):
        """Replay every trace of trace_file under configuration cfg = {label, env, tags, wrap}.
        Crashes and hangs are attributed to the trace that was running and the run is resumed after it."""
        binp = self.build("replay", tuple(cfg.get("tags", ("verif",))))
        label = cfg["label"]
        start = 0
        ntr = count_lines(trace_file)
        fails = []
        tot_tr = tot_st = 0
        rounds = 0
        while start < ntr:
            rounds += 1
            if rounds > 200:
                raise Infra("replay of %s under %s restarted more than 200 times" % (trace_file, label))
            self._nres = getattr(self, "_nres", 0) + 1
            outp = os.path.join(self.scratch, "res-%s-%d-%d.ndjson" % (_safe(label), self._nres, start))
            prog = outp + ".prog"
            cmd = [binp, "-in", trace_file, "-out", outp, "-progress", prog, "-wrap", cfg.get("wrap", "native"),
                   "-cfg", label, "-from", str(start)] + list(extra_args)
            p = subprocess.Popen(cmd, env=goenv(cfg.get("env")), stdout=subprocess.PIPE, stderr=subprocess.STDOUT)
            last, last_t, hung = None, time.time(), False
            while True:
                try:
                    p.wait(timeout=0.5)
                    break
                except subprocess.TimeoutExpired:
                    cur = _last_line(prog)
                    if cur != last:
                        last, last_t = cur, time.time()
                    elif time.time() - last_t > per_trace_timeout:
                        p.kill()
                        p.wait()
                        hung = True
                        break
            stdout = p.stdout.read().decode("utf8", "replace")
            done = None
            for line in _lines(outp):
                r = json.loads(line)
                if r.get("done"):
                    done = r
                else:
                    fails.append(r)
            if done is not None and p.returncode == 0 and not hung:
                tot_tr += done["traces"]
                tot_st += done["steps"]
                break
            cur = _last_line(prog)
            if cur is None:
                raise Infra("replayer died before running any trace (%s): rc=%s\n%s" % (label, p.returncode, stdout[-3000:]))
            cur = int(cur)
            tr = nth_line(trace_file, cur)
            fails = [f for f in fails if f["idx"] != cur]
            fails.append({"idx": cur, "fam": json.loads(tr).get("fam"), "step": -1, "kind": "hang" if hung else "crash",
                          "got": ("no progress for %ds" % per_trace_timeout) if hung else ("process died rc=%s: %s" % (p.returncode, _crash_head(stdout))),
                          "exp": "", "cfg": label, "trace": json.loads(tr)})
            tot_tr += cur - start + 1
            start = cur + 1
            if sum(1 for f in fails if f["kind"] in ("hang", "crash")) >= 5:
                # five traces have already hung or killed the process under this configuration: the verdict cannot change
                # any more, and every further hang costs a full timeout - stop replaying this configuration
                self.extra.setdefault("replay_cut_short", []).append({"cfg": label, "file": os.path.basename(trace_file), "at": start, "of": ntr})
                break
        for f in fails:
            f["cfgspec"] = {"label": label, "env": cfg.get("env", {}), "tags": list(cfg.get("tags", ("verif",))), "wrap": cfg.get("wrap", "native")}
        if any(f["kind"] == "harness" for f in fails):
            bad = [f for f in fails if f["kind"] == "harness"][0]
            raise Infra("harness error while replaying under %s: %s %s" % (label, bad.get("got"), bad.get("note", "")[:1500]))
        self.fails += fails
        self.replayed += tot_tr
        self.steps += tot_st
        self.per_cfg[label] = self.per_cfg.get(label, 0) + tot_tr
        return fails

    def replay_all(self, trace_file, cfgs, parallel=None, **kw):
        parallel = parallel or min(len(cfgs), NCPU)
        for c in cfgs:                       # build sequentially first (shared go cache)
            self.build("replay", tuple(c.get("tags", ("verif",))))
        with concurrent.futures.ThreadPoolExecutor(max_workers=parallel) as ex:
            futs = [ex.submit(self.replay, trace_file, c, **kw) for c in cfgs]
            for f in futs:
                f.result()

    def replay_sharded(self, trace_file, cfgs, shards=4, **kw):
        """replay_all with every configuration split over several replayer processes (slow backends: purego pairings)."""
        lines = list(_lines(trace_file))
        files = []
        for i in range(shards):
            f = "%s.shard%d" % (trace_file, i)
            with open(f, "w") as fh:
                fh.writelines(l if l.endswith("\n") else l + "\n" for l in lines[i::shards])
            if lines[i::shards]:
                files.append(f)
        for c in cfgs:
            self.build("replay", tuple(c.get("tags", ("verif",))))
        tasks = [(dict(c, label="%s#%d" % (c["label"], i)), f) for c in cfgs for i, f in enumerate(files)]
        with concurrent.futures.ThreadPoolExecutor(max_workers=min(len(tasks), max(2, NCPU - 2))) as ex:
            futs = [ex.submit(self.replay, f, c, **kw) for c, f in tasks]
            for fu in futs:
                fu.result()
        merged = collections.Counter()
        for k, v in self.per_cfg.items():
            merged[k.split("#")[0]] += v
        self.per_cfg = dict(merged)
        for f in self.fails:
            f["cfg"] = f["cfg"].split("#")[0]
            f["cfgspec"]["label"] = f["cfgspec"]["label"].split("#")[0]

    def binding_guard(self, trace_file, cfg, field="exp"):
        """A deliberately wrong expectation must be rejected by the replayer, else the binding is broken."""
        mutated = None
        for line in _lines(trace_file):
            t = json.loads(line)
            for st in reversed(t["steps"]):
                e = st.get(field)
                if isinstance(e, str) and len(e) >= 2 and re.fullmatch(r"[0-9a-f]+", e):
                    st[field] = e[:-1] + ("0" if e[-1] != "0" else "1")
                    mutated = t
                    break
            if mutated:
                break
        if not mutated:
            raise Infra("binding guard: no trace with a hex expectation in %s" % trace_file)
        gpath = os.path.join(self.scratch, "guard-%d.ndjson" % len(self.tlc_runs))
        with open(gpath, "w") as f:
            f.write(json.dumps(mutated) + "\n")
        saved = (self.fails, self.replayed, self.steps, dict(self.per_cfg))
        self.fails = []
        got = self.replay(gpath, cfg)
        self.fails, self.replayed, self.steps, self.per_cfg = saved
        if len(got) != 1:
            raise Infra("binding guard: a corrupted expectation was accepted by the replayer (%s)" % trace_file)
        self.extra["binding_guard"] = self.extra.get("binding_guard", 0) + 1

    # ---------------------------------------------------------------- code -> spec (recorded traces)
    def record(self, fam, n, seed=None, tags=("verif",), env=None, name=None, extra_args=()):
        """Drive the real code with seeded random histories; returns the flat ndjson event file."""
        binp = self.build("record", tuple(tags))
        out = os.path.join(self.scratch, "rec-%s-%s.ndjson" % (_safe(name or fam), _safe("-".join(tags))))
        seed = self.seed if seed is None else seed
        p = subprocess.run([binp, "-fam", fam, "-seed", str(seed), "-n", str(n), "-out", out] + list(extra_args), env=goenv(env),
                           stdout=subprocess.PIPE, stderr=subprocess.STDOUT, text=True, timeout=1800)
        if p.returncode != 0:
            # the recorder only calls public API with valid arguments: a crash here is real-code behaviour
            self.fails.append({"idx": -1, "fam": "recorded:" + fam, "step": -1, "kind": "crash", "got": _crash_head(p.stdout), "exp": "",
                               "cfg": "record", "trace": {"fam": "recorded:" + fam, "seed": seed, "n": n, "steps": []},
                               "cfgspec": {"label": "record", "tags": list(tags), "env": env or {}}})
            return None
        return out

    def validate(self, module, event_file, fam, shards=4, timeout=1800, constants=None, guard=True, label="default", heap="2g"):
        """Validate recorded events against spec/trace/<module>.tla (POSTCONDITION TraceAccepted)."""
        if event_file is None:
            return
        hists = {}
        order = []
        for line in _lines(event_file):
            ev = json.loads(line)
            if ev["t"] not in hists:
                hists[ev["t"]] = []
                order.append(ev["t"])
            hists[ev["t"]].append(line if line.endswith("\n") else line + "\n")
        if not order:
            raise Infra("no recorded events in %s" % event_file)
        shards = max(1, min(shards, len(order)))
        jobs = []
        for i in range(shards):
            ts = order[i::shards]
            fpath = os.path.join(self.scratch, "val-%s-%s-%d.ndjson" % (module, _safe(label), i))
            with open(fpath, "w") as f:
                for t in ts:
                    f.writelines(hists[t])
            jobs.append((i, ts, fpath))
        if guard:
            # binding guard: one corrupted logged output must be rejected
            gp = os.path.join(self.scratch, "val-%s-guard.ndjson" % module)
            done = False
            with open(gp, "w") as f:
                for t in order:
                    for line in hists[t]:
                        ev = json.loads(line)
                        if not done:
                            for k in ("out", "exp", "got"):
                                v = ev.get(k)
                                if isinstance(v, str) and len(v) >= 2 and re.fullmatch(r"[0-9a-f]+", v):
                                    ev[k] = v[:-1] + ("0" if v[-1] != "0" else "1")
                                    done = True
                                    break
                        f.write(json.dumps(ev) + "\n")
                    if done:
                        break
            if not done:
                raise Infra("trace-validation guard: no logged output to corrupt in %s" % event_file)
            jobs.append((-1, [], gp))

        def one(job):
            i, ts, fpath = job
            c = dict(constants or {})
            c["TraceFile"] = tla_str(fpath)
            st = self.tlc(module, c, spec="TraceSpec", postcondition="TraceAccepted", workers=1, timeout=timeout, heap=heap,
                          name="%s_%s_%s" % (module, _safe(label), "guard" if i < 0 else str(i)), allow_fail=True)
            return job, st
        with concurrent.futures.ThreadPoolExecutor(max_workers=min(len(jobs), NCPU)) as ex:
            results = list(ex.map(one, jobs))
        for (i, ts, fpath), st in results:
            nev = count_lines(fpath)
            rejected = "TraceAccepted" in st["out_tail"] and "is false" in st["out_tail"] or "violated" in st["out_tail"]
            if i < 0:
                self.tlc_runs.remove(st)
                if st["ok"] or not rejected:
                    raise Infra("trace-validation guard: a corrupted recorded output was accepted by %s\n%s" % (module, _strip(st["out_tail"])[-1500:]))
                self.extra["trace_guard"] = self.extra.get("trace_guard", 0) + 1
                continue
            if st["ok"]:
                self.validated += len(ts)
                self.extra["events_validated"] = self.extra.get("events_validated", 0) + nev
                continue
            if not rejected:
                raise Infra("trace validation of %s did not run to a verdict:\n%s" % (module, _strip(st["out_tail"])[-3000:]))
            # rejected: the first unconsumed event is number depth (1-based) => the history it belongs to fails
            bad = max(0, st["depth"] - 1)
            ev = json.loads(nth_line(fpath, min(bad, nev - 1)))
            t = ev["t"]
            events = [json.loads(x) for x in hists[t]]
            pos = [k for k, e in enumerate(events) if e == ev]
            self.validated += max(0, ts.index(t))
            self.fails.append({"idx": t, "fam": "recorded:" + fam, "step": pos[0] if pos else -1, "kind": "trace-rejected",
                               "got": json.dumps(_shorten(ev)), "exp": "an event the specification %s allows after the preceding ones" % module,
                               "cfg": label, "trace": {"fam": "recorded:" + fam, "module": module, "steps": events},
                               "cfgspec": {"label": label, "recorded": True, "module": module}})
        if len(self.samples) < 6:
            self.samples.append({"recorded_history": [_shorten(json.loads(x)) for x in hists[order[0]][:8]]})

    # ---------------------------------------------------------------- evidence / verdict
    def sample_traces(self, trace_file, k=3):
        n = 0
        for line in _lines(trace_file):
            if n in (0, 7, 101) or len(self.samples) < 1:
                if len(self.samples) < 6:
                    self.samples.append(_shorten(json.loads(line)))
            n += 1
            if n > 101:
                break

    def count_distinct(self, trace_file, keyfn):
        for line in _lines(trace_file):
            t = json.loads(line)
            k = keyfn(t)
            if k is not None:
                self.distinct.add(k)

    def finish(self, level="model_checking", rule="", exhaustive=False, trusted_base=None, explanation=None):
        findings = load_findings()
        known, new = [], []
        for f in self.fails:
            m = match_finding(findings, self.prop, f)
            (known if m else new).append((f, m))
        printed = set()
        for f, m in known:
            if m["id"] not in printed:
                printed.add(m["id"])
                print("KNOWN-FINDING: property=%s %s: %s" % (self.prop, m["id"], m["what"]))
        replay_path = None
        if new:
            os.makedirs(os.path.join(VERIF, "replays"), exist_ok=True)
            seen = set()
            for f, _ in new[:50]:
                body = {"property": self.prop, "cfg": f.get("cfgspec"), "trace": f["trace"], "fail": {k: f[k] for k in ("step", "kind", "got", "exp") if k in f}}
                h = hashlib.sha256(json.dumps(body, sort_keys=True).encode()).hexdigest()[:12]
                pth = os.path.join(VERIF, "replays", "%s-%s.json" % (self.prop, h))
                if h in seen:
                    continue
                seen.add(h)
                with open(pth, "w") as fh:
                    json.dump(body, fh, indent=1)
                if replay_path is None:
                    replay_path = pth
        states = sum(r["distinct"] for r in self.tlc_runs)
        trans = sum(r["generated"] for r in self.tlc_runs)
        cov = {
            "states": states, "transitions": trans,
            "traces_validated_against_impl": self.replayed + self.validated,
            "traces_replayed_spec_to_code": self.replayed,
            "traces_recorded_code_to_spec_accepted": self.validated,
            "evaluations": self.steps + self.extra.get("events_validated", 0),
            "distinct_nontrivial": len(self.distinct),
            "rule": rule,
            "samples": self.samples[:6] or [{"note": "no trace emitted"}],
            "exhaustive": exhaustive,
            "per_configuration": self.per_cfg,
            "tlc_runs": [{k: r[k] for k in ("name", "generated", "distinct", "depth", "wall_s")} for r in self.tlc_runs],
            "checker_cmd": "tlc/tlcx (tla2tools 1.8.0, -Xss512m, verifov overrides) + harness/cmd/replay built from /repo working tree with -tags verif",
            "trusted_base": trusted_base or ["TLC 1.8.0", "verifov Java overrides (BigNat/Hex/Emit)", "TLA+ transcription of the standards (pinned by spec/selftest KATs)", "Go replayer plumbing (binding guard run each time)"],
            "known_findings_hit": sorted(printed),
            "failures_total": len(self.fails),
            "failures_unlisted": len(new),
        }
        if explanation:
            cov["explanation"] = explanation
        cov.update(self.extra)
        ev = {"property_id": self.prop, "tier": self.tier, "seed": self.seed, "level": level, "coverage": cov,
              "assumptions": self.assumptions, "wall_s": round(time.time() - self.t0, 2), "violations": len(new)}
        # mutation testing (VERIF_REPO = a scratch copy with a seeded change) never writes into the committed evidence directory
        evdir = os.environ.get("VERIF_EVIDENCE_DIR") or (os.path.join(VERIF, "evidence") if "VERIF_REPO" not in os.environ else "/tmp/verif-seed-evidence")
        os.makedirs(evdir, exist_ok=True)
        with open(os.path.join(evdir, self.prop + ".json"), "w") as fh:
            json.dump(ev, fh, indent=1)
        if new:
            f = new[0][0]
            print("first unlisted failure: kind=%s cfg=%s step=%s got=%s exp=%s" % (f["kind"], f.get("cfg"), f.get("step"), str(f.get("got"))[:200], str(f.get("exp"))[:200]))
            print("VIOLATION property=%s replay=%s" % (self.prop, replay_path))
            return 1
        print("OK property=%s tier=%s seed=%d: %d TLC states / %d transitions, %d traces replayed, %d recorded traces accepted, %d replies compared, %.0fs"
              % (self.prop, self.tier, self.seed, states, trans, self.replayed, self.validated, self.steps, time.time() - self.t0))
        return 0


# -------------------------------------------------------------------- helpers
def _strip(out):
    return "\n".join(l for l in out.splitlines() if not l.startswith(("Parsing file", "Semantic processing", "Linting of")))


def _safe(s):
    return re.sub(r"[^A-Za-z0-9_.-]", "_", s)


def _lines(path):
    if not os.path.exists(path):
        return
    with open(path) as f:
        for line in f:
            if line.strip():
                yield line


def count_lines(path):
    n = 0
    for _ in _lines(path):
        n += 1
    return n


def nth_line(path, n):
    for i, line in enumerate(_lines(path)):
        if i == n:
            return line
    raise Infra("trace %d not in %s" % (n, path))


def _last_line(path):
    try:
        with open(path, "rb") as f:
            f.seek(0, 2)
            size = f.tell()
            f.seek(max(0, size - 64))
            ls = f.read().decode().strip().splitlines()
            return ls[-1] if ls else None
    except FileNotFoundError:
        return None


def _crash_head(s):
    for l in s.splitlines():
        if l.strip():
            return l.strip()[:300]
    return ""


def _shorten(o, lim=160):
    if isinstance(o, dict):
        return {k: _shorten(v, lim) for k, v in o.items()}
    if isinstance(o, list):
        return [_shorten(v, lim) for v in o[:12]]
    if isinstance(o, str) and len(o) > lim:
        return o[:lim] + "...(%d chars)" % len(o)
    return o


def load_findings():
    p = os.path.join(VERIF, "known_findings.json")
    if not os.path.exists(p):
        return []
    return json.load(open(p)).get("findings", [])


def match_finding(findings, prop, f):
    t = f.get("trace") or {}
    steps = t.get("steps", [])
    st = steps[f["step"]] if isinstance(f.get("step"), int) and 0 <= f["step"] < len(steps) else {}
    for k in findings:
        if k.get("property") != prop or k.get("status") != "open":
            continue
        try:
            if eval(k["match"], {"__builtins__": {}}, {"f": f, "t": t, "steps": steps, "st": st, "len": len, "any": any, "all": all, "int": int, "cfg": f.get("cfgspec", {})}):
                return k
        except Exception:
            continue
    return None


def cat_files(paths, dest):
    with open(dest, "w") as out:
        for p in paths:
            for line in _lines(p):
                out.write(line if line.endswith("\n") else line + "\n")
    return dest


def tla_set(xs):
    return "{" + ", ".join(str(x) for x in xs) + "}"


def tla_str(s):
    return '"' + s + '"'
