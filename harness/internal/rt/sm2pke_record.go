package rt

import (
	"crypto/ecdsa"
	"crypto/rand"
	"encoding/hex"
	"io"
	mrand "math/rand"

	"github.com/emmansun/gmsm/sm2"
)

// Recorder of the sm2pke family (C07, code -> spec): the LIBRARY encrypts (it draws the ephemeral
// scalar itself from the reader it is given), decrypts its own ciphertexts and converts layouts; every
// call is logged with its real reply and validated by TLC against spec/trace/Trace_Sm2Pke.tla, where
// the TLA+ decryption must return the message and the TLA+ helpers the same bytes.
// No cryptography here: the "C2 all zero" history below obtains the mask from the library itself
// (encrypt zeros, read C2 off the ciphertext, encrypt that C2 with the same random stream).

var sm2pkeLens = []int{1, 1, 2, 3, 31, 32, 33, 63, 64, 65, 95, 96, 97, 127, 128, 129, 255, 256, 257}

// the key of GB/T 32918.5 A.2 and two scalars k for which KDF(x2||y2, 1) = 00 resp. KDF(x2||y2, 2) = 0000
// under that key (found by search; MC_C07 checks the claim): the encryption must draw again (A5).
const sm2pkeStdKey = "3945208f7b2144b13f36e38ac6d39f95889393692860b51a42fb81ef4df7c5b8"

var sm2pkeZeroT = map[int]int{1: 470, 2: 62785}

type sm2pkeOpt struct {
	enc, form, order string // enc: plain | asn1 ; form: u | c | h ; order: C1C3C2 | C1C2C3
	how              string // nil | opts | asn1func
}

func (o sm2pkeOpt) encrypt(rd io.Reader, pub *ecdsa.PublicKey, msg []byte) ([]byte, error) {
	switch o.how {
	case "nil":
		return sm2.Encrypt(rd, pub, msg, nil)
	case "asn1func":
		return sm2.EncryptASN1(rd, pub, msg)
	}
	if o.enc == "asn1" {
		return sm2.Encrypt(rd, pub, msg, sm2.ASN1EncrypterOpts)
	}
	return sm2.Encrypt(rd, pub, msg, sm2pkeEncOpts(o.form, o.order))
}

func sm2pkeRandOpt(r *mrand.Rand) sm2pkeOpt {
	switch r.Intn(10) {
	case 0:
		return sm2pkeOpt{"plain", "u", "C1C3C2", "nil"}
	case 1:
		return sm2pkeOpt{"asn1", "u", "C1C3C2", "asn1func"}
	case 2, 3:
		return sm2pkeOpt{"asn1", "u", "C1C3C2", "opts"}
	case 4:
		return sm2pkeOpt{"plain", "h", []string{"C1C3C2", "C1C2C3"}[r.Intn(2)], "opts"}
	default:
		return sm2pkeOpt{"plain", []string{"u", "c"}[r.Intn(2)], []string{"C1C3C2", "C1C2C3"}[r.Intn(2)], "opts"}
	}
}

func init() {
	// sm2pke: ordinary histories; sm2pke-edge: histories built around the two rare events of A5/B4
	RegisterRecorder("sm2pke", func(r *mrand.Rand, log func(map[string]interface{})) { sm2pkeHistory(r, log, 3) })
	RegisterRecorder("sm2pke-edge", func(r *mrand.Rand, log func(map[string]interface{})) { sm2pkeHistory(r, log, r.Intn(3)) })
}

// kind 0: the first scalar offered has an all-zero mask (A5 retry); 1, 2: C2 all zero; else ordinary
func sm2pkeHistory(r *mrand.Rand, log func(map[string]interface{}), kind int) {
	{
		note := ""
		var dbytes []byte
		if kind == 0 {
			dbytes, _ = hex.DecodeString(sm2pkeStdKey)
		} else {
			dbytes = rbytes(r, 32)
			dbytes[0] &= 0x7f // below n; zero has probability 2^-255
		}
		priv, err := sm2.NewPrivateKey(dbytes)
		if err != nil {
			panic("harness: sm2pke recorder: key refused: " + err.Error())
		}
		log(map[string]interface{}{"op": "new", "d": hx(dbytes)})

		encrypt := func(o sm2pkeOpt, rd io.Reader, msg []byte) []byte {
			ct, err := o.encrypt(rd, &priv.PublicKey, msg)
			log(map[string]interface{}{"op": "enc", "msg": hx(msg), "enc": o.enc, "form": o.form, "order": o.order, "how": o.how,
				"err": err != nil, "out": hx(ct), "note": note})
			return ct
		}
		decrypt := func(o sm2pkeOpt, ct []byte) {
			if len(ct) == 0 || !(ct[0] == 2 || ct[0] == 3 || ct[0] == 4 || ct[0] == 0x30) {
				return // hybrid C1 is not among the layouts of C07
			}
			var opts []string
			switch {
			case o.enc == "asn1":
				opts = []string{"nil", "asn1"}
			case o.order == "C1C3C2":
				opts = []string{"nil", "C1C3C2"}
			default:
				opts = []string{"C1C2C3"}
			}
			opt := opts[r.Intn(len(opts))]
			var got []byte
			var err error
			via := "method"
			if opt == "nil" && r.Intn(2) == 0 {
				via = "func"
				got, err = sm2.Decrypt(priv, ct)
			} else {
				got, err = priv.Decrypt(rand.Reader, ct, sm2pkeDecOpts(opt))
			}
			log(map[string]interface{}{"op": "dec", "ct": hx(ct), "opt": opt, "via": via, "err": err != nil, "out": hx(got), "note": note})
		}
		// one layout helper on ct (layout o); returns the new bytes and their layout
		convert := func(o sm2pkeOpt, ct []byte) ([]byte, sm2pkeOpt) {
			if len(ct) == 0 || !(ct[0] == 2 || ct[0] == 3 || ct[0] == 4 || ct[0] == 0x30) {
				return nil, o
			}
			var fn, a, b string
			to := o
			if o.enc == "asn1" {
				fn = "asn12plain"
				if r.Intn(4) == 0 {
					a, b = "nil", "-"
					to = sm2pkeOpt{"plain", "u", "C1C3C2", "opts"}
				} else {
					a, b = []string{"u", "c"}[r.Intn(2)], []string{"C1C3C2", "C1C2C3"}[r.Intn(2)]
					to = sm2pkeOpt{"plain", a, b, "opts"}
				}
			} else if r.Intn(2) == 0 {
				fn, a, b = "plain2asn1", o.order, "-"
				to = sm2pkeOpt{"asn1", "u", "C1C3C2", "opts"}
			} else {
				fn, a, b = "adjust", o.order, []string{"C1C3C2", "C1C2C3"}[r.Intn(2)]
				form := "u"
				if ct[0] != 4 {
					form = "c"
				}
				to = sm2pkeOpt{"plain", form, b, "opts"}
			}
			out, err := sm2pkeConvert(fn, a, b, ct)
			log(map[string]interface{}{"op": "conv", "fn": fn, "a": a, "b": b, "in": hx(ct), "err": err != nil, "out": hx(out), "note": note})
			if err != nil {
				return nil, o
			}
			return out, to
		}

		switch kind {
		case 0: // the first scalar offered has an all-zero mask: A5 demands another one
			note = "a5retry"
			n := 1 + r.Intn(2)
			msg := rbytes(r, n)
			for i := range msg {
				msg[i] |= 1
			}
			k := make([]byte, 32)
			k[30], k[31] = byte(sm2pkeZeroT[n]>>8), byte(sm2pkeZeroT[n])
			o := sm2pkeRandOpt(r)
			ct := encrypt(o, io.MultiReader(bytesReader(k), r), msg)
			decrypt(o, ct)
		case 1, 2: // C2 all zero: M := the mask the library itself uses for this random stream
			n := []int{1, 2, 3, 32, 33, 65}[r.Intn(6)]
			seed := r.Int63()
			def := sm2pkeOpt{"plain", "u", "C1C3C2", "nil"}
			ct0, err := def.encrypt(mrand.New(mrand.NewSource(seed)), &priv.PublicKey, make([]byte, n))
			if err != nil || len(ct0) != 97+n {
				panic("harness: sm2pke recorder: unexpected reply to the default encryption")
			}
			mask := append([]byte(nil), ct0[97:]...)
			o := sm2pkeRandOpt(r)
			note = "c2zero"
			ct := encrypt(o, mrand.New(mrand.NewSource(seed)), mask)
			decrypt(o, ct)
			if c2, o2 := convert(o, ct); c2 != nil {
				decrypt(o2, c2)
			}
		}
		note = ""
		if r.Intn(3) == 0 { // enveloped private key: the library wraps a fresh key for priv and unwraps it again
			de := rbytes(r, 32)
			de[0] &= 0x7f
			inner, err := sm2.NewPrivateKey(de)
			if err != nil {
				panic("harness: sm2pke recorder: key refused: " + err.Error())
			}
			env, err := sm2.MarshalEnvelopedPrivateKey(r, &priv.PublicKey, inner)
			log(map[string]interface{}{"op": "menv", "de": hx(de), "err": err != nil, "out": hx(env), "note": note})
			if err == nil {
				got, err := sm2.ParseEnvelopedPrivateKey(priv, env)
				gd := ""
				if err == nil {
					gd = hx(got.D.FillBytes(make([]byte, 32)))
				}
				log(map[string]interface{}{"op": "penv", "env": hx(env), "err": err != nil, "out": gd, "note": note})
			}
		}
		rounds := 1 + r.Intn(3)
		for i := 0; i < rounds; i++ {
			msg := rbytes(r, sm2pkeLens[r.Intn(len(sm2pkeLens))])
			o := sm2pkeRandOpt(r)
			ct := encrypt(o, r, msg)
			decrypt(o, ct)
			cur, co := ct, o
			for j := r.Intn(3); j > 0 && cur != nil; j-- {
				cur, co = convert(co, cur)
				if cur != nil && r.Intn(2) == 0 {
					decrypt(co, cur)
				}
			}
		}
	}
}

type byteRd struct{ b []byte }

func (b *byteRd) Read(p []byte) (int, error) {
	if len(b.b) == 0 {
		return 0, io.EOF
	}
	n := copy(p, b.b)
	b.b = b.b[n:]
	return n, nil
}

func bytesReader(b []byte) io.Reader { return &byteRd{b} }
