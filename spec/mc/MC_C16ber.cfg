CONSTANTS
 Seed = 1
 LeafTags = {"04", "80", "5f1f"}
 LeafLens = {0, 1, 127, 128, 256}
 ConsTags = {"30", "a0", "bf8100"}
 NestLens = {0, 126}
 BigLens = {65536}
 OutFile = "/tmp/vs/c16ber.ndjson"
SPECIFICATION Spec
INVARIANTS DerUnchanged BerNormalised
CHECK_DEADLOCK FALSE
