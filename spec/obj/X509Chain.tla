------------------------------ MODULE X509Chain ------------------------------
(* C15, chain half: which certificate chains a verifier may return.              *)
(*                                                                                *)
(* A PKI is a finite sequence of ABSTRACT certificates (id = index).  A key is an *)
(* integer; "certificate c carries a signature by key k" is the field signedBy    *)
(* (Dolev-Yao: a signature verifies under a key iff it was made with it).  Time   *)
(* is an integer.  A name (subjectAltName entry) or name constraint is a record     *)
(* [ty, v, local]: ty in {"dns", "ip", "email", "uri"}; v a sequence of strings -     *)
(* DNS labels / host labels top level first (<<"example", "b", "www">> =              *)
(* www.b.example), or the leading octets of an IPv4 address; local = the local part   *)
(* of a mailbox ("" otherwise).                                                        *)
(*                                                                                *)
(*   cert = [id, subj, issuerName, spk, signedBy, bc in {"ca","notca","absent"},   *)
(*           pathLen (-1 = none), nb, na, ku (set; {} = extension absent),         *)
(*           eku (set; {} = absent), permit, exclude, san (sets of names), pos]    *)
(*                                                                                *)
(* ValidChains is the DECLARATIVE statement of the rules property C15 names:       *)
(* signature link, names chain, CA flag + certSign key usage, validity period of   *)
(* every element, path length, name constraints of every CA applied to every name  *)
(* claimed below it, (plain) extended-key-usage nesting, and - if the request names *)
(* a host - the leaf claims it.  GoVerify is an ALGORITHM-shaped sibling: a  *)
(* transcription of smx509/verify.go (Verify, buildChains, isValid,                *)
(* alreadyInChain, checkChainForKeyUsage) on abstract certificates; it produces no *)
(* verdict about the code, it is what ChainSound / NoChainWhenNoneValid / Complete *)
(* are checked against ON THE MODEL.  Deliberately not modelled: the signature-    *)
(* check budget (100), SHA-1 / MD5 policy, unhandled critical extensions,           *)
(* directory-name constraints, the constraint forms on which Go departs from the    *)
(* letter of RFC 5280 (host-form e-mail / URI constraints, leading-period DNS        *)
(* constraints), wildcard host names, EKU OIDs other than serverAuth / clientAuth /  *)
(* anyExtendedKeyUsage.                                                              *)
EXTENDS Integers, Sequences, FiniteSets

WinLo == 2            \* the common validity window of undamaged certificates
WinHi == 8
Nm(ty, v, local) == [ty |-> ty, v |-> v, local |-> local]
LeafHost  == <<"example", "b", "www">>
OtherHost == <<"example", "a", "www">>
LeafName  == Nm("dns", LeafHost, "")
OtherName == Nm("dns", OtherHost, "")
LeafIP    == Nm("ip", <<"192", "0", "2", "7">>, "")
LeafMail  == Nm("email", <<"example", "b", "mail">>, "user")
LeafURI   == Nm("uri", <<"example", "b", "svc">>, "")
LeafNames == {LeafName, LeafIP, LeafMail, LeafURI}
ZoneB == Nm("dns", <<"example", "b">>, "")
ZoneA == Nm("dns", <<"example", "a">>, "")
NetLeaf  == Nm("ip", <<"192", "0", "2">>, "")              \* 192.0.2.0/24
NetOther == Nm("ip", <<"10", "1">>, "")                    \* 10.1.0.0/16
BoxLeaf  == Nm("email", <<"example", "b", "mail">>, "user")   \* the mailbox user@mail.b.example
BoxOther == Nm("email", <<"example", "b", "mail">>, "other")
MailZoneB == Nm("email", <<"example", "b">>, "")           \* .b.example: mailboxes on hosts below b.example
UriZoneB == Nm("uri", <<"example", "b">>, "")              \* .b.example
UriZoneA == Nm("uri", <<"example", "a">>, "")
InterNames == <<"I1", "I2", "I3", "I4">>

(* ------------------------------------------------------------------ rules *)
IsCA(c) == c.bc = "ca"
MaySign(c) == IsCA(c) /\ (c.ku = {} \/ "certSign" \in c.ku)
InWindow(c, t) == c.nb <= t /\ t <= c.na
(* RFC 5280 4.2.1.10.  dNSName: the constraint with zero or more labels added on the left.  iPAddress: the address lies in   *)
(* the subnet (prefixes of whole octets here).  rfc822Name: a constraint with a local part names one mailbox; the form       *)
(* ".domain" (local = "", the only host-less form used here) names the mailboxes on hosts strictly below the domain.          *)
(* URI: the form ".domain": hosts strictly below the domain.                                                                  *)
Within(v, cons) == Len(cons) <= Len(v) /\ SubSeq(v, 1, Len(cons)) = cons
Matches(name, cons) ==
  /\ name.ty = cons.ty
  /\ IF name.ty \in {"dns", "ip"} THEN Within(name.v, cons.v)
     ELSE IF name.ty = "email" /\ cons.local # "" THEN name.v = cons.v /\ name.local = cons.local
     ELSE Within(name.v, cons.v) /\ Len(name.v) > Len(cons.v)
(* permitted subtrees restrict only the name forms they mention *)
NameAllowed(name, ca) == /\ \A x \in ca.exclude : ~Matches(name, x)
                         /\ ((\A p \in ca.permit : p.ty # name.ty) \/ \E p \in ca.permit : Matches(name, p))
HostsOf(c) == {n.v : n \in {n \in c.san : n.ty = "dns"}}
Link(child, parent) == /\ child.signedBy = parent.spk
                       /\ child.issuerName = parent.subj
                       /\ MaySign(parent)
EkuAllows(c, want) == want = "any" \/ c.eku = {} \/ "any" \in c.eku \/ want \in c.eku

(* a verification request *)
Req(t, eku, dns) == [t |-> t, eku |-> eku, dns |-> dns]

(* P: the certificates (sequence), ch: a sequence of ids, leaf first *)
ValidChain(P, ch, lf, rts, ints, r) ==
  LET n == Len(ch)
      C(i) == P[ch[i]]
  IN /\ n >= 1 /\ ch[1] = lf
     /\ \A i, j \in 1..n : i # j => ch[i] # ch[j]
     /\ ch[n] \in rts
     /\ \A i \in 2..(n - 1) : ch[i] \in ints
     /\ \A i \in 1..(n - 1) : Link(C(i), C(i + 1))
     /\ \A i \in 1..n : InWindow(C(i), r.t)
     /\ \A i \in 2..n : C(i).pathLen = -1 \/ (i - 2) <= C(i).pathLen          \* i-2 intermediates lie below element i
     /\ \A i \in 2..n : \A j \in 1..(i - 1) : \A nm \in C(j).san : NameAllowed(nm, C(i))
     /\ \A i \in 1..n : EkuAllows(C(i), r.eku)
     /\ (r.dns = <<>> \/ r.dns \in HostsOf(C(1)))

(* all simple paths along Link from the leaf to a trusted root, then the chain-wide rules *)
RECURSIVE LinkPaths(_, _, _, _)
LinkPaths(P, path, rts, ints) ==
  LET last == P[path[Len(path)]]
      used == {path[i] : i \in 1..Len(path)}
  IN {Append(path, x) : x \in {x \in rts \ used : Link(last, P[x])}}
     \cup UNION {LinkPaths(P, Append(path, x), rts, ints) : x \in {x \in ints \ used : Link(last, P[x])}}
ValidChains(P, lf, rts, ints, r) ==
  {ch \in (IF lf \in rts THEN {<<lf>>} ELSE {}) \cup LinkPaths(P, <<lf>>, rts, ints) : ValidChain(P, ch, lf, rts, ints, r)}
(* the same set by brute force (small instances only): every sequence of distinct ids *)
RECURSIVE Arrangements(_, _)
Arrangements(S, k) == IF k = 0 THEN {<<>>}
                      ELSE LET shorter == Arrangements(S, k - 1)
                           IN shorter \cup UNION {{Append(a, x) : x \in S \ {a[i] : i \in 1..Len(a)}} : a \in {a \in shorter : Len(a) = k - 1}}
ValidChainsBrute(P, lf, rts, ints, r) ==
  {ch \in Arrangements(DOMAIN P, Len(P)) : ch # <<>> /\ ValidChain(P, ch, lf, rts, ints, r)}

(* --------------------------------------- the algorithm of smx509/verify.go *)
GoAlreadyIn(P, c, chain) == \E i \in 1..Len(chain) : LET d == P[chain[i]] IN d.subj = c.subj /\ d.spk = c.spk /\ d.san = c.san
GoCheckSignatureFrom(child, parent) == /\ parent.bc = "ca"                                   \* v3: BasicConstraintsValid /\ IsCA
                                       /\ (parent.ku = {} \/ "certSign" \in parent.ku)
                                       /\ child.signedBy = parent.spk
GoIsValid(P, kind, c, chain, r) ==
  /\ (chain # <<>> => P[chain[Len(chain)]].issuerName = c.subj)
  /\ ~(r.t < c.nb) /\ ~(r.t > c.na)
  /\ ((kind # "leaf" /\ (c.permit # {} \/ c.exclude # {}))
        => \A i \in 1..Len(chain) : \A nm \in P[chain[i]].san : NameAllowed(nm, c))
  /\ (kind = "inter" => c.bc = "ca")
  /\ ((c.bc # "absent" /\ c.pathLen >= 0) => (Len(chain) - 1) <= c.pathLen)
RECURSIVE GoBuild(_, _, _, _, _)
GoBuild(P, chain, rts, ints, r) ==
  LET last == P[chain[Len(chain)]]
      Cand(S) == {x \in S : P[x].subj = last.issuerName /\ ~GoAlreadyIn(P, P[x], chain) /\ GoCheckSignatureFrom(last, P[x])}
  IN {Append(chain, x) : x \in {x \in Cand(rts) : GoIsValid(P, "root", P[x], chain, r)}}
     \cup UNION {GoBuild(P, Append(chain, x), rts, ints, r) : x \in {x \in Cand(ints) : GoIsValid(P, "inter", P[x], chain, r)}}
GoChainEku(P, ch, want) == want = "any" \/ \A i \in 1..Len(ch) : LET c == P[ch[i]] IN c.eku = {} \/ "any" \in c.eku \/ want \in c.eku
GoVerify(P, lf, rts, ints, r) ==
  IF ~GoIsValid(P, "leaf", P[lf], <<>>, r) THEN {}
  ELSE IF r.dns # <<>> /\ r.dns \notin HostsOf(P[lf]) THEN {}
  ELSE {ch \in (IF lf \in rts THEN {<<lf>>} ELSE GoBuild(P, <<lf>>, rts, ints, r)) : GoChainEku(P, ch, r.eku)}

(* --------------------------------------------------------- state machine *)
VARIABLES pki,     \* sequence of certificates
          roots,   \* ids of the trusted certificates
          inters,  \* ids handed to the verifier as intermediates
          leaf,    \* id of the certificate to verify (0: none yet)
          phase,   \* "cas" -> ("crossed") -> "leafed" -> "ready" -> "verifying"
          mods,    \* the modifications applied: sequence of <<kind, cert id>>
          ndef,    \* how many of them are defects (the others are harmless variations)
          nk,      \* next unused key id
          req, res \* last request and [valid |-> ValidChains, algo |-> GoVerify]
cvars == <<pki, roots, inters, leaf, phase, mods, ndef, nk, req, res>>

New(id, subj, iss, spk, by, bc, pos) ==
  [id |-> id, subj |-> subj, issuerName |-> iss, spk |-> spk, signedBy |-> by, bc |-> bc, pathLen |-> -1, nb |-> WinLo, na |-> WinHi,
   ku |-> IF bc = "ca" THEN {"certSign", "crlSign"} ELSE {"digitalSignature"}, eku |-> {}, permit |-> {}, exclude |-> {},
   san |-> {}, pos |-> pos]
NoReq == Req(0, "any", <<>>)
NoRes == [valid |-> {}, algo |-> {}]
Init == /\ pki = << New(1, "R1", "R1", 1, 1, "ca", 0) >> /\ roots = {1} /\ inters = {} /\ leaf = 0 /\ phase = "cas"
        /\ mods = <<>> /\ ndef = 0 /\ nk = 2 /\ req = NoReq /\ res = NoRes
Ids == DOMAIN pki
NextId == Len(pki) + 1
SelfSigned(c) == c.subj = c.issuerName /\ c.spk = c.signedBy

AddRoot == /\ phase = "cas" /\ inters = {} /\ Cardinality(roots) = 1
           /\ pki' = Append(pki, New(NextId, "R2", "R2", nk, nk, "ca", 0))
           /\ roots' = roots \cup {NextId} /\ nk' = nk + 1
           /\ UNCHANGED <<inters, leaf, phase, mods, ndef, req, res>>
AddInter(p) == /\ phase = "cas" /\ p \in Ids /\ IsCA(pki[p])
               /\ pki' = Append(pki, New(NextId, InterNames[Cardinality(inters) + 1], pki[p].subj, nk, pki[p].spk, "ca", pki[p].pos + 1))
               /\ inters' = inters \cup {NextId} /\ nk' = nk + 1
               /\ UNCHANGED <<roots, leaf, phase, mods, ndef, req, res>>
(* a second certificate for the subject and key of c, issued by another CA p *)
CrossSign(c, p) == /\ phase = "cas" /\ c \in Ids /\ p \in Ids /\ c # p /\ IsCA(pki[p])
                   /\ pki[p].subj # pki[c].issuerName /\ pki[p].subj # pki[c].subj
                   /\ pki' = Append(pki, [pki[c] EXCEPT !.id = NextId, !.issuerName = pki[p].subj, !.signedBy = pki[p].spk])
                   /\ inters' = inters \cup {NextId} /\ phase' = "crossed"
                   /\ UNCHANGED <<roots, leaf, mods, ndef, nk, req, res>>
AddLeaf(p) == /\ phase \in {"cas", "crossed"} /\ p \in Ids /\ IsCA(pki[p])
              /\ pki' = Append(pki, [New(NextId, "L", pki[p].subj, nk, pki[p].spk, "notca", pki[p].pos + 1) EXCEPT !.san = LeafNames])
              /\ leaf' = NextId /\ nk' = nk + 1 /\ phase' = "leafed"
              /\ UNCHANGED <<roots, inters, mods, ndef, req, res>>
SetTrust(S) == /\ phase = "leafed" /\ S # {} /\ S \subseteq roots
               /\ roots' = S /\ phase' = "ready"
               /\ UNCHANGED <<pki, inters, leaf, mods, ndef, nk, req, res>>

(* ---- modifications.  Defects: *)
Change(kind, c, newc, isDefect) ==
  /\ phase = "ready" /\ c \in Ids
  /\ pki' = [pki EXCEPT ![c] = newc]
  /\ mods' = Append(mods, <<kind, c>>) /\ ndef' = ndef + (IF isDefect THEN 1 ELSE 0)
  /\ UNCHANGED <<roots, inters, leaf, phase, nk, req, res>>
Expire(c)      == c \in Ids /\ Change("expire", c, [pki[c] EXCEPT !.na = 4], TRUE)
NotYetValid(c) == c \in Ids /\ Change("notyet", c, [pki[c] EXCEPT !.nb = 6], TRUE)
DropCA(c)      == c \in Ids /\ IsCA(pki[c]) /\ Change("dropca", c, [pki[c] EXCEPT !.bc = "notca"], TRUE)
DropBC(c)      == c \in Ids /\ IsCA(pki[c]) /\ Change("dropbc", c, [pki[c] EXCEPT !.bc = "absent"], TRUE)
WrongUsage(c)  == c \in Ids /\ IsCA(pki[c]) /\ Change("wrongku", c, [pki[c] EXCEPT !.ku = {"digitalSignature", "crlSign"}], TRUE)
(* name constraints that the leaf's names violate: a permitted subtree elsewhere (ViolateNC) / an excluded subtree around one (ExcludedNC) *)
ViolateNC(c)   == c \in Ids /\ IsCA(pki[c]) /\ Change("permitOther", c, [pki[c] EXCEPT !.permit = @ \cup {ZoneA}], TRUE)
ExcludedNC(c)  == c \in Ids /\ IsCA(pki[c]) /\ Change("excludeLeaf", c, [pki[c] EXCEPT !.exclude = @ \cup {ZoneB}], TRUE)
ViolateNCOf(ty, c) == c \in Ids /\ IsCA(pki[c]) /\ ty \in {"ip", "email", "uri"}
                      /\ Change("permitOther-" \o ty, c, [pki[c] EXCEPT !.permit = @ \cup {CASE ty = "ip" -> NetOther [] ty = "email" -> BoxOther [] OTHER -> UriZoneA}], TRUE)
ExcludedNCOf(ty, c) == c \in Ids /\ IsCA(pki[c]) /\ ty \in {"ip", "email", "uri"}
                       /\ Change("excludeLeaf-" \o ty, c, [pki[c] EXCEPT !.exclude = @ \cup {CASE ty = "ip" -> NetLeaf [] ty = "email" -> MailZoneB [] OTHER -> UriZoneB}], TRUE)
WrongEKU(c)    == c \in Ids /\ Change("wrongeku", c, [pki[c] EXCEPT !.eku = {"clientAuth"}], TRUE)
WrongIssuer(c) == c \in Ids /\ ~SelfSigned(pki[c]) /\ Change("issuerName", c, [pki[c] EXCEPT !.issuerName = "Nobody"], TRUE)
(* the signature on c was made with a key nobody in the PKI holds *)
ForgedSig(c)   == /\ phase = "ready" /\ c \in Ids /\ ~SelfSigned(pki[c])
                  /\ pki' = [pki EXCEPT ![c] = [pki[c] EXCEPT !.signedBy = nk]] /\ nk' = nk + 1
                  /\ mods' = Append(mods, <<"forged", c>>) /\ ndef' = ndef + 1
                  /\ UNCHANGED <<roots, inters, leaf, phase, req, res>>
(* the pool holds a certificate with the name of c but another key (c itself is gone) *)
ReKeySameName(c) == /\ phase = "ready" /\ c \in inters
                    /\ pki' = [pki EXCEPT ![c] = [pki[c] EXCEPT !.spk = nk]] /\ nk' = nk + 1
                    /\ mods' = Append(mods, <<"rekey", c>>) /\ ndef' = ndef + 1
                    /\ UNCHANGED <<roots, inters, leaf, phase, req, res>>
(* ... or next to c *)
ReKeyTwin(c) == /\ phase = "ready" /\ c \in inters
                /\ pki' = Append(pki, [pki[c] EXCEPT !.id = NextId, !.spk = nk]) /\ nk' = nk + 1
                /\ inters' = inters \cup {NextId}
                /\ mods' = Append(mods, <<"twin", c>>) /\ ndef' = ndef + 1
                /\ UNCHANGED <<roots, leaf, phase, req, res>>
(* a self-signed certificate with the name of the trusted root c but another key is trusted instead of c / as well *)
UnrelatedRoot(c, keep) == /\ phase = "ready" /\ c \in roots
                          /\ pki' = Append(pki, [pki[c] EXCEPT !.id = NextId, !.spk = nk, !.signedBy = nk]) /\ nk' = nk + 1
                          /\ roots' = (IF keep THEN roots ELSE roots \ {c}) \cup {NextId}
                          /\ mods' = Append(mods, <<IF keep THEN "rootTwin" ELSE "unrelatedRoot", c>>) /\ ndef' = ndef + 1
                          /\ UNCHANGED <<inters, leaf, phase, req, res>>
MissingInter(c) == /\ phase = "ready" /\ c \in inters
                   /\ inters' = inters \ {c}
                   /\ mods' = Append(mods, <<"missing", c>>) /\ ndef' = ndef + 1
                   /\ UNCHANGED <<pki, roots, leaf, phase, nk, req, res>>
(* path length k on CA c; a defect iff fewer than the `below` intermediates that hang under c are allowed *)
SetPathLen(c, k, below) == c \in Ids /\ IsCA(pki[c]) /\ k >= 0
                           /\ Change(IF k < below THEN "pathLenExceeded" ELSE "pathLenTight", c, [pki[c] EXCEPT !.pathLen = k], k < below)
(* ---- harmless variations *)
PermitLeafZone(c) == c \in Ids /\ IsCA(pki[c]) /\ Change("permitLeaf", c, [pki[c] EXCEPT !.permit = @ \cup {ZoneB}], FALSE)
ExcludeOther(c)   == c \in Ids /\ IsCA(pki[c]) /\ Change("excludeOther", c, [pki[c] EXCEPT !.exclude = @ \cup {ZoneA}], FALSE)
(* form: "ip" (the leaf's subnet), "box" (the leaf's mailbox), "maildom" (.b.example), "uri" (.b.example) *)
PermitLeafOf(form, c) == c \in Ids /\ IsCA(pki[c]) /\ form \in {"ip", "box", "maildom", "uri"}
                         /\ Change("permitLeaf-" \o form, c, [pki[c] EXCEPT !.permit = @ \cup {CASE form = "ip" -> NetLeaf [] form = "box" -> BoxLeaf
                                                                                             [] form = "maildom" -> MailZoneB [] OTHER -> UriZoneB}], FALSE)
KuAbsent(c)       == c \in Ids /\ IsCA(pki[c]) /\ Change("kuAbsent", c, [pki[c] EXCEPT !.ku = {}], FALSE)
KuCertSignOnly(c) == c \in Ids /\ IsCA(pki[c]) /\ Change("kuCertSign", c, [pki[c] EXCEPT !.ku = {"certSign"}], FALSE)
EkuServer(c)      == c \in Ids /\ Change("ekuServer", c, [pki[c] EXCEPT !.eku = {"serverAuth"}], FALSE)
EkuAny(c)         == c \in Ids /\ Change("ekuAny", c, [pki[c] EXCEPT !.eku = {"any", "clientAuth"}], FALSE)
NoSAN(c)          == c = leaf /\ c \in Ids /\ Change("noSAN", c, [pki[c] EXCEPT !.san = {}], FALSE)
DnsOnly(c)        == c = leaf /\ c \in Ids /\ Change("dnsOnly", c, [pki[c] EXCEPT !.san = {LeafName}], FALSE)
TwoNames(c)       == c = leaf /\ c \in Ids /\ Change("twoNames", c, [pki[c] EXCEPT !.san = @ \cup {OtherName}], FALSE)

Verify(r) == /\ phase \in {"ready", "verifying"} /\ phase' = "verifying"
             /\ req' = r
             /\ res' = [valid |-> ValidChains(pki, leaf, roots, inters, r), algo |-> GoVerify(pki, leaf, roots, inters, r)]
             /\ UNCHANGED <<pki, roots, inters, leaf, mods, ndef, nk>>

(* ------------------------------------------------ the property on the model *)
(* one trusted root, no cross-signature, no twin: the chain leaf - I_n - ... - I_1 - R1 is the only candidate *)
Linear == /\ Cardinality(roots) = 1 /\ Len(pki) = Cardinality(inters) + 2
          /\ \A i \in Ids : pki[i].pos = (IF i \in roots THEN 0 ELSE i - 1) /\ (i \in roots \/ i \in inters \/ i = leaf)
ChainSound == phase = "verifying" => res.algo \subseteq res.valid
NoChainWhenNoneValid == (phase = "verifying" /\ res.valid = {}) => res.algo = {}
Complete == (phase = "verifying" /\ Linear /\ ndef = 0 /\ res.valid # {}) => res.algo # {}
(* a leaf is never accepted under a root that did not (transitively) sign it: every link of a valid chain is a signature *)
RootSignedTransitively == phase = "verifying" =>
   \A ch \in res.valid : ch[Len(ch)] \in roots /\ \A i \in 1..(Len(ch) - 1) : pki[ch[i]].signedBy = pki[ch[i + 1]].spk
(* the recursion over Link enumerates exactly the chains of the definition (checked on small instances) *)
EnumAgrees == phase = "verifying" => res.valid = ValidChainsBrute(pki, leaf, roots, inters, req)
(* sanity of the model: an undamaged linear PKI inside the window has its chain *)
UndamagedHasChain == (phase = "verifying" /\ Linear /\ ndef = 0 /\ req.t >= WinLo /\ req.t <= WinHi /\ (req.dns = <<>> \/ req.dns \in HostsOf(pki[leaf]))
                      /\ (\A m \in 1..Len(mods) : mods[m][1] \notin {"twoNames"}))
                     => res.valid # {}
=============================================================================
