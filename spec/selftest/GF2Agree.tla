------------------------------ MODULE GF2Agree ------------------------------
(* The Java override of GF2!MulBR agrees with its TLA+ definition (module       *)
(* GF2Pure is a textual copy under another name, which the override does not    *)
(* capture) on a seeded sample and on the field identities.                     *)
EXTENDS Integers, Sequences, TLC
CONSTANT Seed
J == INSTANCE GF2
P == INSTANCE GF2Pure
R == INSTANCE Prng
X(i) == R!Bytes(Seed, 700 + i, 16)
ASSUME \A i \in 1..12 : J!MulBR(X(i), X(i + 20)) = P!MulBR(X(i), X(i + 20))
ASSUME \A i \in 1..4 : J!MulBR(X(i), J!One16) = X(i) /\ J!MulBR(X(i), J!InvBR(X(i))) = J!One16
ASSUME J!MulBR(J!One16, J!One16) = J!One16
ASSUME PrintT("GF2Agree ok")
VARIABLE x
Init == x = 0
Next == UNCHANGED x
Spec == Init /\ [][Next]_x
=============================================================================
