------------------------------ MODULE MC_C15obj ------------------------------
(* C15, objects: bounded instance of obj/CertObj.  One behaviour:                *)
(*   Pick(scenario) -> Create -> Parse -> CheckSignature | SwapIssuerKey(how, kt) *)
(*                                     | Tamper(region, class, mask)              *)
(* A scenario is (object kind, template, signer key type, subject key type, mode). *)
(* Templates come from a generator of field-presence patterns: the each-choice     *)
(* family (a base template varied in one dimension at a time, every value of every *)
(* dimension) and NRandom seeded combinations per kind; CSR / CRL / CFCA spaces     *)
(* are small and enumerated completely.  Tamper(region, class, mask) stands for     *)
(* EVERY byte position p of the region with p % Modulus = class (the region's       *)
(* length is a fact of the real encoding; the replayer locates the region in the     *)
(* parsed object): the replayer xors `mask` into each such byte in turn.             *)
(* Every terminal action writes the history with the outcome set CertObj admits.     *)
EXTENDS Integers, Sequences, FiniteSets, TLC, Json
CONSTANTS Seed,
          Modes,        \* subset of {"fields", "tamper"}
          KindsOn,      \* subset of CertObj!Kinds
          Signers,      \* subset of key types used as signer
          NRandom,      \* seeded random certificate templates
          AllCombos,    \* BOOLEAN: each-choice certificate templates x all 16 (signer, subject key) pairs, else a diagonal
          TbsMasks, SigMasks, Modulus,
          TamperRich,   \* subset of {"rich", "plain"}: templates whose encodings are tampered with
          OutFile
R  == INSTANCE Prng
Hx == INSTANCE Hex
Em == INSTANCE Emit
VARIABLES o, cur, ph, out, sc, hist
C == INSTANCE CertObj
vars == <<o, cur, ph, out, sc, hist>>
View == <<o, cur, ph, out, sc>>

KT == <<"sm2", "ecdsa", "rsa", "ed25519">>
RECURSIVE SeqOf(_)
SeqOf(S) == IF S = {} THEN <<>> ELSE LET x == CHOOSE y \in S : TRUE IN <<x>> \o SeqOf(S \ {x})

(* ------------------------------------------------ certificate templates *)
SanKinds == {"dns", "ip", "email", "uri"}
CertDims == [subject |-> {"cn", "full", "utf8", "empty"},
             san     |-> SUBSET SanKinds,
             ku      |-> {"none", "ds", "dske", "ca", "all9"},
             eku     |-> {"none", "server", "serverclient", "any", "all", "unknown"},
             bc      |-> {"absent", "notca", "ca", "ca1", "ca0"},
             ski     |-> {"auto", "given"},
             nc      |-> {"none", "dnsP", "dnsE", "ipP", "emailP", "uriE", "allCrit"},
             pol     |-> {"none", "one", "two"},
             serial  |-> {"one", "small", "hi", "long20", "long20hi"},
             time    |-> {"utc", "gen", "mixed", "utc1950", "pre1950", "y2k", "far"},     \* both ends and the pivot of the UTCTime window 1950..2049
             aia     |-> {"none", "both"},
             crldp   |-> {"none", "one", "two"},
             extra   |-> {"none", "one"},
             issued  |-> {"self", "ca"}]
CertDimSeq == [d \in DOMAIN CertDims |-> SeqOf(CertDims[d])]
DimNo(d) == CHOOSE i \in 1..Len(SeqOf(DOMAIN CertDims)) : SeqOf(DOMAIN CertDims)[i] = d
CertBase == [subject |-> "cn", san |-> {"dns"}, ku |-> "ds", eku |-> "none", bc |-> "notca", ski |-> "auto", nc |-> "none", pol |-> "none",
             serial |-> "small", time |-> "utc", aia |-> "none", crldp |-> "none", extra |-> "none", issued |-> "ca"]
(* what the API documents as preconditions: an empty subject needs a SAN; name constraints belong to CAs *)
Fix(t) == LET t1 == IF t.subject = "empty" /\ t.san = {} THEN [t EXCEPT !.san = {"dns"}] ELSE t
          IN IF t1.nc # "none" /\ t1.bc \in {"absent", "notca"} THEN [t1 EXCEPT !.bc = "ca"] ELSE t1
EachChoice == UNION {{Fix([CertBase EXCEPT ![d] = v]) : v \in CertDims[d]} : d \in DOMAIN CertDims}
RandomT(i) == Fix([d \in DOMAIN CertDims |-> CertDimSeq[d][R!Pick(Seed, 400 + DimNo(d), i, Len(CertDimSeq[d])) + 1]])
CertRich == [subject |-> "full", san |-> SanKinds, ku |-> "all9", eku |-> "unknown", bc |-> "ca1", ski |-> "given", nc |-> "allCrit", pol |-> "two",
             serial |-> "long20hi", time |-> "mixed", aia |-> "both", crldp |-> "two", extra |-> "one", issued |-> "ca"]

(* --------------------------------------------------- the other objects *)
CsrTemplates  == [subject : {"cn", "full", "utf8", "empty"}, san : SUBSET SanKinds, extra : {"none", "one"}]
CsrRich       == [subject |-> "full", san |-> SanKinds, extra |-> "one"]
CsrPlain      == [subject |-> "cn", san |-> {}, extra |-> "none"]
CrlTemplates  == [number : {"small", "long19", "long20"}, entries : {"none", "one", "three"}, reason : {"zero", "set"}, next : {"utc", "gen"}, extra : {"none", "one"}]
CrlRich       == [number |-> "long20", entries |-> "three", reason |-> "set", next |-> "gen", extra |-> "one"]
CrlPlain      == [number |-> "small", entries |-> "none", reason |-> "zero", next |-> "utc", extra |-> "none"]
CrlOldTemplates == [entries : {"none", "one", "three"}, next : {"utc", "gen"}]
CrlOldRich    == [entries |-> "three", next |-> "gen"]
CfcaTemplates == [subject : {"cn", "full", "utf8"}, tmp : {"with", "without"}, pass : {"printable", "utf8"}]
CfcaRich      == [subject |-> "full", tmp |-> "with", pass |-> "utf8"]
CsrRspTemplates == [nsign : {"one", "two"}, leaf : {"minimal", "rich"}, enc : {"with", "without"}]   \* sign chain [leaf] / [leaf, CA]; SM2 only
CfcaSigners(t) == IF t.tmp = "with" THEN {"sm2", "rsa"} ELSE {"sm2", "ecdsa", "rsa", "ed25519"}     \* the documented domain of the CFCA format

Sc(kind, tmpl, s, k, mode) == [kind |-> kind, tmpl |-> tmpl, signer |-> s, subj |-> k, mode |-> mode]
NextType(s) == CASE s = "sm2" -> "ecdsa" [] s = "ecdsa" -> "rsa" [] s = "rsa" -> "ed25519" [] OTHER -> "sm2"
KeyPairs(t, i) == IF t.issued = "self" THEN {<<s, s>> : s \in Signers}
                  ELSE IF AllCombos THEN Signers \X C!KeyTypes
                  ELSE {<<s, KT[((i + (CHOOSE j \in 1..4 : KT[j] = s)) % 4) + 1]>> : s \in Signers}
FieldScenarios ==
  (IF "cert" \in KindsOn
   THEN UNION {{Sc("cert", t, p[1], p[2], "fields") : p \in KeyPairs(t, 0)} : t \in EachChoice}
        \cup UNION {{Sc("cert", RandomT(i), p[1], p[2], "fields") : p \in {<<s, KT[R!Pick(Seed, 399, i, 4) + 1]>> : s \in {KT[R!Pick(Seed, 398, i, 4) + 1]} \cap Signers}} : i \in 1..NRandom}
   ELSE {})
  \cup (IF "csr" \in KindsOn THEN {Sc("csr", t, s, s, "fields") : t \in CsrTemplates, s \in Signers} ELSE {})
  \cup (IF "crl" \in KindsOn THEN {Sc("crl", t, s, s, "fields") : t \in CrlTemplates, s \in Signers} ELSE {})
  \cup (IF "crlold" \in KindsOn THEN {Sc("crlold", t, s, s, "fields") : t \in CrlOldTemplates, s \in Signers} ELSE {})
  \cup (IF "cfca" \in KindsOn THEN UNION {{Sc("cfca", t, s, s, "fields") : s \in CfcaSigners(t) \cap Signers} : t \in CfcaTemplates} ELSE {})
ContainerScenarios == IF "csrrsp" \in KindsOn /\ "sm2" \in Signers THEN {Sc("csrrsp", t, "sm2", "sm2", "container") : t \in CsrRspTemplates} ELSE {}
TamperScenarios ==
  (IF "cert" \in KindsOn THEN {Sc("cert", t, s, NextType(s), "tamper") : s \in Signers,
                                  t \in (IF "rich" \in TamperRich THEN {CertRich} ELSE {}) \cup (IF "plain" \in TamperRich THEN {CertBase} ELSE {})} ELSE {})
  \cup (IF "csr" \in KindsOn THEN {Sc("csr", t, s, s, "tamper") : s \in Signers,
                                     t \in (IF "rich" \in TamperRich THEN {CsrRich} ELSE {}) \cup (IF "plain" \in TamperRich THEN {CsrPlain} ELSE {})} ELSE {})
  \cup (IF "crl" \in KindsOn THEN {Sc("crl", t, s, s, "tamper") : s \in Signers,
                                     t \in (IF "rich" \in TamperRich THEN {CrlRich} ELSE {}) \cup (IF "plain" \in TamperRich THEN {CrlPlain} ELSE {})} ELSE {})
  \cup (IF "crlold" \in KindsOn THEN {Sc("crlold", CrlOldRich, s, s, "tamper") : s \in Signers} ELSE {})
  \cup (IF "cfca" \in KindsOn THEN {Sc("cfca", CfcaRich, s, s, "tamper") : s \in {"sm2", "rsa"} \cap Signers} ELSE {})
Scenarios == (IF "fields" \in Modes THEN FieldScenarios \cup ContainerScenarios ELSE {}) \cup (IF "tamper" \in Modes THEN TamperScenarios ELSE {})

(* data the template classes stand for, where the specification fixes the value: serial / CRL numbers *)
SerialBytes(cls, salt) ==
  CASE cls = "one" -> <<1>>
    [] cls = "small" -> <<(R!ByteAt(Seed, 77, salt) % 127) + 1, R!ByteAt(Seed, 78, salt)>>
    [] cls = "hi" -> <<128 + (R!ByteAt(Seed, 79, salt) % 128)>> \o SubSeq(R!Bytes(Seed, 80 + (salt % 7), 7), 1, 7)
    [] cls = "long19" -> <<200>> \o SubSeq(R!Bytes(Seed, 90 + (salt % 7), 18), 1, 18)
    [] cls = "long20" -> <<127>> \o SubSeq(R!Bytes(Seed, 100 + (salt % 7), 19), 1, 19)
    [] OTHER -> <<255>> \o SubSeq(R!Bytes(Seed, 110 + (salt % 7), 19), 1, 19)            \* long20hi: 21 octets once encoded
Salt(s) == (CHOOSE j \in 1..4 : KT[j] = s.signer) + 4 * (CHOOSE j \in 1..4 : KT[j] = s.subj)
NumberOf(s) == IF s.kind = "cert" THEN SerialBytes(s.tmpl.serial, Salt(s)) ELSE IF s.kind = "crl" THEN SerialBytes(s.tmpl.number, Salt(s)) ELSE <<>>

Init == C!Init /\ sc \in Scenarios /\ hist = <<>>
Emit(h) == Em!Line(OutFile, ToJson([fam |-> "x509obj", steps |-> h]))
Create == /\ C!Create(sc.kind, sc.tmpl, sc.signer, sc.subj)
          /\ hist' = << [op |-> "create", kind |-> sc.kind, signer |-> sc.signer, subj |-> sc.subj, tmpl |-> sc.tmpl, number |-> Hx!FromBytes(NumberOf(sc))] >>
          /\ UNCHANGED sc
Parse == /\ C!Parse
         /\ hist' = Append(hist, [op |-> "parse", expect |-> C!Fields(o), number |-> Hx!FromBytes(NumberOf(sc))])
         /\ UNCHANGED sc
         /\ (IF sc.mode = "container" THEN Emit(hist') ELSE TRUE)
Check == /\ sc.mode = "fields" /\ C!CheckSignature
         /\ hist' = Append(hist, [op |-> "checksig", allowed |-> out'])
         /\ UNCHANGED sc /\ Emit(hist')
Swap(how, kt) == /\ sc.mode = "fields" /\ C!SwapIssuerKey(how, kt)
                 /\ hist' = Append(hist, [op |-> "swapkey", how |-> how, kt |-> kt, allowed |-> out'])
                 /\ UNCHANGED sc /\ Emit(hist')
Tamper(region, cls, mask) ==
  /\ sc.mode = "tamper" /\ cls < Modulus /\ mask \in (IF region = "tbs" THEN TbsMasks ELSE SigMasks)
  /\ C!Tamper(region, cls, mask)
  /\ hist' = Append(hist, [op |-> "tamper", region |-> region, cls |-> cls, mod |-> Modulus, mask |-> mask, allowed |-> out'])
  /\ UNCHANGED sc /\ Emit(hist')
Next == \/ Create \/ Parse \/ Check
        \/ \E how \in {"other", "subject"}, kt \in C!KeyTypes : Swap(how, kt)
        \/ \E region \in {"tbs", "sig"}, cls \in 0..(Modulus - 1), mask \in TbsMasks \cup SigMasks : Tamper(region, cls, mask)
Spec == Init /\ [][Next]_vars

CreateParses == C!CreateParses
FieldsPreserved == C!FieldsPreserved
TamperFails == C!TamperFails
=============================================================================
