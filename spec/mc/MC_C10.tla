------------------------------- MODULE MC_C10 -------------------------------
(* Bounded instances of obj/Sm9Sys.tla (C10).  The constants select a family of  *)
(* behaviours (a shard); empty sets switch a family off.  Emission style:         *)
(* transition cover - every action appends the history so far with the reply the   *)
(* specification computes (Sm9Sys!Emit); hist is outside the VIEW.                 *)
EXTENDS Sm9Sys
CONSTANTS MaxArts,            \* artefacts alive in one behaviour
          Masters,            \* which master keys exist: subset of {"s", "e"}
          MasterClasses,      \* classes of master scalars: "one" "nm2" "r1" "r2"
          UidLens, Hids,      \* identities (lengths; contents from Prng) and hid bytes
          CodecKinds,         \* key kinds whose encodings are decoded: subset of Kinds
          SignHows, MLens,    \* signature entry points ("func" "asn1" "method") and message lengths
          WrapHows, KLens,    \* encapsulation entry points ("func" "method") and key lengths
          ModeSet, EncSet,    \* encryption modes and encodings ("raw" "asn1")
          RCs,                \* nonce classes: "one" "nm1" "r1" "r2" "r3"
          Variants,           \* consumer variants tried: subset of IdVariants \cup KeyVariants \cup {"wrongmsg", "longmsg"}
          Tamper,             \* BOOLEAN: single-byte alterations (positions: Sm9Sys!TamperAll, masks: Masks)
          KxLens, KxKLens, KxVars    \* key exchange: identity lengths (A and B range over it), key lengths, variants

(* a producer runs only if a consumer can still follow it *)
Room == nops + 1 < MaxOps /\ Len(arts) < MaxArts
TamperVariants(lay) == IF Tamper THEN {[v |-> "tamper", pos |-> p, mask |-> m] : p \in Positions(lay), m \in Masks} ELSE {}
Named(vs) == {[v |-> x] : x \in vs}
ConfPos == IF TamperAll THEN 0..31 ELSE {0, 31}

Next ==
  \/ nops + 1 < MaxOps /\ \E w \in Masters, c \in MasterClasses : GenMaster(w, c)
  \/ \E k \in CodecKinds, u \in UidLens, h \in Hids : \E f \in FormsOf(k) :
        /\ (k \in {"smpriv", "smpub", "empriv", "empub"}) => (u = (CHOOSE x \in UidLens : TRUE) /\ h = (CHOOSE x \in Hids : TRUE))      \* no identity in these
        /\ Codec(k, f, u, h)
  \/ \E k \in CodecKinds \cap {"supriv", "eupriv"}, u \in UidLens, h \in Hids : \E f \in FormsOf(k) : UseKey(k, f, u, h)
  \/ Room /\ \E u \in UidLens, h \in Hids, n \in MLens, rc \in RCs, how \in SignHows : Sign(u, h, 1, n, rc, how)
  \/ \E a \in 1..Len(arts) : arts[a].t = "sig"
        /\ \E vh \in (IF arts[a].how = "func" THEN {"func"} ELSE {"asn1", "method"}) :
             \E v \in Named(Variants \cap (IdVariants \cup {"wrongmsg", "longmsg"})) \cup TamperVariants(SigLayout(arts[a].how)) : Verify(a, v, vh)
  \/ Room /\ \E u \in UidLens, h \in Hids, kl \in KLens, rc \in RCs, how \in WrapHows : Wrap(u, h, kl, rc, how)
  \/ \E a \in 1..Len(arts) : arts[a].t = "wrap"
        /\ \E v \in Named(Variants \cap KeyVariants) \cup TamperVariants(WrapLayout(arts[a].how)) : Unwrap(a, v)
  \/ Room /\ \E u \in UidLens, h \in Hids, n \in MLens, mode \in ModeSet, enc \in EncSet, rc \in RCs : Encrypt(u, h, 2, n, mode, enc, rc)
  \/ \E a \in 1..Len(arts) : arts[a].t = "ct"
        /\ \E v \in Named(Variants \cap KeyVariants) \cup TamperVariants(CtLayout(arts[a].enc, arts[a].mode, Len(arts[a].msg))) : Decrypt(a, v)
  \/ Room /\ \E ua \in KxLens, ub \in KxLens, h \in Hids : KxSetup(ua, ub, h)
  \/ \E a \in 1..Len(arts), kl \in KxKLens, cf \in BOOLEAN, vv \in KxVars : arts[a].t = "kxs" /\
        \/ (vv \in {"ok", "wrongpeer_a", "wrongpeer_b"} /\ KxRun(a, kl, cf, [v |-> vv]))
        \/ (vv \in {"tamper_ra", "tamper_rb"} /\ Tamper /\ \E p \in Positions(WrapLayout("func")), m \in Masks : KxRun(a, kl, cf, [v |-> vv, pos |-> p, mask |-> m]))
        \/ (vv \in {"tamper_sb", "tamper_sa"} /\ Tamper /\ cf /\ \E p \in ConfPos, m \in Masks : KxRun(a, kl, cf, [v |-> vv, pos |-> p, mask |-> m]))
Spec == Init /\ [][Next]_vars

TypeOK == nops \in 0..MaxOps /\ Len(hist) = nops
=============================================================================
