------------------------------- MODULE EeaImpl -------------------------------
(* Implementation-shaped sibling of EeaObj: a transcription of the            *)
(* *bookkeeping* of internal/zuc/eea.go (struct eea: x, xLen, used, states,    *)
(* bucketSize; XORKeyStream's three phases, reset, seek, appendState) with     *)
(* positions as integers and no cryptography.  It never gives a verdict about  *)
(* the code; MC_C11impl checks that this design refines EeaObj (pos |-> used)  *)
(* and keeps its invariants, for every bounded history.                        *)
(*                                                                            *)
(* The LFSR state is represented by P, the absolute position of the next       *)
(* keystream byte it will generate; a saved state is the P it was saved at.    *)
(* The buffer x[0..xLen) holds the keystream bytes of positions                *)
(* xFrom .. xFrom + xLen - 1.  out lists, for every byte the call wrote, the   *)
(* absolute keystream position of the byte it was XORed with.                  *)
EXTENDS Integers, Sequences
CONSTANT R                 \* RoundBytes: 128 in the code; also checked scaled down to 4

VARIABLE c                 \* [xFrom, xLen, used, P, states, bucket, out, bad]

Span(a, n) == SubSeq([i \in 1..n |-> a + i - 1], 1, n)          \* positions a .. a + n - 1
Min2(a, b) == IF a < b THEN a ELSE b

(* NewCipher / NewCipherWithBucketSize: the bucket size is rounded up to a multiple of RoundBytes *)
New(b) == [xFrom |-> 0, xLen |-> 0, used |-> 0, P |-> 0, states |-> <<0>>,
           bucket |-> IF b > 0 THEN ((b + R - 1) \div R) * R ELSE 0, out |-> <<>>, bad |-> FALSE]

AppendState(s) == [s EXCEPT !.states = Append(@, s.P)]           \* state := c.zucState32; append(&state)

(* ---- XORKeyStream(dst, src), len(src) = n ---- *)
(* for len(src) >= RoundBytes { genKeyStreamRev32; XOR; used += 128; if bucketSize > 0 && used >= next { appendState; next += bucketSize } } *)
RECURSIVE XorLoop(_, _, _)
XorLoop(s, n, next) ==
  IF n < R THEN <<s, n, next>>
  ELSE LET s1  == [s EXCEPT !.out = @ \o Span(s.P, R), !.P = @ + R, !.used = @ + R]
           app == s.bucket > 0 /\ s1.used >= next
       IN  XorLoop(IF app THEN AppendState(s1) ELSE s1, n - R, IF app THEN next + s.bucket ELSE next)
XorTail(s, n, next) ==     \* remaining := len(src); if remaining > 0 { ... }
  IF n = 0 THEN s
  ELSE LET s1 == [s EXCEPT !.out = @ \o Span(s.P, n), !.P = @ + R, !.xLen = R - n, !.xFrom = s.P + n]
           s2 == IF s.bucket > 0 /\ s.used + R >= next THEN AppendState(s1) ELSE s1
       IN  [s2 EXCEPT !.used = @ + n]
XorRounds(s, n) ==
  LET l == XorLoop(s, n, s.bucket * Len(s.states))
  IN  XorTail(l[1], l[2], l[3])
XorKeyStream(s, n) ==
  IF s.xLen > 0
  THEN LET m  == Min2(n, s.xLen)                                  \* n := subtle.XORBytes(dst, src, c.x[:c.xLen])
           s1 == [s EXCEPT !.out = @ \o Span(s.xFrom, m), !.xLen = @ - m, !.used = @ + m]
       IN  IF s1.xLen > 0 THEN [s1 EXCEPT !.xFrom = @ + m]        \* copy(c.x[:], c.x[n:c.xLen+n]); return
           ELSE XorRounds(s1, n - m)
  ELSE XorRounds(s, n)

(* ---- reset(offset): back to the saved state of the bucket that contains offset ---- *)
Reset(s, offset) ==
  LET n == IF s.bucket > 0 THEN offset \div s.bucket ELSE 0
  IN  IF n + 1 > Len(s.states) THEN [s EXCEPT !.bad = TRUE]       \* c.states[n] would be out of range
      ELSE [s EXCEPT !.P = s.states[n + 1], !.xLen = 0, !.used = n * s.bucket]

(* ---- seek(offset) ---- *)
RECURSIVE SeekLoop(_, _, _)
SeekLoop(s, gap, next) ==
  IF gap < R THEN <<s, gap, next>>
  ELSE LET s1  == [s EXCEPT !.P = @ + R, !.used = @ + R]
           app == s.bucket > 0 /\ s1.used >= next
       IN  SeekLoop(IF app THEN AppendState(s1) ELSE s1, gap - R, IF app THEN next + s.bucket ELSE next)
SeekTail(s, gap, next) ==
  IF gap = 0 THEN s
  ELSE LET s1 == [s EXCEPT !.P = @ + R, !.xLen = R - gap, !.xFrom = s.P + gap]
           s2 == IF s.bucket > 0 /\ s.used + R >= next THEN AppendState(s1) ELSE s1
       IN  [s2 EXCEPT !.used = @ + gap]
Seek(s0, offset) ==
  LET s == IF offset < s0.used THEN Reset(s0, offset) ELSE s0
  IN  IF s.bad \/ offset = s.used THEN s
      ELSE LET gap == offset - s.used
           IN  IF gap <= s.xLen                                    \* offset is within the remaining key bytes
               THEN [s EXCEPT !.xLen = @ - gap, !.used = @ + gap, !.xFrom = IF s.xLen - gap > 0 THEN @ + gap ELSE @]
               ELSE LET s1 == IF s.xLen > 0 THEN [s EXCEPT !.used = @ + s.xLen, !.xLen = 0] ELSE s
                        g1 == gap - s.xLen
                        l  == SeekLoop(s1, g1, s1.bucket * Len(s1.states))
                    IN  SeekTail(l[1], l[2], l[3])

(* ---- the public calls ---- *)
IInit(b) == c = New(b)
IXORKeyStream(n)        == c' = XorKeyStream([c EXCEPT !.out = <<>>], n)
IXORKeyStreamAt(off, n) == c' = LET s == Seek([c EXCEPT !.out = <<>>], off)
                                IN  IF s.bad THEN s ELSE XorKeyStream(s, n)

(* ---- what the design relies on ---- *)
Coherent    == c.P = c.used + c.xLen                  \* the LFSR is exactly xLen bytes ahead of the position
XAligned    == c.xLen > 0 => c.xFrom = c.used         \* the buffer starts at the current position
XLenRange   == c.xLen >= 0 /\ c.xLen < R
UsedAligned == c.xLen = 0 => c.used % R = 0
Checkpoints == \A i \in 1..Len(c.states) : c.states[i] = (i - 1) * c.bucket      \* states[i] is the state at i * bucketSize
NoBadIndex  == ~c.bad                                 \* reset never indexes outside states
=============================================================================
