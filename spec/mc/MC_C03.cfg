CONSTANTS Seed = 1
 Ciphers = {"sm4","toy16"}
 ModeSet = {"block","ecb","cbc","cfb","ofb","ctr","bc","ofbnlf","xts","gbxts","hctr"}
 StreamLens = {0,1,15,16,17,33}
 BlockLens = {0,16,48}
 EcbLens = {16,64,80}
 XtsLens = {16,17,31,32,33,65}
 HctrLens = {16,17,24,31,32,33,60}
 CarryBs = {1,2}
 Cuts = {1,16,17,32}
 MaxCalls = 3
 Bufs = {}
 OutFile = "/tmp/vs/c03.ndjson"
SPECIFICATION Spec
VIEW View
INVARIANTS TypeOK LenPreserved RoundTrip
CHECK_DEADLOCK FALSE
