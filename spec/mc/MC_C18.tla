------------------------------- MODULE MC_C18 -------------------------------
(* C18: a caller-owned buffer that is padded and unpadded.  State: block size, *)
(* the buffer's bytes, how many operations were applied.  Actions: Pad(s),    *)
(* Unpad(s) for each scheme.  TLC explores every history up to the depth bound *)
(* from every initial case, checks the property on the definitions (Inv,      *)
(* Whole, AcceptOnly as invariants over the explored states) and emits, for    *)
(* every transition, the history with the reply the definition gives; the      *)
(* replayer runs each history against padding.New*Padding(bs).                 *)
EXTENDS Integers, Sequences, FiniteSets, TLC, Json
CONSTANTS Seed,      \* data seed
          BSet,      \* block sizes for message cases
          FullLen,   \* block sizes <= FullLen get every length 0..3bs+1, larger ones the seam lengths
          StrBS,     \* block sizes whose strings over the small alphabet are enumerated (accept set)
          HdrBS,     \* block sizes whose length-block candidates are enumerated
          OutFile
P  == INSTANCE Padding
BN == INSTANCE BigNat
B  == INSTANCE Bytes
R  == INSTANCE Prng
Hx == INSTANCE Hex
Em == INSTANCE Emit

VARIABLES bs, data, depth, kind, hist
vars == <<bs, data, depth, kind, hist>>
View == <<bs, data, depth, kind>>

Lens(b) == IF b <= FullLen THEN 0..(3 * b + 1)
           ELSE {0, 1, b - 1, b, b + 1, 2 * b - 1, 2 * b, 2 * b + 1, 3 * b - 1, 3 * b, 3 * b + 1,
                 R!Pick(Seed, 77, b, 3 * b + 2)}
(* message contents: pseudo-random, or pseudo-random with a padding-like tail *)
Tails(b) == {<<>>, <<128>>, <<0>>, <<b>>, <<1>>, <<128, 0>>, <<0, 0>>, <<2, 2>>, <<0, 2>>, <<0, 0, 3>>}
Msg(b, n, t) == IF Len(t) > n THEN R!Bytes(Seed, 1000 + b, n)
                ELSE R!Bytes(Seed, 1000 + b, n - Len(t)) \o t
MsgCases == UNION {{<<b, Msg(b, n, t)>> : n \in Lens(b), t \in Tails(b)} : b \in BSet}   \* a set: duplicates merge
Alphabet(b) == {0, 1, 2, 128, b}
StrLens(b) == IF b = 1 THEN {1, 2, 3, 4} ELSE IF b = 2 THEN {2, 4, 6} ELSE {b, 2 * b}

(* length-block candidates for method 3 (and hostile input for the others): a first block announcing a bit length from  *)
(* the boundary classes - around the true body length, 0, tiny, 2^32, 2^56, 2^63 and 2^64 - 8 b j +- 8 (sums that wrap a   *)
(* 64-bit counter) - in front of 1 or 2 body blocks that end in zeros; for blocks wider than 8 bytes also with FF in front *)
Two64 == <<1, 0, 0, 0, 0, 0, 0, 0, 0>>
HdrSmall(b, k) == {v \in {0, 1, 7, 8, 8 * k * b - 16, 8 * k * b - 9, 8 * k * b - 8, 8 * k * b - 7, 8 * k * b - 1, 8 * k * b, 8 * k * b + 1,
                          8 * k * b + 8, 8 * (k + 1) * b, 8 * (k * b - 9)} : v >= 0}
HdrBig(b, k) == ({BN!ToFixed(BN!Sub(Two64, BN!FromInt(8 * b * j + d)), 8) : j \in 0..3, d \in {0, 8, 1}} \ {BN!ToFixed(Two64, 8)})
                \cup {<<128, 0, 0, 0, 0, 0, 0, 0>>, <<128, 0, 0, 0, 0, 0, 0, 8>>, <<0, 0, 0, 1, 0, 0, 0, 0>>, <<0, 0, 0, 1, 0, 0, 0, 8>>,
                      <<1, 0, 0, 0, 0, 0, 0, 0>>, <<255, 255, 255, 255, 255, 255, 255, 255>>, <<255, 255, 255, 255, 255, 255, 255, 248>>}
Hdr8(b, k) == {B!I2OSP(v \div 16777216, 5) \o B!I2OSP(v % 16777216, 3) : v \in HdrSmall(b, k)} \cup {x \in HdrBig(b, k) : Len(x) = 8}
HdrBlock(b, v8, ff) == IF b >= 8 THEN SubSeq([i \in 1..(b - 8) |-> IF ff THEN 255 ELSE 0], 1, b - 8) \o v8 ELSE SubSeq(v8, 9 - b, 8)
HdrBody(b, k) == LET z == IF b > 9 THEN 9 ELSE b - 1 IN R!Bytes(Seed, 1500 + b, k * b - z) \o B!Zeros(z)
HdrCases == UNION {UNION {{<<b, HdrBlock(b, v8, ff) \o HdrBody(b, k)>> : v8 \in Hdr8(b, k), ff \in {FALSE, b > 8}} : k \in {1, 2}} : b \in HdrBS}

Init ==
  \/ \E c \in HdrCases :
        /\ bs = c[1] /\ data = c[2] /\ depth = 0 /\ kind = "str"
        /\ hist = << [op |-> "init", bs |-> c[1], data |-> Hx!FromBytes(c[2]), spare |-> 0] >>
  \/ \E c \in MsgCases :
        /\ bs = c[1] /\ data = c[2] /\ depth = 0 /\ kind = "msg"
        /\ hist = << [op |-> "init", bs |-> c[1], data |-> Hx!FromBytes(c[2]),
                      spare |-> R!Pick(Seed, 5, Len(c[2]) + c[1], 3) * (c[1] + 1 + (Len(c[2]) % 7))] >>
  \/ \E b \in StrBS : \E n \in StrLens(b) : \E f \in [1..n -> Alphabet(b)] :
        /\ bs = b /\ data = f /\ depth = 0 /\ kind = "str"
        /\ hist = << [op |-> "init", bs |-> b, data |-> Hx!FromBytes(f), spare |-> 0] >>

MaxDepth == IF kind = "str" THEN 2 ELSE IF bs <= 8 THEN 3 ELSE 2

Step(ev) == /\ hist' = Append(hist, ev)
            /\ Em!Line(OutFile, ToJson([fam |-> "padding", steps |-> hist']))

DoPad(s) ==
  /\ depth < MaxDepth
  /\ Len(data) <= 3 * bs + 1 + 2 * bs
  /\ P!InDomain(s, bs, data)
  /\ (kind = "str" => depth = 1)             \* accept-set cases: only re-pad what was unpadded
  /\ data' = P!Pad(s, bs, data)
  /\ depth' = depth + 1
  /\ UNCHANGED <<bs, kind>>
  /\ Step([op |-> "pad", s |-> s, exp |-> Hx!FromBytes(data')])

DoUnpad(s) ==
  /\ depth < MaxDepth
  /\ (kind = "str" => depth = 0)
  /\ LET r == P!Unpad(s, bs, data)
     IN /\ data' = IF r.err THEN data ELSE r.msg
        /\ depth' = IF r.err THEN MaxDepth ELSE depth + 1       \* a refused string ends the history
        /\ UNCHANGED <<bs, kind>>
        /\ Step([op |-> "unpad", s |-> s, err |-> r.err,
                 exp |-> IF r.err THEN "" ELSE Hx!FromBytes(r.msg)])

Next == \E s \in P!Schemes : DoPad(s) \/ DoUnpad(s)
Spec == Init /\ [][Next]_vars

(* ---- C18 stated on the model ---- *)
(* every buffer the machine reaches is a message or a candidate string: the three clauses hold for it *)
InvAll        == \A s \in P!Schemes : P!Inv(s, bs, data)
WholeAll      == \A s \in P!Schemes : P!InDomain(s, bs, data) => P!Whole(s, bs, data)
AcceptOnlyAll == \A s \in P!Schemes : (Len(data) > 0 /\ Len(data) % bs = 0) => P!AcceptOnly(s, bs, data)
TypeOK        == bs \in 1..255 /\ B!IsBytes(data)
=============================================================================
