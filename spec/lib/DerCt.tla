------------------------------- MODULE DerCt -------------------------------
(* The small part of DER (ITU-T X.690) that the SM2 ciphertext and the SM2     *)
(* enveloped key of GM/T 0009 / GB/T 35276 need: definite lengths in minimal    *)
(* form, universal tags below 31, INTEGER, OCTET STRING, BIT STRING, NULL, OID  *)
(* (as given content bytes), SEQUENCE.                                         *)
(*   SM2Cipher ::= SEQUENCE { XCoordinate INTEGER, YCoordinate INTEGER,         *)
(*                            HASH OCTET STRING (SIZE(32)), CipherText OCTET STRING } *)
(* Encoders are total.  The reader is strict: a string is accepted only when it  *)
(* is THE DER encoding (minimal lengths, minimal integers, nothing trailing).    *)
(* Integers are BigNat values (minimal big-endian byte sequences, zero = <<>>).  *)
EXTENDS Integers, Sequences
LOCAL BN == INSTANCE BigNat

TagInteger == 2
TagBitString == 3
TagOctets == 4
TagNull == 5
TagOid == 6
TagSequence == 48

(* ------------------------------------------------------------------ encode *)
LenBytes(n) == IF n < 128 THEN <<n>>
               ELSE IF n < 256 THEN <<129, n>>
               ELSE IF n < 65536 THEN <<130, n \div 256, n % 256>>
               ELSE <<131, n \div 65536, (n \div 256) % 256, n % 256>>
TLV(tag, c) == <<tag>> \o LenBytes(Len(c)) \o c
(* content octets of a non-negative INTEGER: minimal, a 00 octet in front when the top bit is set *)
IntContent(a) == LET m == BN!Norm(a)
                 IN IF m = <<>> THEN <<0>> ELSE IF m[1] >= 128 THEN <<0>> \o m ELSE m
Integer(a)   == TLV(TagInteger, IntContent(a))
Octets(s)    == TLV(TagOctets, s)
BitString(s) == TLV(TagBitString, <<0>> \o s)          \* whole octets: no unused bits
Sequence(c)  == TLV(TagSequence, c)
Sm2Cipher(x, y, c3, c2) == Sequence(Integer(x) \o Integer(y) \o Octets(c3) \o Octets(c2))

(* ------------------------------------------------------------------ decode *)
NoTlv == [ok |-> FALSE, tag |-> 0, from |-> 0, len |-> 0, next |-> 0]
(* the element whose identifier octet is s[p]: content = s[from .. from+len-1], next element at next *)
Fits(s, tag, from, n) == IF from + n - 1 <= Len(s) THEN [ok |-> TRUE, tag |-> tag, from |-> from, len |-> n, next |-> from + n]
                         ELSE NoTlv
ReadAt(s, p) ==
  IF p < 1 THEN NoTlv
  ELSE IF p + 1 > Len(s) THEN NoTlv
  ELSE IF (s[p] % 32) = 31 THEN NoTlv                                   \* high tag numbers: not used here
  ELSE IF s[p + 1] < 128 THEN Fits(s, s[p], p + 2, s[p + 1])
  ELSE LET nb == s[p + 1] - 128
       IN IF nb = 0 THEN NoTlv                                          \* indefinite length: not DER
          ELSE IF nb > 3 THEN NoTlv                                     \* >= 16 MiB (or not minimal)
          ELSE IF p + 1 + nb > Len(s) THEN NoTlv
          ELSE IF s[p + 2] = 0 THEN NoTlv                               \* leading zero length octet: not minimal
          ELSE LET v == IF nb = 1 THEN s[p + 2]
                        ELSE IF nb = 2 THEN s[p + 2] * 256 + s[p + 3]
                        ELSE s[p + 2] * 65536 + s[p + 3] * 256 + s[p + 4]
               IN IF v < 128 THEN NoTlv                                 \* short form was required
                  ELSE Fits(s, s[p], p + 2 + nb, v)
Content(s, e) == SubSeq(s, e.from, e.from + e.len - 1)
Element(s, p, e) == SubSeq(s, p, e.next - 1)                             \* the whole TLV that starts at p

(* a non-negative INTEGER in minimal form; negative values and padded encodings are refused *)
NoInt == [ok |-> FALSE, v |-> <<>>]
ReadNat(c) ==
  IF Len(c) = 0 THEN NoInt
  ELSE IF c[1] >= 128 THEN NoInt                                        \* negative
  ELSE IF Len(c) = 1 THEN [ok |-> TRUE, v |-> BN!Norm(c)]
  ELSE IF c[1] = 0 THEN (IF c[2] < 128 THEN NoInt ELSE [ok |-> TRUE, v |-> BN!Norm(c)])   \* needless 00
  ELSE [ok |-> TRUE, v |-> c]

NoCipher == [ok |-> FALSE, x |-> <<>>, y |-> <<>>, c3 |-> <<>>, c2 |-> <<>>]
ParseSm2Cipher(s) ==
  LET o == ReadAt(s, 1)
  IN IF ~o.ok THEN NoCipher
     ELSE IF o.tag # TagSequence THEN NoCipher
     ELSE IF o.next # Len(s) + 1 THEN NoCipher                          \* nothing after the SEQUENCE
     ELSE LET ex == ReadAt(s, o.from)
          IN IF ~ex.ok THEN NoCipher
             ELSE IF ex.tag # TagInteger THEN NoCipher
             ELSE LET ey == ReadAt(s, ex.next)
                  IN IF ~ey.ok THEN NoCipher
                     ELSE IF ey.tag # TagInteger THEN NoCipher
                     ELSE LET e3 == ReadAt(s, ey.next)
                          IN IF ~e3.ok THEN NoCipher
                             ELSE IF e3.tag # TagOctets THEN NoCipher
                             ELSE LET e2 == ReadAt(s, e3.next)
                                  IN IF ~e2.ok THEN NoCipher
                                     ELSE IF e2.tag # TagOctets THEN NoCipher
                                     ELSE IF e2.next # Len(s) + 1 THEN NoCipher     \* nothing after CipherText
                                     ELSE LET x == ReadNat(Content(s, ex))
                                              y == ReadNat(Content(s, ey))
                                          IN IF x.ok /\ y.ok
                                             THEN [ok |-> TRUE, x |-> x.v, y |-> y.v, c3 |-> Content(s, e3), c2 |-> Content(s, e2)]
                                             ELSE NoCipher
=============================================================================
