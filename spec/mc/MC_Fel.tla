------------------------------- MODULE MC_Fel -------------------------------
(* The limb-level field arithmetic under C05 and C09, against algo/Mont.tla.       *)
(* Field selects the primitive family and its modulus:                           *)
(*   p256     internal/sm2ec assembly, base field   (p256Mul Sqr Add FromMont      *)
(*            NegCond Inverse Sqrt LessThanP), residues in the Montgomery domain   *)
(*   p256ord  internal/sm2ec assembly, scalar field (p256OrdMul OrdSqr OrdAdd      *)
(*            OrdReduce)                                                          *)
(*   fiatp / fiatn  the fiat-crypto elements of the purego backend, driven through *)
(*            their canonical interface with x = X R^-1, so that the INTERNAL      *)
(*            representation is the structured residue X                           *)
(*   gfp      internal/sm9/bn256 base field (gfpMul Sqr Add Sub Neg Double Triple   *)
(*            FromMont Invert Sqrt lessThanP), assembly or generic                 *)
(*   natn / natn9  internal/bigmod (Nat.Mul Add Sub) modulo the SM2 and the SM9 group   *)
(*            order: ordinary residues, limb-structured like the others            *)
(*   gfp2     its quadratic extension (Mul MulU MulU1 Square SquareU Add Sub Neg    *)
(*            Double Triple Invert)                                                *)
(* Operands are STRUCTURED IN THE LIMBS: every 64-bit limb of a residue is drawn    *)
(* from an alphabet (0, 1, 2^64-1, 2^63, the limbs of the modulus, a random limb),   *)
(* plus residues next to the modulus in one limb, the thirds and the half of the    *)
(* modulus, R and R^2, m - 2^k - this is where carry chains and final subtractions   *)
(* take their rare branches, and values of that shape occur in the Montgomery       *)
(* domain, not among the canonical coordinates the point-level machine enumerates.  *)
(* One transition = one row: an operation, a left operand and EVERY right operand    *)
(* of the column set, with the results concatenated (family "fel").                  *)
EXTENDS Integers, Sequences, FiniteSets, TLC, Json
LOCAL INSTANCE SequencesExt
CONSTANTS Seed, OutFile, Field, RowLetters, ColLetters, NRnd,
          NShards, Shard           \* rows are dealt to NShards runs (TLC interns every string it builds: a run must stay small)
S  == INSTANCE SM2
B  == INSTANCE Bn
BN == INSTANCE BigNat
By == INSTANCE Bytes
PR == INSTANCE Prng
Hx == INSTANCE Hex
Em == INSTANCE Emit
Modulus == IF Field \in {"p256", "fiatp"} THEN S!P ELSE IF Field \in {"p256ord", "fiatn", "natn"} THEN S!N ELSE IF Field = "natn9" THEN B!N ELSE B!P
MT == INSTANCE Mont WITH M <- Modulus
VARIABLES a, phase, hist
vars == <<a, phase, hist>>
View == <<a, phase>>

Tup(f, n) == SubSeq(f, 1, n)
H32(v) == Hx!FromBytes(BN!ToFixed(v, 32))
M32 == BN!ToFixed(Modulus, 32)
Pow2(s) == BN!Mul(BN!FromInt(2 ^ (s % 8)), <<1>> \o By!Zeros(s \div 8))
MLimb(i) == SubSeq(M32, 8 * (3 - i) + 1, 8 * (3 - i) + 8)           \* limb i, 0 = least significant
Inc(l) == BN!ToFixed(BN!Mod(BN!Add(l, <<1>>), Pow2(64)), 8)
Dec(l) == BN!ToFixed(BN!Mod(BN!Add(l, BN!Sub(Pow2(64), <<1>>)), Pow2(64)), 8)
(* the alphabet: letters 1..4 are fixed, 5..8 the limbs of the modulus, 9 a random limb *)
Letter(k) == CASE k = 1 -> By!Zeros(8)
               [] k = 2 -> By!Zeros(7) \o <<1>>
               [] k = 3 -> Tup([i \in 1..8 |-> 255], 8)
               [] k = 4 -> <<128>> \o By!Zeros(7)
               [] k \in 5..8 -> MLimb(k - 5)
               [] OTHER -> Tup(PR!Bytes(Seed, 8800 + k, 8), 8)
Words(ls) == {BN!Norm(Letter(l3) \o Letter(l2) \o Letter(l1) \o Letter(l0)) : l3 \in ls, l2 \in ls, l1 \in ls, l0 \in ls}
(* the modulus with one limb replaced: by a fixed letter, or by that limb +- 1 *)
WithLimb(i, r) == (IF i = 3 THEN r ELSE MLimb(3)) \o (IF i = 2 THEN r ELSE MLimb(2)) \o (IF i = 1 THEN r ELSE MLimb(1)) \o (IF i = 0 THEN r ELSE MLimb(0))
NearM == UNION {{WithLimb(i, r) : r \in {Letter(1), Letter(2), Letter(3), Letter(4), Dec(MLimb(i)), Inc(MLimb(i))}} : i \in 0..3}
Third == BN!Div(BN!Add(Modulus, <<2>>), <<3>>)
Specials == {BN!Sub(Modulus, <<1>>), BN!Sub(Modulus, <<2>>), BN!Div(Modulus, <<2>>), BN!Add(BN!Div(Modulus, <<2>>), <<1>>),
             Third, BN!Add(Third, <<1>>), BN!Sub(Third, <<1>>), BN!Mul(Third, <<2>>), BN!Sub(BN!Mul(Third, <<2>>), <<1>>), BN!Add(BN!Mul(Third, <<2>>), <<1>>),
             MT!RmodM, MT!To(MT!RmodM), BN!Sub(Modulus, MT!RmodM), MT!To(<<2>>), MT!To(<<3>>)}
           \cup {BN!Sub(Modulus, Pow2(k)) : k \in {32, 63, 64, 96, 127, 128, 192, 224}}
           \cup {BN!Mod(Tup(PR!Bytes(Seed, 8900 + i, 32), 32), Modulus) : i \in 1..NRnd}
InField(s) == {v \in s : BN!Lt(v, Modulus)}
RowSet == InField(Words(RowLetters) \cup {BN!Norm(v) : v \in NearM} \cup Specials)
ColSet == InField(Words(ColLetters) \cup {BN!Norm(v) : v \in NearM} \cup Specials)
Cols == SetToSeq(ColSet)
(* raw 256-bit values (the range tests and the final reductions take values outside the field as well) *)
RawSet == Words(RowLetters) \cup {BN!Norm(v) : v \in NearM} \cup {Modulus, BN!Add(Modulus, <<1>>), BN!Sub(Modulus, <<1>>), Tup([i \in 1..32 |-> 255], 32)}
(* gfp2: coordinates from a small set *)
Small == InField({<<>>, <<1>>, <<2>>, BN!Sub(Modulus, <<1>>), BN!Sub(Modulus, <<2>>), BN!Div(Modulus, <<2>>), MT!RmodM, Third,
                  BN!Norm(Letter(3) \o Letter(3) \o Letter(3) \o Letter(3)), BN!Norm(Letter(1) \o Letter(3) \o Letter(1) \o Letter(3)),
                  BN!Norm(MLimb(3) \o Letter(1) \o Letter(3) \o Letter(3))}
                 \cup {BN!Mod(Tup(PR!Bytes(Seed, 8900 + i, 32), 32), Modulus) : i \in 1..2})
Pairs == {<<x, y>> : x \in Small, y \in Small}
PairCols == SetToSeq(Pairs)

Cat(f(_), seq) == FoldLeft(LAMBDA acc, b : acc \o f(b), "", seq)
H64(p) == H32(p[2]) \o H32(p[1])                                    \* the u coefficient first (x u + y)

Binary == CASE Field \in {"p256"} -> {"mul", "add"}
            [] Field = "p256ord" -> {"mul", "add"}
            [] Field \in {"fiatp", "fiatn"} -> {"mul", "add", "sub"}
            [] Field = "gfp" -> {"mul", "add", "sub"}
            [] Field \in {"natn", "natn9"} -> {"mul", "add", "sub"}
            [] OTHER -> {}
Unary == CASE Field = "p256" -> {"sqr1", "sqr2", "sqr5", "frommont", "neg", "inv", "sqrt"}
           [] Field = "p256ord" -> {"sqr1", "sqr2", "sqr5"}
           [] Field \in {"fiatp", "fiatn"} -> {"sqr1", "inv"}
           [] Field = "gfp" -> {"sqr1", "sqr2", "sqr5", "frommont", "neg", "dbl", "tpl", "inv", "sqrt"}
           [] OTHER -> {}
RawOps == CASE Field \in {"p256", "gfp"} -> {"lt"} [] Field = "p256ord" -> {"reduce"} [] OTHER -> {}
Bin2 == {"mul", "mulu", "add", "sub"}
Un2 == {"mulu1", "square", "squareu", "neg", "dbl", "tpl", "inv"}
Canon == Field \in {"fiatp", "fiatn"}                 \* operands and results cross the interface in canonical form
In(X) == IF Canon THEN MT!From(X) ELSE X
Out(X) == IF Canon THEN MT!From(X) ELSE X

Plain == Field \in {"natn", "natn9"}                  \* internal/bigmod: ordinary residues, the product is the ordinary modular product
BinRes(op, X, Y) == CASE op = "mul" -> (IF Plain THEN BN!MulMod(X, Y, Modulus) ELSE MT!Mul(X, Y)) [] op = "add" -> MT!Add(X, Y) [] op = "sub" -> MT!Sub(X, Y)
UnRes(op, X) == CASE op = "sqr1" -> MT!SqrN(X, 1) [] op = "sqr2" -> MT!SqrN(X, 2) [] op = "sqr5" -> MT!SqrN(X, 5)
                  [] op = "frommont" -> MT!From(X) [] op = "neg" -> MT!Neg(X) [] op = "dbl" -> MT!Dbl(X) [] op = "tpl" -> MT!Tpl(X)
                  [] op = "inv" -> MT!Inv(X)
Bin2Res(op, p, q) == CASE op = "mul" -> MT!M2Mul(p, q) [] op = "mulu" -> MT!M2MulU1(MT!M2Mul(p, q)) [] op = "add" -> MT!M2Add(p, q) [] op = "sub" -> MT!M2Sub(p, q)
Un2Res(op, p) == CASE op = "mulu1" -> MT!M2MulU1(p) [] op = "square" -> MT!M2Mul(p, p) [] op = "squareu" -> MT!M2MulU1(MT!M2Mul(p, p))
                   [] op = "neg" -> MT!M2Neg(p) [] op = "dbl" -> MT!M2Add(p, p) [] op = "tpl" -> MT!M2Add(MT!M2Add(p, p), p) [] op = "inv" -> MT!M2Inv(p)

RECURSIVE ByteSum(_)
ByteSum(v) == IF v = <<>> THEN 0 ELSE v[1] + ByteSum(Tail(v))
Mine(v) == (IF Field = "gfp2" THEN ByteSum(v[1]) + 3 * ByteSum(v[2]) ELSE ByteSum(v)) % NShards = Shard
Init == /\ phase = "row" /\ hist = <<>>
        /\ IF Field = "gfp2" THEN a \in {v \in Pairs : Mine(v)} ELSE a \in {v \in (RowSet \cup (IF RawOps = {} THEN {} ELSE RawSet)) : Mine(v)}
Emit(ev) == /\ hist' = <<>>                            \* a row is written and forgotten (it is large, and nothing follows a row)
            /\ Em!Line(OutFile, ToJson([fam |-> "fel", steps |-> <<ev @@ [field |-> Field, m |-> H32(Modulus)]>>]))
Row(op) ==
  /\ phase = "row" /\ phase' = op /\ UNCHANGED a
  /\ IF Field = "gfp2"
     THEN \/ /\ op \in Bin2
             /\ Emit([op |-> op, a |-> H64(a), bs |-> Cat(LAMBDA q : H64(q), PairCols), exps |-> Cat(LAMBDA q : H64(Bin2Res(op, a, q)), PairCols)])
          \/ /\ op \in Un2 /\ (op = "inv" => a # <<<<>>, <<>>>>)
             /\ Emit([op |-> op, a |-> H64(a), bs |-> "", exps |-> H64(Un2Res(op, a))])
     ELSE \/ /\ op \in Binary /\ BN!Lt(a, Modulus)
             /\ Emit([op |-> op, a |-> H32(In(a)), bs |-> Cat(LAMBDA y : H32(In(y)), Cols), exps |-> Cat(LAMBDA y : H32(Out(BinRes(op, a, y))), Cols)])
          \/ /\ op \in Unary \ {"sqrt"} /\ BN!Lt(a, Modulus) /\ (op = "neg" /\ Field = "p256" => a # <<>>)
             /\ Emit([op |-> op, a |-> H32(In(a)), bs |-> "", exps |-> H32(Out(UnRes(op, a)))])
          \/ /\ op = "sqrt" /\ op \in Unary /\ BN!Lt(a, Modulus)
             /\ LET x == MT!From(a)
                    sq == MT!IsSquare(x)
                    r == IF sq THEN MT!To(MT!Root(x)) ELSE <<>>
                IN Emit([op |-> op, a |-> H32(a), bs |-> "", flag |-> IF sq THEN 1 ELSE 0, exps |-> H32(r), alts |-> H32(MT!Neg(r))])
          \/ /\ op = "lt" /\ op \in RawOps
             /\ Emit([op |-> op, a |-> H32(a), bs |-> "", flag |-> IF BN!Lt(a, Modulus) THEN 1 ELSE 0, exps |-> ""])
          \/ /\ op = "reduce" /\ op \in RawOps
             /\ Emit([op |-> op, a |-> H32(a), bs |-> "", exps |-> H32(MT!Reduce(a))])
Next == \E op \in Binary \cup Unary \cup RawOps \cup Bin2 \cup Un2 : Row(op)
Spec == Init /\ [][Next]_vars

(* the definitions themselves, on the rows TLC visits: the domain maps are inverse to each other, the Montgomery product   *)
(* is the field product, an inverse is one, a reported root squares to its argument                                          *)
DomainOk == Field = "gfp2" \/ ~BN!Lt(a, Modulus) \/ (MT!To(MT!From(a)) = a /\ MT!From(MT!Mul(a, MT!To(<<2>>))) = BN!MulMod(MT!From(a), <<2>>, Modulus))
InverseOk == Field = "gfp2" \/ ~BN!Lt(a, Modulus) \/ a = <<>> \/ MT!Mul(a, MT!Inv(a)) = MT!RmodM
RootOk == Field = "gfp2" \/ ~BN!Lt(a, Modulus) \/ LET x == MT!From(a) IN MT!IsSquare(x) => BN!MulMod(MT!Root(x), MT!Root(x), Modulus) = x
Inverse2Ok == Field # "gfp2" \/ a = <<<<>>, <<>>>> \/ MT!M2Mul(a, MT!M2Inv(a)) = <<MT!RmodM, <<>>>>
=============================================================================
