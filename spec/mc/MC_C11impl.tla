------------------------------ MODULE MC_C11impl ------------------------------
(* Refinement of the abstract seekable stream (EeaObj) by the implementation-  *)
(* shaped bookkeeping of internal/zuc/eea.go (EeaImpl), on integers only: the   *)
(* "keystream" is the identity (byte at position p is p) and inputs are zero,   *)
(* so a reply is the list of keystream positions each output byte was XORed     *)
(* with.  Mapping: pos |-> c.used, reply |-> c.out.  Checked for every history  *)
(* of MaxOps calls with RoundBytes scaled to 4 and at 128.                      *)
EXTENDS EeaImpl, TLC
CONSTANTS Buckets, Lens, Offs, MaxOps, MaxPos
VARIABLES last, nops
vars == <<c, last, nops>>
View == <<[c EXCEPT !.out = <<>>], nops>>

IdKS == [i \in 1..MaxPos |-> i - 1]
A == INSTANCE EeaObj WITH pos <- c.used, ks <- IdKS, reply <- c.out
Zeros(n) == [i \in 1..n |-> 0]

Init == (\E b \in Buckets : IInit(b)) /\ last = [op |-> "new", off |-> 0, n |-> 0] /\ nops = 0
Next == /\ nops < MaxOps /\ nops' = nops + 1
        /\ \/ \E n \in Lens : c.used + n <= MaxPos /\ IXORKeyStream(n) /\ last' = [op |-> "xor", off |-> 0, n |-> n]
           \/ \E off \in Offs, n \in Lens : off + n <= MaxPos /\ IXORKeyStreamAt(off, n) /\ last' = [op |-> "xorat", off |-> off, n |-> n]
Spec == Init /\ [][Next]_vars

(* every step of the implementation-shaped machine is the abstract step of the same call *)
Refines == [][IF last'.op = "xor" THEN A!XORKeyStream(Zeros(last'.n))
              ELSE A!XORKeyStreamAt(last'.off, Zeros(last'.n))]_vars
=============================================================================
