------------------------------- MODULE BigNatPure ------------------------------
(* Natural numbers of any size as big-endian byte sequences.  Results are    *)
(* minimal (no leading zero byte; zero is <<>>) unless a width is requested. *)
(* TLC evaluates the operators marked (J) through tlc/src/verifov/BigNat.java *)
(* (java.math.BigInteger); the TLA+ definitions below are their meaning and   *)
(* are what selftest/BigNatAgree.tla compares the Java results with (module   *)
(* BigNatPure is a textual copy under another name, which the override does   *)
(* not capture).                                                              *)
EXTENDS Integers, Sequences

RECURSIVE Norm(_)
Norm(a) == IF a # <<>> /\ a[1] = 0 THEN Norm(Tail(a)) ELSE a
Pad(a, n) == IF Len(a) >= n THEN a ELSE [i \in 1..(n - Len(a)) |-> 0] \o a
(* fixed width n (left-padded; the value must fit) *)
ToFixed(a, n) == LET m == Norm(a) IN Pad(m, n)
FromInt(x) == LET RECURSIVE F(_)
                  F(y) == IF y = 0 THEN <<>> ELSE Append(F(y \div 256), y % 256)
              IN F(x)
ToInt(a) == LET RECURSIVE F(_)                       \* only for values < 2^31
                F(s) == IF s = <<>> THEN 0 ELSE F(SubSeq(s, 1, Len(s) - 1)) * 256 + s[Len(s)]
            IN F(a)
Zero == <<>>
One == <<1>>
IsZero(a) == Norm(a) = <<>>

RECURSIVE CmpSame(_, _)   \* equal lengths, lexicographic
CmpSame(a, b) == IF a = <<>> THEN 0
                 ELSE IF a[1] < b[1] THEN -1 ELSE IF a[1] > b[1] THEN 1
                 ELSE CmpSame(Tail(a), Tail(b))
(* (J) -1, 0, 1 *)
Cmp(a, b) == LET x == Norm(a)
                 y == Norm(b)
             IN IF Len(x) < Len(y) THEN -1 ELSE IF Len(x) > Len(y) THEN 1 ELSE CmpSame(x, y)
Lt(a, b) == Cmp(a, b) < 0
Le(a, b) == Cmp(a, b) <= 0
Eq(a, b) == Cmp(a, b) = 0

(* (J) *)
Add(a, b) ==
  LET n == (IF Len(a) > Len(b) THEN Len(a) ELSE Len(b)) + 1
      x == Pad(a, n)
      y == Pad(b, n)
      RECURSIVE C(_)       \* carry into position i (from the right end)
      C(i) == IF i > n THEN 0 ELSE (x[i] + y[i] + C(i + 1)) \div 256
  IN Norm([i \in 1..n |-> (x[i] + y[i] + C(i + 1)) % 256])

(* (J) a - b, requires a >= b *)
Sub(a, b) ==
  LET n == Len(a)
      y == Pad(Norm(b), n)
      RECURSIVE B(_)       \* borrow into position i
      B(i) == IF i > n THEN 0 ELSE IF a[i] - y[i] - B(i + 1) < 0 THEN 1 ELSE 0
  IN Norm([i \in 1..n |-> (a[i] - y[i] - B(i + 1) + 256) % 256])

MulByte(a, d) ==
  LET n == Len(a) + 1
      x == Pad(a, n)
      RECURSIVE C(_)
      C(i) == IF i > n THEN 0 ELSE (x[i] * d + C(i + 1)) \div 256
  IN [i \in 1..n |-> (x[i] * d + C(i + 1)) % 256]

(* (J) *)
RECURSIVE Mul(_, _)
Mul(a, b) == IF b = <<>> THEN <<>>
             ELSE Add(Mul(a, SubSeq(b, 1, Len(b) - 1)) \o <<0>>, MulByte(a, b[Len(b)]))

(* bit i (0 = least significant) *)
(* (J) *)
Bit(a, i) == LET k == Len(a) - (i \div 8)
             IN IF k < 1 THEN 0 ELSE (a[k] \div (2 ^ (i % 8))) % 2
(* (J) *)
BitLen(a) == LET m == Norm(a)
                 RECURSIVE H(_)
                 H(x) == IF x = 0 THEN 0 ELSE 1 + H(x \div 2)
             IN IF m = <<>> THEN 0 ELSE 8 * (Len(m) - 1) + H(m[1])

(* quotient and remainder by shift-and-subtract over the bits of a *)
DivMod(a, b) ==
  LET RECURSIVE F(_)
      F(i) == \* state after consuming bits above i: <<q, r>>
        IF i = BitLen(a) THEN <<<<>>, <<>>>>
        ELSE LET p == F(i + 1)
                 r2 == Add(Add(p[2], p[2]), IF Bit(a, i) = 1 THEN <<1>> ELSE <<>>)
                 q2 == Add(p[1], p[1])
             IN IF Cmp(r2, b) >= 0 THEN <<Add(q2, <<1>>), Sub(r2, b)>> ELSE <<q2, r2>>
  IN F(0)
(* (J) *)
Div(a, b) == DivMod(a, b)[1]
(* (J) *)
Mod(a, b) == DivMod(a, b)[2]
(* (J) *)
ShiftR(a, i) == Div(a, LET RECURSIVE P(_)
                           P(k) == IF k = 0 THEN <<1>> ELSE Add(P(k - 1), P(k - 1))
                       IN P(i))

(* (J) *)
AddMod(a, b, m) == Mod(Add(a, b), m)
(* (J) (a - b) mod m for any a, b *)
SubMod(a, b, m) == LET x == Mod(a, m)
                       y == Mod(b, m)
                   IN IF Cmp(x, y) >= 0 THEN Sub(x, y) ELSE Sub(Add(x, m), y)
(* (J) *)
MulMod(a, b, m) == Mod(Mul(a, b), m)
(* (J) *)
ExpMod(a, e, m) ==
  LET RECURSIVE F(_)
      F(i) == IF i = BitLen(e) THEN Mod(<<1>>, m)
              ELSE LET s == F(i + 1)
                       q == MulMod(s, s, m)
                   IN IF Bit(e, i) = 1 THEN MulMod(q, a, m) ELSE q
  IN F(0)
(* (J) inverse modulo a prime m; 0 for a = 0 (mod m) *)
InvMod(a, m) == ExpMod(a, Sub(m, <<2>>), m)
NegMod(a, m) == SubMod(<<>>, a, m)
=============================================================================
