package rt

import (
	"bytes"
	"crypto/elliptic"
	"encoding/hex"
	"math/big"

	"github.com/emmansun/gmsm/ecdh"
	"github.com/emmansun/gmsm/sm2"
	"github.com/emmansun/gmsm/sm2/sm2ec"
	"github.com/emmansun/gmsm/verifhook"
)

// sm2ec family (C05): a machine with two point registers; every step carries the affine result
// (as the uncompressed encoding, "00" for infinity) or the accept/reject verdict computed by
// spec/algo/EC.tla.  Each trace is replayed through three routes:
//   curve  sm2ec.P256() as elliptic.Curve (big.Int API, CombinedMult, Inverse, elliptic.(Un)Marshal*)
//   point  verifhook.SM2P256Point (= internal/sm2ec) and P256OrdInverse / P256OrdMul
//   keys   ecdh.P256().NewPrivateKey/NewPublicKey/ECDH and sm2.NewPrivateKey/NewPublicKey
// No arithmetic happens here: decode a step, call the library, compare.
func init() {
	Register("sm2ec", func(t *Trace, env *Env) *Mismatch {
		for _, r := range []struct {
			name string
			run  func(*Trace) *Mismatch
		}{{"curve", ecRunCurve}, {"point", ecRunPoint}, {"keys", ecRunKeys}} {
			if mm := r.run(t); mm != nil {
				if mm.Note == "" {
					mm.Note = r.name
				} else {
					mm.Note = r.name + ": " + mm.Note
				}
				return mm
			}
		}
		return nil
	})
}

func ecNote(mm *Mismatch, note string) *Mismatch {
	if mm != nil {
		mm.Note = note
	}
	return mm
}

// ---------------------------------------------------------------- route 1: elliptic.Curve

type ecXY struct{ x, y *big.Int }

func ecFromEnc(b []byte) ecXY {
	if len(b) == 1 && b[0] == 0 {
		return ecXY{new(big.Int), new(big.Int)}
	}
	if len(b) != 65 || b[0] != 4 {
		panic("harness: sm2ec: bad register encoding in trace")
	}
	return ecXY{new(big.Int).SetBytes(b[1:33]), new(big.Int).SetBytes(b[33:65])}
}

// ecToEnc renders what the big.Int API returned: (0,0) is infinity by the convention of crypto/elliptic.
func ecToEnc(x, y *big.Int) string {
	if x == nil || y == nil {
		return "nil"
	}
	if x.Sign() == 0 && y.Sign() == 0 {
		return "00"
	}
	if x.Sign() < 0 || y.Sign() < 0 || x.BitLen() > 256 || y.BitLen() > 256 {
		return "out-of-range:" + x.Text(16) + "," + y.Text(16)
	}
	out := make([]byte, 65)
	out[0] = 4
	x.FillBytes(out[1:33])
	y.FillBytes(out[33:65])
	return hex.EncodeToString(out)
}

type combinedMulter interface {
	CombinedMult(Px, Py *big.Int, s1, s2 []byte) (x, y *big.Int)
}
type ordInverter interface {
	Inverse(k *big.Int) *big.Int
}

func ecSigned(b []byte, neg bool) *big.Int {
	v := new(big.Int).SetBytes(b)
	if neg {
		v.Neg(v)
	}
	return v
}

func ecRunCurve(t *Trace) *Mismatch {
	c := sm2ec.P256()
	var reg [3]ecXY
	for i, st := range t.Steps {
		At(i)
		switch st.Str("op") {
		case "init":
			reg[1], reg[2] = ecFromEnc(st.Hex("r1")), ecFromEnc(st.Hex("r2"))
		case "basemult":
			k := st.Hex("k")
			keep := append([]byte(nil), k...)
			x, y := c.ScalarBaseMult(k)
			if mm := DiffStr(i, ecToEnc(x, y), st.Str("exp")); mm != nil {
				return ecNote(mm, "ScalarBaseMult")
			}
			if !bytes.Equal(k, keep) {
				return &Mismatch{Step: i, Kind: "mismatch", Got: hex.EncodeToString(k), Exp: hex.EncodeToString(keep), Note: "ScalarBaseMult modified the scalar"}
			}
			reg[1] = ecXY{x, y}
		case "mult":
			x, y := c.ScalarMult(reg[1].x, reg[1].y, st.Hex("k"))
			if mm := DiffStr(i, ecToEnc(x, y), st.Str("exp")); mm != nil {
				return ecNote(mm, "ScalarMult")
			}
			reg[1] = ecXY{x, y}
		case "multreg": // r_a := [k] r_a; the RESULT OBJECT of the library stays in the register (its internal form matters later)
			ra := st.Int("a")
			x, y := c.ScalarMult(reg[ra].x, reg[ra].y, st.Hex("k"))
			if mm := DiffStr(i, ecToEnc(x, y), st.Str("exp")); mm != nil {
				return ecNote(mm, "ScalarMult")
			}
			reg[ra] = ecXY{x, y}
		case "combined":
			a, b := st.Hex("a"), st.Hex("b")
			if cm, ok := c.(combinedMulter); ok {
				x, y := cm.CombinedMult(reg[1].x, reg[1].y, a, b)
				if mm := DiffStr(i, ecToEnc(x, y), st.Str("exp")); mm != nil {
					return ecNote(mm, "CombinedMult")
				}
			}
			x1, y1 := c.ScalarBaseMult(a)
			x2, y2 := c.ScalarMult(reg[1].x, reg[1].y, b)
			x, y := c.Add(x1, y1, x2, y2)
			if mm := DiffStr(i, ecToEnc(x, y), st.Str("exp")); mm != nil {
				return ecNote(mm, "Add(ScalarBaseMult, ScalarMult)")
			}
			reg[1] = ecXY{x, y}
		case "add":
			a, b := st.Int("a"), st.Int("b")
			x, y := c.Add(reg[a].x, reg[a].y, reg[b].x, reg[b].y)
			if mm := DiffStr(i, ecToEnc(x, y), st.Str("exp")); mm != nil {
				return ecNote(mm, "Add")
			}
			reg[a] = ecXY{x, y}
		case "double":
			a := st.Int("a")
			x, y := c.Double(reg[a].x, reg[a].y)
			if mm := DiffStr(i, ecToEnc(x, y), st.Str("exp")); mm != nil {
				return ecNote(mm, "Double")
			}
			reg[a] = ecXY{x, y}
		case "decode":
			data := st.Hex("data")
			acc := st["acc"].(map[string]interface{})
			for _, d := range []struct {
				name string
				f    func(elliptic.Curve, []byte) (*big.Int, *big.Int)
			}{{"unmarshal", elliptic.Unmarshal}, {"unmarshalc", elliptic.UnmarshalCompressed}} {
				x, y := d.f(c, data)
				want := acc[d.name].(bool)
				if (x != nil) != want {
					return &Mismatch{Step: i, Kind: "errmismatch", Got: acceptStr(x != nil), Exp: acceptStr(want), Note: "elliptic." + d.name}
				}
				if want {
					if mm := DiffStr(i, ecToEnc(x, y), st.Str("exp")); mm != nil {
						return ecNote(mm, "elliptic."+d.name)
					}
				}
			}
			if st.Str("form") != "none" {
				reg[1] = ecFromEnc(st.Hex("exp"))
			}
		case "encode":
			if reg[1].x.Sign() == 0 && reg[1].y.Sign() == 0 {
				continue // elliptic.Marshal documents a panic for points that are not on the curve; (0,0) is not
			}
			switch st.Str("form") {
			case "u":
				if mm := Diff(i, elliptic.Marshal(c, reg[1].x, reg[1].y), st.Hex("exp")); mm != nil {
					return ecNote(mm, "elliptic.Marshal")
				}
			case "c":
				if mm := Diff(i, elliptic.MarshalCompressed(c, reg[1].x, reg[1].y), st.Hex("exp")); mm != nil {
					return ecNote(mm, "elliptic.MarshalCompressed")
				}
			}
		case "oncurve":
			got := c.IsOnCurve(ecSigned(st.Hex("x"), st.Bool("xneg")), ecSigned(st.Hex("y"), st.Bool("yneg")))
			if got != st.Bool("ok") {
				return &Mismatch{Step: i, Kind: "mismatch", Got: acceptStr(got), Exp: acceptStr(st.Bool("ok")), Note: "IsOnCurve"}
			}
		case "ordinv":
			if inv, ok := c.(ordInverter); ok {
				k := new(big.Int).SetBytes(st.Hex("k"))
				r := inv.Inverse(k)
				if r == nil || r.Sign() < 0 || r.BitLen() > 256 {
					return &Mismatch{Step: i, Kind: "mismatch", Got: "nil or out of range", Exp: st.Str("exp"), Note: "Curve.Inverse"}
				}
				if mm := Diff(i, r.FillBytes(make([]byte, 32)), st.Hex("exp")); mm != nil {
					return ecNote(mm, "Curve.Inverse")
				}
			}
		case "ordmul":
		default:
			panic("harness: sm2ec: unknown op " + st.Str("op"))
		}
	}
	return nil
}

func acceptStr(b bool) string {
	if b {
		return "accept/true"
	}
	return "reject/false"
}

// ---------------------------------------------------------------- route 2: internal/sm2ec point type

func ecPoint(enc []byte) *verifhook.SM2P256Point {
	p, err := verifhook.NewSM2P256Point().SetBytes(enc)
	if err != nil {
		return nil
	}
	return p
}

func ecCopy(p *verifhook.SM2P256Point) *verifhook.SM2P256Point {
	return verifhook.NewSM2P256Point().Set(p)
}

func ecRunPoint(t *Trace) *Mismatch {
	var reg [3]*verifhook.SM2P256Point
	check := func(i int, p *verifhook.SM2P256Point, exp string, note string) *Mismatch {
		return ecNote(DiffStr(i, hex.EncodeToString(p.Bytes()), exp), note)
	}
	for i, st := range t.Steps {
		At(i)
		switch st.Str("op") {
		case "init":
			reg[1], reg[2] = ecPoint(st.Hex("r1")), ecPoint(st.Hex("r2"))
			if reg[1] == nil || reg[2] == nil {
				return &Mismatch{Step: i, Kind: "errmismatch", Got: "error", Exp: "ok", Note: "SetBytes refused the encoding of a curve point"}
			}
		case "basemult", "mult":
			k := st.Hex("k")
			base := st.Str("op") == "basemult"
			call := func(recv *verifhook.SM2P256Point) (*verifhook.SM2P256Point, error) {
				if base {
					return recv.ScalarBaseMult(k)
				}
				return recv.ScalarMult(reg[1], k)
			}
			if len(k) != 32 {
				// documented: "If scalar is not 32 bytes long, ... returns an error and the receiver is unchanged"
				recv := ecCopy(reg[2])
				_, err := call(recv)
				if mm := DiffErr(i, err, true); mm != nil {
					return ecNote(mm, "scalar multiplication with a scalar that is not 32 bytes long")
				}
				if mm := check(i, recv, hex.EncodeToString(reg[2].Bytes()), "receiver changed by a refused scalar"); mm != nil {
					return mm
				}
				reg[1] = ecPoint(st.Hex("exp"))
				continue
			}
			fresh, err := call(verifhook.NewSM2P256Point())
			if mm := DiffErr(i, err, false); mm != nil {
				return ecNote(mm, st.Str("op"))
			}
			if mm := check(i, fresh, st.Str("exp"), st.Str("op")+" into a fresh point"); mm != nil {
				return mm
			}
			var alias *verifhook.SM2P256Point
			if base {
				alias, err = ecCopy(reg[1]).ScalarBaseMult(k)
			} else {
				alias = ecCopy(reg[1])
				_, err = alias.ScalarMult(alias, k)
			}
			if mm := DiffErr(i, err, false); mm != nil {
				return ecNote(mm, st.Str("op"))
			}
			if mm := check(i, alias, st.Str("exp"), st.Str("op")+" with the receiver in use / aliased"); mm != nil {
				return mm
			}
			reg[1] = fresh
		case "multreg": // r_a := [k] r_a, keeping the library's result object (e.g. the infinity that ScalarMult(Q, 0) returns)
			ra := st.Int("a")
			res, err := verifhook.NewSM2P256Point().ScalarMult(reg[ra], st.Hex("k"))
			if mm := DiffErr(i, err, false); mm != nil {
				return ecNote(mm, "ScalarMult")
			}
			if mm := check(i, res, st.Str("exp"), "ScalarMult into a fresh point"); mm != nil {
				return mm
			}
			reg[ra] = res
		case "combined":
			a, b := st.Hex("a"), st.Hex("b")
			if len(a) == 32 && len(b) == 32 {
				p1, err1 := verifhook.NewSM2P256Point().ScalarBaseMult(a)
				p2, err2 := verifhook.NewSM2P256Point().ScalarMult(reg[1], b)
				if err1 != nil || err2 != nil {
					return &Mismatch{Step: i, Kind: "errmismatch", Got: "error", Exp: "ok", Note: "combined"}
				}
				p2.Add(p2, p1)
				if mm := check(i, p2, st.Str("exp"), "[a]G + [b]R"); mm != nil {
					return mm
				}
				reg[1] = p2
			} else {
				reg[1] = ecPoint(st.Hex("exp"))
			}
		case "add":
			a, b := st.Int("a"), st.Int("b")
			fresh := verifhook.NewSM2P256Point().Add(reg[a], reg[b])
			if mm := check(i, fresh, st.Str("exp"), "Add into a fresh point"); mm != nil {
				return mm
			}
			x := ecCopy(reg[a])
			if a == b {
				x.Add(x, x)
			} else {
				x.Add(x, reg[b])
			}
			if mm := check(i, x, st.Str("exp"), "Add with receiver = first operand"); mm != nil {
				return mm
			}
			y := ecCopy(reg[b])
			y.Add(reg[a], y)
			if mm := check(i, y, st.Str("exp"), "Add with receiver = second operand"); mm != nil {
				return mm
			}
			reg[a] = fresh
		case "double":
			a := st.Int("a")
			fresh := verifhook.NewSM2P256Point().Double(reg[a])
			if mm := check(i, fresh, st.Str("exp"), "Double into a fresh point"); mm != nil {
				return mm
			}
			x := ecCopy(reg[a])
			x.Double(x)
			if mm := check(i, x, st.Str("exp"), "Double in place"); mm != nil {
				return mm
			}
			reg[a] = fresh
		case "decode":
			data := st.Hex("data")
			keep := append([]byte(nil), data...)
			want := st["acc"].(map[string]interface{})["setbytes"].(bool)
			recv := ecCopy(reg[1])
			q, err := recv.SetBytes(data)
			if mm := DiffErr(i, err, !want); mm != nil {
				return ecNote(mm, "SetBytes")
			}
			if want {
				if mm := check(i, recv, st.Str("exp"), "SetBytes"); mm != nil {
					return mm
				}
				reg[1] = recv
			} else {
				if q != nil {
					return &Mismatch{Step: i, Kind: "mismatch", Got: "non-nil point with an error", Exp: "nil", Note: "SetBytes"}
				}
				if mm := check(i, recv, st.Str("keep"), "SetBytes changed the receiver although it refused the input"); mm != nil {
					return mm
				}
			}
			if !bytes.Equal(data, keep) {
				return &Mismatch{Step: i, Kind: "mismatch", Got: hex.EncodeToString(data), Exp: hex.EncodeToString(keep), Note: "SetBytes modified its input"}
			}
		case "encode":
			switch st.Str("form") {
			case "u":
				if mm := Diff(i, reg[1].Bytes(), st.Hex("exp")); mm != nil {
					return ecNote(mm, "Bytes")
				}
			case "c":
				if mm := Diff(i, reg[1].BytesCompressed(), st.Hex("exp")); mm != nil {
					return ecNote(mm, "BytesCompressed")
				}
			case "x":
				x, err := reg[1].BytesX()
				if mm := DiffErr(i, err, st.Bool("err")); mm != nil {
					return ecNote(mm, "BytesX")
				}
				if err == nil {
					if mm := Diff(i, x, st.Hex("exp")); mm != nil {
						return ecNote(mm, "BytesX")
					}
				}
			}
		case "oncurve":
		case "ordinv":
			k := st.Hex("k")
			out, err := verifhook.P256OrdInverse(k)
			if len(k) != 32 {
				if mm := DiffErr(i, err, true); mm != nil {
					return ecNote(mm, "P256OrdInverse with a scalar that is not 32 bytes long")
				}
				continue
			}
			if mm := DiffErr(i, err, false); mm != nil {
				return ecNote(mm, "P256OrdInverse")
			}
			if mm := Diff(i, out, st.Hex("exp")); mm != nil {
				return ecNote(mm, "P256OrdInverse")
			}
		case "ordmul":
			a, b := st.Hex("a"), st.Hex("b")
			ka, kb := append([]byte(nil), a...), append([]byte(nil), b...)
			out, err := verifhook.P256OrdMul(a, b)
			if mm := DiffErr(i, err, false); mm != nil {
				return ecNote(mm, "P256OrdMul")
			}
			if mm := Diff(i, out, st.Hex("exp")); mm != nil {
				return ecNote(mm, "P256OrdMul")
			}
			if !bytes.Equal(a, ka) || !bytes.Equal(b, kb) {
				return &Mismatch{Step: i, Kind: "mismatch", Got: "operand modified", Exp: "operands unchanged", Note: "P256OrdMul"}
			}
		default:
			panic("harness: sm2ec: unknown op " + st.Str("op"))
		}
	}
	return nil
}

// ---------------------------------------------------------------- route 3: key types (ecdh, sm2)

func ecRunKeys(t *Trace) *Mismatch {
	var r1 []byte // encoding of register 1 as the specification has it
	for i, st := range t.Steps {
		At(i)
		switch st.Str("op") {
		case "init":
			r1 = st.Hex("r1")
		case "basemult":
			k, exp, priv := st.Hex("k"), st.Hex("exp"), st.Str("priv")
			ek, err := ecdh.P256().NewPrivateKey(k)
			if priv != "any" {
				if mm := DiffErr(i, err, priv == "no"); mm != nil {
					return ecNote(mm, "ecdh.P256().NewPrivateKey")
				}
			}
			if err == nil {
				if mm := Diff(i, ek.PublicKey().Bytes(), exp); mm != nil {
					return ecNote(mm, "ecdh PrivateKey.PublicKey")
				}
				if mm := Diff(i, ek.Bytes(), k); mm != nil {
					return ecNote(mm, "ecdh PrivateKey.Bytes")
				}
			}
			sk, err := sm2.NewPrivateKey(k)
			if priv != "any" {
				if mm := DiffErr(i, err, priv == "no"); mm != nil {
					return ecNote(mm, "sm2.NewPrivateKey")
				}
			}
			if err == nil {
				if mm := DiffStr(i, ecToEnc(sk.X, sk.Y), st.Str("exp")); mm != nil {
					return ecNote(mm, "sm2.NewPrivateKey public key")
				}
				if mm := Diff(i, sk.D.FillBytes(make([]byte, 32)), k); mm != nil {
					return ecNote(mm, "sm2.NewPrivateKey D")
				}
			}
			r1 = exp
		case "mult":
			k, exp := st.Hex("k"), st.Hex("exp")
			if st.Str("priv") == "yes" && len(r1) == 65 {
				ek, err := ecdh.P256().NewPrivateKey(k)
				if mm := DiffErr(i, err, false); mm != nil {
					return ecNote(mm, "ecdh.P256().NewPrivateKey")
				}
				pub, err := ecdh.P256().NewPublicKey(r1)
				if mm := DiffErr(i, err, false); mm != nil {
					return ecNote(mm, "ecdh.P256().NewPublicKey on a curve point")
				}
				x, err := ek.ECDH(pub)
				// [k]R = O cannot happen for 1 <= k < n and R of order n; the specification says so through exp
				if mm := DiffErr(i, err, len(exp) != 65); mm != nil {
					return ecNote(mm, "ECDH")
				}
				if err == nil {
					if mm := Diff(i, x, exp[1:33]); mm != nil {
						return ecNote(mm, "ECDH")
					}
				}
			}
			r1 = exp
		case "combined", "add", "double", "multreg":
			if st.Str("op") == "combined" || st.Int("a") == 1 {
				r1 = st.Hex("exp")
			}
		case "decode":
			data := st.Hex("data")
			acc := st["acc"].(map[string]interface{})
			pub, err := ecdh.P256().NewPublicKey(data)
			if mm := DiffErr(i, err, !acc["ecdhpub"].(bool)); mm != nil {
				return ecNote(mm, "ecdh.P256().NewPublicKey")
			}
			if err == nil {
				if mm := Diff(i, pub.Bytes(), st.Hex("exp")); mm != nil {
					return ecNote(mm, "ecdh PublicKey.Bytes")
				}
			}
			spub, err := sm2.NewPublicKey(data)
			if mm := DiffErr(i, err, !acc["sm2pub"].(bool)); mm != nil {
				return ecNote(mm, "sm2.NewPublicKey")
			}
			if err == nil {
				if mm := DiffStr(i, ecToEnc(spub.X, spub.Y), st.Str("exp")); mm != nil {
					return ecNote(mm, "sm2.NewPublicKey")
				}
			}
			if st.Str("form") != "none" {
				r1 = st.Hex("exp")
			}
		case "encode", "oncurve", "ordinv", "ordmul":
		default:
			panic("harness: sm2ec: unknown op " + st.Str("op"))
		}
	}
	return nil
}
