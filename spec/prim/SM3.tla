-------------------------------- MODULE SM3 --------------------------------
(* GB/T 32905-2016 (SM3 cryptographic hash), written from the standard:     *)
(* padding (5.2), message expansion (5.3.2), compression function CF (5.3.3) *)
(* and iteration (5.3.1).  Bit-exact and executable by TLC: words are pairs  *)
(* of 16-bit halves (module Words).                                          *)
EXTENDS Integers, Sequences, Words, Bytes
LOCAL INSTANCE SequencesExt

IV == << <<29568, 5743>>, <<18708, 45753>>, <<5924, 17111>>, <<55946, 1536>>,
         <<43375, 12476>>, <<5681, 14506>>, <<58253, 61005>>, <<45307, 3662>> >>
      \* 7380166f 4914b2b9 172442d7 da8a0600 a96f30bc 163138aa e38dee4d b0fb0e4e

T(j) == IF j < 16 THEN <<31180, 17689>> ELSE <<31367, 40330>>   \* 79cc4519, 7a879d8a

FF(j, x, y, z) == IF j < 16 THEN WXor(WXor(x, y), z)
                  ELSE WOr(WOr(WAnd(x, y), WAnd(x, z)), WAnd(y, z))
GG(j, x, y, z) == IF j < 16 THEN WXor(WXor(x, y), z)
                  ELSE WOr(WAnd(x, y), WAnd(WNot(x), z))
P0(x) == WXor(WXor(x, WRotl(x, 9)), WRotl(x, 17))
P1(x) == WXor(WXor(x, WRotl(x, 15)), WRotl(x, 23))

(* W_0..W_67 as a sequence of 68 words (index j+1) *)
RECURSIVE ExpandFrom(_)
ExpandFrom(ws) ==
  IF Len(ws) = 68 THEN ws
  ELSE LET j == Len(ws) + 1      \* 1-based index of the word being produced (W_{j-1})
           x == WXor(WXor(ws[j - 16], ws[j - 9]), WRotl(ws[j - 3], 15))
       IN ExpandFrom(Append(ws, WXor(WXor(P1(x), WRotl(ws[j - 13], 7)), ws[j - 6])))
Expand(block) == ExpandFrom(WordsOf(block))

RECURSIVE Rounds(_, _, _)
Rounds(st, w, j) ==          \* st = <<A,B,C,D,E,F,G,H>>, j = 0..63
  IF j = 64 THEN st
  ELSE LET a12 == WRotl(st[1], 12)
           ss1 == WRotl(WAdd(WAdd(a12, st[5]), WRotl(T(j), j % 32)), 7)
           ss2 == WXor(ss1, a12)
           w1  == WXor(w[j + 1], w[j + 5])                       \* W'_j = W_j xor W_{j+4}
           tt1 == WAdd(WAdd(WAdd(FF(j, st[1], st[2], st[3]), st[4]), ss2), w1)
           tt2 == WAdd(WAdd(WAdd(GG(j, st[5], st[6], st[7]), st[8]), ss1), w[j + 1])
       IN Rounds(<<tt1, st[1], WRotl(st[2], 9), st[3], P0(tt2), st[5], WRotl(st[6], 19), st[7]>>, w, j + 1)

(* compression function: chaining value v (8 words), one 64-byte block *)
CF(v, block) == LET r == Rounds(v, Expand(block), 0) IN [i \in 1..8 |-> WXor(r[i], v[i])]

(* padding for a message of total length n bytes whose last partial block is `tail` *)
(* bit length as 8 bytes: n*8 with n < 2^28 *)
BitLen8(n) == \* 64-bit big-endian of 8n, for n < 2^31
  LET hi == n \div 536870912
      lo == n % 536870912
  IN I2OSP(hi, 4) \o I2OSP(lo \div 2097152, 1) \o I2OSP((lo % 2097152) * 8, 3)
PadTail(n) == LET r == n % 64
                  z == IF r < 56 THEN 55 - r ELSE 119 - r
              IN <<128>> \o Zeros(z) \o BitLen8(n)
Pad(m) == m \o PadTail(Len(m))

(* iteration over the blocks with FoldLeft (iterative, Java-backed): a RECURSIVE loop nests one lazy *)
(* argument per block and overflows the stack on inputs of a hundred blocks and more                 *)
Absorb(v, data) == FoldLeft(LAMBDA c, i : SubSeq(CF(c, SubSeq(data, 64 * i - 63, 64 * i)), 1, 8), v, [i \in 1..(Len(data) \div 64) |-> i])

StateBytes(v) == BytesOf(v)
Hash(m) == StateBytes(Absorb(IV, Pad(m)))

(* incremental form used by the object models: chaining value after the whole blocks of m *)
Chain(v, wholeBlocks) == Absorb(v, wholeBlocks)
Finish(v, tail, total) == StateBytes(Absorb(v, tail \o PadTail(total)))
=============================================================================
