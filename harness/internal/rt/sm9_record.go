package rt

import (
	"bytes"
	"crypto"
	"encoding/hex"
	"fmt"
	"io"
	mrand "math/rand"

	"github.com/emmansun/gmsm/sm9"
	vh "github.com/emmansun/gmsm/verifhook"
)

// Recorder of family sm9 (C10, code -> spec). The REAL public API of package sm9 generates master and
// user keys, signs, verifies, wraps, unwraps, encrypts, decrypts, runs the key exchange and marshals /
// parses the six key kinds. Randomness comes from a scripted reader, so the recorder knows the nonce r
// the library used and can log, next to every artefact, the public GT elements needed to recompute the
// artefact's bytes: w = g^r through verifhook.ScalarBaseMultGT and, where a second route exists,
// w2 = e(C1, de_B) etc. through verifhook.Pair. spec/trace/Trace_Sm9.tla recomputes every output byte
// from (script, uid, hid, message, w) with the TLA+ transcription of GM/T 0044 and requires w = w2.
// No cryptography here: only calls into the library (public API and the verifhook re-exports).
//
// Histories are a deterministic function of (seed, history index): the same seed gives byte-identical
// event files on every CPU tier and in the pure-Go build iff every output byte is the same there.

// sm9Script serves reads of more than one byte chunk-wise from a script; a one-byte read
// (randutil.MaybeReadByte, taken or not taken at random) gets a filler and consumes nothing, so the
// transcript does not depend on the coin.
type sm9Script struct {
	chunks [][]byte
	used   int
}

func (s *sm9Script) Read(p []byte) (int, error) {
	if len(p) == 1 {
		p[0] = 0xa5
		return 1, nil
	}
	if s.used >= len(s.chunks) {
		return 0, io.ErrUnexpectedEOF
	}
	c := s.chunks[s.used]
	if len(c) != len(p) {
		panic(fmt.Sprintf("harness: sm9 script: read of %d bytes but the next chunk has %d", len(p), len(c)))
	}
	copy(p, c)
	s.used++
	return len(p), nil
}

func (s *sm9Script) hexes() []string {
	out := make([]string, len(s.chunks))
	for i, c := range s.chunks {
		out[i] = hx(c)
	}
	return out
}

// usable as a nonce: 0 < c < N (plain byte comparison with the group order the library exports)
func sm9NonceOK(c []byte) bool {
	return len(c) == 32 && bytes.Compare(c, vh.BNOrderBytes) < 0 && !bytes.Equal(c, make([]byte, 32))
}

// the nonce the library will take from the script: the first usable 32-byte chunk
func (s *sm9Script) nonce() []byte {
	for _, c := range s.chunks {
		if sm9NonceOK(c) {
			return c
		}
	}
	panic("harness: sm9 script without a usable nonce")
}

func sm9Chunk(r *mrand.Rand) []byte {
	c := rbytes(r, 32)
	c[0] &= 0x7f // below N (b6...), not zero but with probability 2^-248
	return c
}

// scripts: ordinary (one usable chunk) or with refused chunks in front (all-ones, zero, N itself)
func sm9NonceScript(r *mrand.Rand, edge bool, extra ...[]byte) *sm9Script {
	s := &sm9Script{}
	if edge {
		ones := bytes.Repeat([]byte{0xff}, 32)
		s.chunks = append(s.chunks, ones, make([]byte, 32), append([]byte(nil), vh.BNOrderBytes...))
	}
	s.chunks = append(s.chunks, sm9Chunk(r))
	s.chunks = append(s.chunks, extra...)
	return s
}

func sm9G1(b65 []byte) *vh.G1 {
	p := new(vh.G1)
	if len(b65) != 65 || b65[0] != 4 {
		panic("harness: sm9 recorder: unexpected G1 encoding")
	}
	if _, err := p.Unmarshal(b65[1:]); err != nil {
		panic("harness: sm9 recorder: G1 bytes of the library do not parse: " + err.Error())
	}
	return p
}

func sm9G2(b129 []byte) *vh.G2 {
	p := new(vh.G2)
	if len(b129) != 129 || b129[0] != 4 {
		panic("harness: sm9 recorder: unexpected G2 encoding")
	}
	if _, err := p.Unmarshal(b129[1:]); err != nil {
		panic("harness: sm9 recorder: G2 bytes of the library do not parse: " + err.Error())
	}
	return p
}

func sm9Pow(base *vh.GT, k []byte) []byte {
	t := vh.GenerateGTFieldTable(base)
	w, err := vh.ScalarBaseMultGT(t, k)
	if err != nil {
		panic("harness: sm9 recorder: ScalarBaseMultGT: " + err.Error())
	}
	return w.Marshal()
}

// DER plumbing for inputs handed to the parsers (INTEGER from a scalar, SEQUENCE wrapper of GmSSL-style files)
func sm9DerLen(n int) []byte {
	switch {
	case n < 128:
		return []byte{byte(n)}
	case n < 256:
		return []byte{0x81, byte(n)}
	}
	return []byte{0x82, byte(n >> 8), byte(n)}
}

func sm9DerInt(k []byte) []byte {
	for len(k) > 1 && k[0] == 0 {
		k = k[1:]
	}
	if k[0] >= 0x80 {
		k = append([]byte{0}, k...)
	}
	return append(append([]byte{2}, sm9DerLen(len(k))...), k...)
}

func sm9DerSeq(items ...[]byte) []byte {
	var body []byte
	for _, it := range items {
		body = append(body, it...)
	}
	return append(append([]byte{0x30}, sm9DerLen(len(body))...), body...)
}

var sm9Modes = []string{"xor", "ecb", "cbc", "cfb", "ofb"}

func sm9Opts(mode string) sm9.EncrypterOpts {
	switch mode {
	case "xor":
		return sm9.DefaultEncrypterOpts
	case "ecb":
		return sm9.SM4ECBEncrypterOpts
	case "cbc":
		return sm9.SM4CBCEncrypterOpts
	case "cfb":
		return sm9.SM4CFBEncrypterOpts
	case "ofb":
		return sm9.SM4OFBEncrypterOpts
	}
	panic("harness: sm9: unknown mode " + mode)
}

// uid lengths: every residue mod 64 and the seams 64..70, 124..130, 190..200 first, then the rest of 0..200
var sm9UidLens = func() []int {
	var l []int
	seen := map[int]bool{}
	add := func(a, b int) {
		for i := a; i <= b; i++ {
			if !seen[i] {
				seen[i] = true
				l = append(l, i)
			}
		}
	}
	add(0, 70)
	add(124, 130)
	add(190, 200)
	add(0, 200)
	return l
}()

const sm9NFixed = 8 // histories 0..7: annex examples and edge cases

type sm9rec struct {
	r   *mrand.Rand
	log func(map[string]interface{})

	smaster *sm9.SignMasterPrivateKey
	emaster *sm9.EncryptMasterPrivateKey
}

var sm9recIdx int

func init() {
	RegisterRecorder("sm9", func(r *mrand.Rand, log func(map[string]interface{})) {
		idx := sm9recIdx
		sm9recIdx++
		// the data of a history depend on the seed and the index only
		h := &sm9rec{r: mrand.New(mrand.NewSource(r.Int63())), log: log}
		log(map[string]interface{}{"op": "new", "idx": idx})
		if idx < sm9NFixed {
			h.fixed(idx)
			return
		}
		h.general(idx - sm9NFixed)
	})
}

// sm9-k1zero: one history around the rule of GM/T 0044.4 7.1 A6 "K1 all zero: go back to A2". The recorder
// searches (through the library itself) for a nonce whose K1 is 00 for a one-byte message: the library either
// emits C2 = M for it or draws again (two chunks consumed). The event carries g^r for the nonce and for the spare
// one; the specification (TEncK1) follows the standard. Reported by c10.py as a note, not as a verdict on C10.
func init() {
	RegisterRecorder("sm9-k1zero", func(r *mrand.Rand, log func(map[string]interface{})) {
		h := &sm9rec{r: mrand.New(mrand.NewSource(r.Int63())), log: log}
		log(map[string]interface{}{"op": "new", "idx": -1})
		h.encMasterGen(false)
		uid := rbytes(h.r, 3)
		eu := h.encUser(uid, 3)
		pub := h.emaster.PublicKey()
		msg := []byte{0x5a}
		spare := sm9Chunk(h.r)
		for k := 1; k < 20000; k++ {
			c := make([]byte, 32)
			c[30], c[31] = byte(k>>8), byte(k)
			s := &sm9Script{chunks: [][]byte{c, spare}}
			out, err := sm9.Encrypt(s, pub, uid, 3, msg, nil)
			if err != nil {
				panic("harness: sm9-k1zero: Encrypt: " + err.Error())
			}
			if out[96] != msg[0] && s.used == 1 {
				continue
			}
			dec, derr := sm9.Decrypt(eu, uid, out, nil)
			g := vh.Pair(sm9G1(pub.Bytes()), vh.Gen2)
			log(map[string]interface{}{"op": "enck1", "uid": hx(uid), "hid": 3, "msg": hx(msg), "script": s.hexes(), "used": s.used,
				"out": hx(out), "w1": hx(sm9Pow(g, c)), "w2": hx(sm9Pow(g, spare)), "dec": hx(dec), "derr": derr != nil})
			return
		}
		panic("harness: sm9-k1zero: no nonce with K1 = 00 among 20000 (probability 1e-34)")
	})
}

// sm9-wrapzero: key encapsulation around the rule "K all zero: draw again" (GM/T 0044.3/.4 key encapsulation, step A5/A6).
// For klen = 1 the KDF output is 00 for one nonce in 256: the recorder searches (through the library itself) for a nonce
// after which WrapKey consumes a second chunk, and offers a spare nonce that is known to give a non-zero key on its own.
// The event carries g^r for both nonces and e(C, de_B) for the C that came out; the specification (TWrapK0) follows the
// standard: the first nonce is skipped entirely, C = [r2]Q_B, K = KDF(C||g^r2||ID), and unwrapping returns K.
func init() {
	RegisterRecorder("sm9-wrapzero", func(r *mrand.Rand, log func(map[string]interface{})) {
		h := &sm9rec{r: mrand.New(mrand.NewSource(r.Int63())), log: log}
		log(map[string]interface{}{"op": "new", "idx": -1})
		h.encMasterGen(false)
		uid := rbytes(h.r, 1+h.r.Intn(20))
		eu := h.encUser(uid, 3)
		pub := h.emaster.PublicKey()
		var spare []byte
		for {
			spare = sm9Chunk(h.r)
			s := &sm9Script{chunks: [][]byte{spare}}
			if _, _, err := sm9.WrapKey(s, pub, uid, 3, 1); err == nil && s.used == 1 {
				break
			}
		}
		base := rbytes(h.r, 30)
		for k := 1; k < 20000; k++ {
			c := make([]byte, 32)
			copy(c, base)
			c[0] &= 0x7f
			c[30], c[31] = byte(k>>8), byte(k)
			s := &sm9Script{chunks: [][]byte{c, spare}}
			key, out, err := sm9.WrapKey(s, pub, uid, 3, 1)
			if err == nil && s.used == 1 {
				continue
			}
			ev := map[string]interface{}{"op": "wrapk0", "uid": hx(uid), "hid": 3, "klen": 1, "script": s.hexes(), "used": s.used, "err": err != nil,
				"key": hx(key), "out": hx(out), "w1": "", "w2": "", "wc": "", "ukey": "", "uerr": true}
			g := vh.Pair(sm9G1(pub.Bytes()), vh.Gen2)
			ev["w1"], ev["w2"] = hx(sm9Pow(g, c)), hx(sm9Pow(g, spare))
			if err == nil && len(out) == 65 {
				ukey, uerr := sm9.UnwrapKey(eu, uid, out, 1)
				ev["ukey"], ev["uerr"] = hx(ukey), uerr != nil
				ev["wc"] = hx(vh.Pair(sm9G1(out), sm9G2(eu.Bytes())).Marshal())
			}
			log(ev)
			return
		}
		panic("harness: sm9-wrapzero: no nonce with K = 00 among 20000")
	})
}

// ---------------------------------------------------------------- master and user keys

func (h *sm9rec) signMasterGen(edge bool) {
	s := &sm9Script{}
	if edge { // refused: zero after the 0x42 flip, N-1 after the flip, all-ones
		z := make([]byte, 32)
		z[1] = 0x42
		nm1 := append([]byte(nil), vh.BNOrderBytes...)
		nm1[31]--
		nm1[1] ^= 0x42
		s.chunks = append(s.chunks, z, nm1, bytes.Repeat([]byte{0xff}, 32))
	}
	s.chunks = append(s.chunks, sm9Chunk(h.r))
	k, err := sm9.GenerateSignMasterKey(s)
	h.signMasterLog(k, err, map[string]interface{}{"how": "gen", "script": s.hexes(), "used": s.used, "in": ""})
}

func (h *sm9rec) signMasterFrom(scalar []byte) {
	der := sm9DerInt(scalar)
	k, err := sm9.UnmarshalSignMasterPrivateKeyASN1(der)
	h.signMasterLog(k, err, map[string]interface{}{"how": "asn1", "script": []string{}, "used": 0, "in": hx(der)})
}

func (h *sm9rec) signMasterLog(k *sm9.SignMasterPrivateKey, err error, ev map[string]interface{}) {
	ev["op"], ev["which"], ev["err"] = "master", "s", err != nil
	ev["out"], ev["pub"], ev["privasn1"], ev["pubasn1"], ev["pubcomp"] = "", "", "", "", ""
	if err == nil {
		h.smaster = k
		pa, e1 := k.MarshalASN1()
		qa, e2 := k.PublicKey().MarshalASN1()
		qc, e3 := k.PublicKey().MarshalCompressedASN1()
		if e1 != nil || e2 != nil || e3 != nil {
			panic("harness: sm9 recorder: marshalling a master key failed")
		}
		ev["out"], ev["pub"], ev["privasn1"], ev["pubasn1"], ev["pubcomp"] = hx(k.Bytes()), hx(k.PublicKey().Bytes()), hx(pa), hx(qa), hx(qc)
	}
	h.log(ev)
}

func (h *sm9rec) encMasterGen(edge bool) {
	s := &sm9Script{}
	if edge {
		z := make([]byte, 32)
		z[1] = 0x42
		s.chunks = append(s.chunks, bytes.Repeat([]byte{0xff}, 32), z)
	}
	s.chunks = append(s.chunks, sm9Chunk(h.r))
	k, err := sm9.GenerateEncryptMasterKey(s)
	h.encMasterLog(k, err, map[string]interface{}{"how": "gen", "script": s.hexes(), "used": s.used, "in": ""})
}

func (h *sm9rec) encMasterFrom(scalar []byte) {
	der := sm9DerInt(scalar)
	k, err := sm9.UnmarshalEncryptMasterPrivateKeyASN1(der)
	h.encMasterLog(k, err, map[string]interface{}{"how": "asn1", "script": []string{}, "used": 0, "in": hx(der)})
}

func (h *sm9rec) encMasterLog(k *sm9.EncryptMasterPrivateKey, err error, ev map[string]interface{}) {
	ev["op"], ev["which"], ev["err"] = "master", "e", err != nil
	ev["out"], ev["pub"], ev["privasn1"], ev["pubasn1"], ev["pubcomp"] = "", "", "", "", ""
	if err == nil {
		h.emaster = k
		pa, e1 := k.MarshalASN1()
		qa, e2 := k.PublicKey().MarshalASN1()
		qc, e3 := k.PublicKey().MarshalCompressedASN1()
		if e1 != nil || e2 != nil || e3 != nil {
			panic("harness: sm9 recorder: marshalling a master key failed")
		}
		ev["out"], ev["pub"], ev["privasn1"], ev["pubasn1"], ev["pubcomp"] = hx(k.Bytes()), hx(k.PublicKey().Bytes()), hx(pa), hx(qa), hx(qc)
	}
	h.log(ev)
}

func (h *sm9rec) signUser(uid []byte, hid byte) *sm9.SignPrivateKey {
	k, err := h.smaster.GenerateUserKey(uid, hid)
	ev := map[string]interface{}{"op": "user", "which": "s", "uid": hx(uid), "hid": int(hid), "err": err != nil, "out": "", "asn1": "", "comp": ""}
	if err == nil {
		a, e1 := k.MarshalASN1()
		c, e2 := k.MarshalCompressedASN1()
		if e1 != nil || e2 != nil {
			panic("harness: sm9 recorder: marshalling a user key failed")
		}
		ev["out"], ev["asn1"], ev["comp"] = hx(k.Bytes()), hx(a), hx(c)
	}
	h.log(ev)
	if err != nil {
		panic("harness: sm9 recorder: GenerateUserKey failed (t1 = 0 has probability 2^-256): " + err.Error())
	}
	return k
}

func (h *sm9rec) encUser(uid []byte, hid byte) *sm9.EncryptPrivateKey {
	k, err := h.emaster.GenerateUserKey(uid, hid)
	ev := map[string]interface{}{"op": "user", "which": "e", "uid": hx(uid), "hid": int(hid), "err": err != nil, "out": "", "asn1": "", "comp": ""}
	if err == nil {
		a, e1 := k.MarshalASN1()
		c, e2 := k.MarshalCompressedASN1()
		if e1 != nil || e2 != nil {
			panic("harness: sm9 recorder: marshalling a user key failed")
		}
		ev["out"], ev["asn1"], ev["comp"] = hx(k.Bytes()), hx(a), hx(c)
	}
	h.log(ev)
	if err != nil {
		panic("harness: sm9 recorder: GenerateUserKey failed (t1 = 0 has probability 2^-256): " + err.Error())
	}
	return k
}

// parse logs one call of an Unmarshal* function on an encoding of the CURRENT key of that kind:
// kind smpriv smpub supriv empriv empub eupriv; form asn1 (the library's own MarshalASN1), raw (Bytes),
// seq (the element wrapped in a SEQUENCE, as in GmSSL files), craw / casn1 (compressed point, produced by
// the library's internal MarshalCompressed).
func (h *sm9rec) parse(kind, form string, in []byte, orig interface{}) {
	var out []byte
	var err error
	eq := false
	switch kind {
	case "smpriv":
		var k *sm9.SignMasterPrivateKey
		if k, err = sm9.UnmarshalSignMasterPrivateKeyASN1(in); err == nil {
			out, eq = k.Bytes(), k.Equal(orig.(*sm9.SignMasterPrivateKey)) && k.PublicKey().Equal(orig.(*sm9.SignMasterPrivateKey).PublicKey())
		}
	case "empriv":
		var k *sm9.EncryptMasterPrivateKey
		if k, err = sm9.UnmarshalEncryptMasterPrivateKeyASN1(in); err == nil {
			out, eq = k.Bytes(), k.Equal(orig.(*sm9.EncryptMasterPrivateKey)) && k.PublicKey().Equal(orig.(*sm9.EncryptMasterPrivateKey).PublicKey())
		}
	case "smpub":
		var k *sm9.SignMasterPublicKey
		if form == "raw" || form == "craw" {
			k, err = sm9.UnmarshalSignMasterPublicKeyRaw(in)
		} else {
			k, err = sm9.UnmarshalSignMasterPublicKeyASN1(in)
		}
		if err == nil {
			out, eq = k.Bytes(), k.Equal(orig.(*sm9.SignMasterPublicKey))
		}
	case "empub":
		var k *sm9.EncryptMasterPublicKey
		if form == "raw" || form == "craw" {
			k, err = sm9.UnmarshalEncryptMasterPublicKeyRaw(in)
		} else {
			k, err = sm9.UnmarshalEncryptMasterPublicKeyASN1(in)
		}
		if err == nil {
			out, eq = k.Bytes(), k.Equal(orig.(*sm9.EncryptMasterPublicKey))
		}
	case "supriv":
		var k *sm9.SignPrivateKey
		if form == "raw" || form == "craw" {
			k, err = sm9.UnmarshalSignPrivateKeyRaw(in)
		} else {
			k, err = sm9.UnmarshalSignPrivateKeyASN1(in)
		}
		if err == nil {
			out, eq = k.Bytes(), k.Equal(orig.(*sm9.SignPrivateKey))
		}
	case "eupriv":
		var k *sm9.EncryptPrivateKey
		if form == "raw" || form == "craw" {
			k, err = sm9.UnmarshalEncryptPrivateKeyRaw(in)
		} else {
			k, err = sm9.UnmarshalEncryptPrivateKeyASN1(in)
		}
		if err == nil {
			out, eq = k.Bytes(), k.Equal(orig.(*sm9.EncryptPrivateKey))
		}
	default:
		panic("harness: sm9 recorder: unknown key kind " + kind)
	}
	h.log(map[string]interface{}{"op": "parse", "kind": kind, "form": form, "in": hx(in), "err": err != nil, "out": hx(out), "eq": eq})
}

func sm9Bits(content []byte) []byte {
	return append(append([]byte{3}, sm9DerLen(len(content)+1)...), append([]byte{0}, content...)...)
}

// every parser on every form of the current keys
func (h *sm9rec) parseAll(su *sm9.SignPrivateKey, eu *sm9.EncryptPrivateKey, sel int) {
	sm, em := h.smaster, h.emaster
	must := func(b []byte, err error) []byte {
		if err != nil {
			panic("harness: sm9 recorder: marshal failed: " + err.Error())
		}
		return b
	}
	type c struct {
		kind, form string
		in         []byte
		orig       interface{}
	}
	smpubC := sm9G2(sm.PublicKey().Bytes()).MarshalCompressed()
	empubC := sm9G1(em.PublicKey().Bytes()).MarshalCompressed()
	suC := sm9G1(su.Bytes()).MarshalCompressed()
	euC := sm9G2(eu.Bytes()).MarshalCompressed()
	cases := []c{
		{"smpriv", "asn1", must(sm.MarshalASN1()), sm},
		{"smpriv", "seq", sm9DerSeq(must(sm.MarshalASN1()), must(sm.PublicKey().MarshalASN1())), sm},
		{"empriv", "asn1", must(em.MarshalASN1()), em},
		{"empriv", "seq", sm9DerSeq(must(em.MarshalASN1())), em},
		{"smpub", "asn1", must(sm.PublicKey().MarshalASN1()), sm.PublicKey()},
		{"smpub", "casn1", must(sm.PublicKey().MarshalCompressedASN1()), sm.PublicKey()},
		{"smpub", "raw", sm.PublicKey().Bytes(), sm.PublicKey()},
		{"smpub", "seq", sm9DerSeq(must(sm.PublicKey().MarshalASN1())), sm.PublicKey()},
		{"smpub", "craw", smpubC, sm.PublicKey()},
		{"smpub", "cbits", sm9Bits(smpubC), sm.PublicKey()},
		{"empub", "asn1", must(em.PublicKey().MarshalASN1()), em.PublicKey()},
		{"empub", "casn1", must(em.PublicKey().MarshalCompressedASN1()), em.PublicKey()},
		{"empub", "raw", em.PublicKey().Bytes(), em.PublicKey()},
		{"empub", "seq", sm9DerSeq(must(em.PublicKey().MarshalASN1())), em.PublicKey()},
		{"empub", "craw", empubC, em.PublicKey()},
		{"empub", "cbits", sm9Bits(empubC), em.PublicKey()},
		{"supriv", "asn1", must(su.MarshalASN1()), su},
		{"supriv", "casn1", must(su.MarshalCompressedASN1()), su},
		{"supriv", "raw", su.Bytes(), su},
		{"supriv", "seq", sm9DerSeq(must(su.MarshalASN1()), must(sm.PublicKey().MarshalASN1())), su},
		{"supriv", "craw", suC, su},
		{"supriv", "cbits", sm9Bits(suC), su},
		{"eupriv", "asn1", must(eu.MarshalASN1()), eu},
		{"eupriv", "casn1", must(eu.MarshalCompressedASN1()), eu},
		{"eupriv", "raw", eu.Bytes(), eu},
		{"eupriv", "seq", sm9DerSeq(must(eu.MarshalASN1()), must(em.PublicKey().MarshalASN1())), eu},
		{"eupriv", "craw", euC, eu},
		{"eupriv", "cbits", sm9Bits(euC), eu},
	}
	for i, x := range cases {
		if sel < 0 || i%4 == sel%4 {
			h.parse(x.kind, x.form, x.in, x.orig)
		}
	}
}

// ---------------------------------------------------------------- operations

func (h *sm9rec) sign(su *sm9.SignPrivateKey, uid []byte, hid byte, msg []byte, how string, edge bool, kat string) {
	s := sm9NonceScript(h.r, edge)
	h.signScript(su, uid, hid, msg, how, s, kat)
}

func (h *sm9rec) signScript(su *sm9.SignPrivateKey, uid []byte, hid byte, msg []byte, how string, s *sm9Script, kat string) {
	pub := h.smaster.PublicKey()
	var hb, sb, out []byte
	var err error
	ok, okx := false, false
	switch how {
	case "func": // sm9.Sign -> (h *big.Int, S)
		hh, ss, e := sm9.Sign(s, su, msg)
		err = e
		if e == nil {
			hb, sb = hh.FillBytes(make([]byte, 32)), ss
			ok = sm9.Verify(pub, uid, hid, msg, hh, ss)
		}
	case "asn1":
		out, err = sm9.SignASN1(s, su, msg)
		if err == nil {
			ok = sm9.VerifyASN1(pub, uid, hid, msg, out)
		}
	case "method":
		out, err = su.Sign(s, msg, crypto.Hash(0))
		if err == nil {
			ok = pub.Verify(uid, hid, msg, out)
		}
	default:
		panic("harness: sm9 recorder: sign how")
	}
	ev := map[string]interface{}{"op": "sign", "uid": hx(uid), "hid": int(hid), "msg": hx(msg), "how": how, "script": s.hexes(), "used": s.used,
		"err": err != nil, "h": hx(hb), "s": hx(sb), "out": hx(out), "w": "", "ok": ok, "okx": okx, "kat": kat}
	if err == nil {
		g := vh.Pair(vh.Gen1, sm9G2(pub.Bytes()))
		ev["w"] = hx(sm9Pow(g, s.nonce()))
		// the same signature through the other entry point, and through a parsed copy of the master public key
		if how == "func" {
			pub2, e := sm9.UnmarshalSignMasterPublicKeyRaw(pub.Bytes())
			if e != nil {
				panic("harness: sm9 recorder: master public key does not parse")
			}
			okx = pub2.Verify(uid, hid, msg, sm9DerSeq(append([]byte{4, 32}, hb...), sm9Bits(sb)))
		} else {
			okx = h.smaster.PublicKey().Verify(uid, hid, msg, out)
		}
		ev["okx"] = okx
	}
	h.log(ev)
}

func (h *sm9rec) wrap(eu *sm9.EncryptPrivateKey, uid []byte, hid byte, klen int, how string, edge bool, kat string) {
	h.wrapScript(eu, uid, hid, klen, how, sm9NonceScript(h.r, edge), kat)
}

func (h *sm9rec) wrapScript(eu *sm9.EncryptPrivateKey, uid []byte, hid byte, klen int, how string, s *sm9Script, kat string) {
	pub := h.emaster.PublicKey()
	var key, out, c65, ukey []byte
	var err, uerr error
	switch how {
	case "func": // raw: 04 || C
		key, out, err = sm9.WrapKey(s, pub, uid, hid, klen)
		if err == nil {
			c65 = out
			ukey, uerr = sm9.UnwrapKey(eu, uid, out, klen)
		}
	case "func64": // unwrapping C without the 04 prefix
		key, out, err = sm9.WrapKey(s, pub, uid, hid, klen)
		if err == nil {
			c65 = out
			ukey, uerr = sm9.UnwrapKey(eu, uid, out[1:], klen)
		}
	case "method": // SM9PublicKey1 ::= BIT STRING
		key, out, err = pub.WrapKey(s, uid, hid, klen)
		if err == nil {
			c65 = out[len(out)-65:]
			ukey, uerr = eu.UnwrapKey(uid, out, klen)
		}
	case "pkg": // SM9KeyPackage
		out, err = pub.WrapKeyASN1(s, uid, hid, klen)
		if err == nil {
			var c []byte
			var e error
			key, c, e = sm9.UnmarshalSM9KeyPackage(out)
			if e != nil {
				uerr = e
			} else {
				c65 = c
				ukey, uerr = sm9.UnwrapKey(eu, uid, c, klen)
			}
		}
	default:
		panic("harness: sm9 recorder: wrap how")
	}
	ev := map[string]interface{}{"op": "wrap", "uid": hx(uid), "hid": int(hid), "klen": klen, "how": how, "script": s.hexes(), "used": s.used,
		"err": err != nil, "key": hx(key), "out": hx(out), "w": "", "w2": "", "ukey": hx(ukey), "uerr": uerr != nil, "kat": kat}
	if err == nil && len(c65) == 65 {
		g := vh.Pair(sm9G1(pub.Bytes()), vh.Gen2)
		ev["w"] = hx(sm9Pow(g, s.nonce()))
		ev["w2"] = hx(vh.Pair(sm9G1(c65), sm9G2(eu.Bytes())).Marshal())
	}
	h.log(ev)
}

func (h *sm9rec) enc(eu *sm9.EncryptPrivateKey, uid []byte, hid byte, msg []byte, mode, enc, how string, edge bool, kat string) {
	var extra [][]byte
	if mode == "cbc" || mode == "cfb" || mode == "ofb" {
		extra = append(extra, rbytes(h.r, 16))
	}
	h.encScript(eu, uid, hid, msg, mode, enc, how, sm9NonceScript(h.r, edge, extra...), kat)
}

func (h *sm9rec) encScript(eu *sm9.EncryptPrivateKey, uid []byte, hid byte, msg []byte, mode, enc, how string, s *sm9Script, kat string) {
	pub := h.emaster.PublicKey()
	opts := sm9Opts(mode)
	var out, dec []byte
	var err, derr error
	dhow := ""
	if enc == "raw" {
		if how == "nilopts" && mode == "xor" {
			out, err = sm9.Encrypt(s, pub, uid, hid, msg, nil)
		} else {
			out, err = sm9.Encrypt(s, pub, uid, hid, msg, opts)
		}
	} else if how == "method" {
		out, err = pub.Encrypt(s, uid, hid, msg, opts)
	} else if how == "nilopts" && mode == "xor" {
		out, err = sm9.EncryptASN1(s, pub, uid, hid, msg, nil)
	} else {
		out, err = sm9.EncryptASN1(s, pub, uid, hid, msg, opts)
	}
	var c64 []byte
	if err == nil {
		sel := h.r.Intn(4)
		if enc == "raw" {
			c64 = out[:64]
			if len(uid) > 0 && sel%2 == 1 {
				dhow = "decrypter"
				o, e := sm9.NewDecrypterOptsWithUID(opts, uid)
				if e != nil {
					panic("harness: sm9 recorder: NewDecrypterOptsWithUID: " + e.Error())
				}
				dec, derr = eu.Decrypt(nil, out, o)
			} else {
				dhow = "func"
				dec, derr = sm9.Decrypt(eu, uid, out, opts)
			}
		} else {
			switch {
			case sel == 0:
				dhow = "func"
				dec, derr = sm9.DecryptASN1(eu, uid, out)
			case sel == 1:
				dhow = "method"
				dec, derr = eu.DecryptASN1(uid, out)
			case sel == 2 || len(uid) == 0:
				dhow = "decrypter-uid"
				dec, derr = eu.Decrypt(nil, out, uid)
			default:
				dhow = "decrypter"
				o, e := sm9.NewDecrypterOptsWithUID(nil, uid)
				if e != nil {
					panic("harness: sm9 recorder: NewDecrypterOptsWithUID: " + e.Error())
				}
				dec, derr = eu.Decrypt(nil, out, o)
			}
		}
	}
	ev := map[string]interface{}{"op": "enc", "uid": hx(uid), "hid": int(hid), "msg": hx(msg), "mode": mode, "enc": enc, "how": how, "script": s.hexes(), "used": s.used,
		"err": err != nil, "out": hx(out), "w": "", "w2": "", "c1": hx(c64), "dec": hx(dec), "derr": derr != nil, "dhow": dhow, "kat": kat}
	if err == nil {
		g := vh.Pair(sm9G1(pub.Bytes()), vh.Gen2)
		ev["w"] = hx(sm9Pow(g, s.nonce()))
		if enc == "raw" {
			ev["w2"] = hx(vh.Pair(sm9G1(append([]byte{4}, c64...)), sm9G2(eu.Bytes())).Marshal())
		}
	}
	h.log(ev)
}

// kx runs the whole protocol between A (initiator) and B (responder) honestly and logs everything in one event.
func (h *sm9rec) kx(ida, idb []byte, hid byte, klen int, confirm bool, sa, sb *sm9Script, kat string) {
	pub := h.emaster.PublicKey()
	ka, err := h.emaster.GenerateUserKey(ida, hid)
	if err != nil {
		panic("harness: sm9 recorder: GenerateUserKey: " + err.Error())
	}
	kb, err := h.emaster.GenerateUserKey(idb, hid)
	if err != nil {
		panic("harness: sm9 recorder: GenerateUserKey: " + err.Error())
	}
	ini := ka.NewKeyExchange(ida, idb, klen, confirm)
	rsp := kb.NewKeyExchange(idb, ida, klen, confirm)
	ev := map[string]interface{}{"op": "kx", "ida": hx(ida), "idb": hx(idb), "hid": int(hid), "klen": klen, "confirm": confirm,
		"scripta": sa.hexes(), "scriptb": sb.hexes(), "kat": kat, "err": "", "dea": hx(ka.Bytes()), "deb": hx(kb.Bytes()),
		"ra": "", "rb": "", "sb": "", "ka": "", "sa": "", "kb": "", "out": "",
		"g1": "", "g1x": "", "g2": "", "g2x": "", "g3": "", "g3x": ""}
	func() {
		ra, err := ini.InitKeyExchange(sa, hid)
		if err != nil {
			ev["err"] = "init"
			return
		}
		ev["ra"] = hx(ra)
		rb, sB, err := rsp.RespondKeyExchange(sb, hid, ra)
		if err != nil {
			ev["err"] = "respond"
			return
		}
		ev["rb"], ev["sb"] = hx(rb), hx(sB)
		keyA, sA, err := ini.ConfirmResponder(rb, sB)
		if err != nil {
			ev["err"] = "confirm-responder"
			return
		}
		ev["ka"], ev["sa"], ev["out"] = hx(keyA), hx(sA), hx(keyA)
		var keyB []byte
		if confirm {
			keyB, err = rsp.ConfirmInitiator(sA)
		} else {
			keyB, err = rsp.ConfirmInitiator(nil)
		}
		if err != nil {
			ev["err"] = "confirm-initiator"
			return
		}
		ev["kb"] = hx(keyB)
		// the three GT elements by both routes
		g := vh.Pair(sm9G1(pub.Bytes()), vh.Gen2)
		nA, nB := sa.nonce(), sb.nonce()
		g1 := sm9Pow(g, nA)
		g1x := vh.Pair(sm9G1(ra), sm9G2(kb.Bytes()))
		g2 := sm9Pow(g, nB)
		g2x := vh.Pair(sm9G1(rb), sm9G2(ka.Bytes()))
		g3, e1 := vh.ScalarMultGT(g2x, nA)
		g3x, e2 := vh.ScalarMultGT(g1x, nB)
		if e1 != nil || e2 != nil {
			panic("harness: sm9 recorder: ScalarMultGT failed")
		}
		ev["g1"], ev["g1x"], ev["g2"], ev["g2x"], ev["g3"], ev["g3x"] = hx(g1), hx(g1x.Marshal()), hx(g2), hx(g2x.Marshal()), hx(g3.Marshal()), hx(g3x.Marshal())
	}()
	ini.Destroy()
	rsp.Destroy()
	h.log(ev)
}

// ---------------------------------------------------------------- histories

func sm9Hex(s string) []byte {
	b, err := hex.DecodeString(s)
	if err != nil {
		panic("harness: bad hex constant")
	}
	return b
}

func sm9Pad32(b []byte) []byte {
	out := make([]byte, 32)
	copy(out[32-len(b):], b)
	return out
}

// fixed histories: the worked examples of GM/T 0044.5 (inputs as cited in internal/sm9/sm9_test.go) driven
// through the public API with the annex's random values as script, and edge cases of the random draws.
func (h *sm9rec) fixed(idx int) {
	alice, bob := []byte("Alice"), []byte("Bob")
	switch idx {
	case 0: // annex A: signature
		h.signMasterFrom(sm9Hex("000130e78459d78545cb54c587e02cf480ce0b66340f319f348a1d5b1f2dc5f4"))
		su := h.signUser(alice, 1)
		for _, how := range []string{"func", "asn1"} {
			s := &sm9Script{chunks: [][]byte{sm9Pad32(sm9Hex("033c8616b06704813203dfd00965022ed15975c662337aed648835dc4b1cbe"))}}
			h.signScript(su, alice, 1, []byte("Chinese IBS standard"), how, s, "A")
		}
	case 1: // annex C: key encapsulation
		h.encMasterFrom(sm9Hex("0001edee3778f441f8dea3d9fa0acc4e07ee36c93f9a08618af4ad85cede1c22"))
		eu := h.encUser(bob, 3)
		for _, how := range []string{"func", "pkg"} {
			s := &sm9Script{chunks: [][]byte{sm9Pad32(sm9Hex("74015f8489c01ef4270456f9e6475bfb602bde7f33fd482ab4e3684a6722"))}}
			h.wrapScript(eu, bob, 3, 32, how, s, "C")
		}
	case 2: // annex D: encryption, stream (XOR) and block (SM4-ECB) variants
		h.encMasterFrom(sm9Hex("0001edee3778f441f8dea3d9fa0acc4e07ee36c93f9a08618af4ad85cede1c22"))
		eu := h.encUser(bob, 3)
		for _, m := range []string{"xor", "ecb"} {
			for _, e := range []string{"raw", "asn1"} {
				s := &sm9Script{chunks: [][]byte{sm9Pad32(sm9Hex("aac0541779c8fc45e3e2cb25c12b5d2576b2129ae8bb5ee2cbe5ec9e785c"))}}
				h.encScript(eu, bob, 3, []byte("Chinese IBE standard"), m, e, "opts", s, "D"+m)
			}
		}
	case 3: // annex B: key exchange with confirmation
		h.encMasterFrom(sm9Hex("0002e65b0762d042f51f0d23542b13ed8cfa2e9a0e7206361e013a283905e31f"))
		sa := &sm9Script{chunks: [][]byte{sm9Pad32(sm9Hex("5879dd1d51e175946f23b1b41e93ba31c584ae59a426ec1046a4d03b06c8"))}}
		sb := &sm9Script{chunks: [][]byte{sm9Pad32(sm9Hex("018b98c44bef9f8537fb7d071b2c928b3bc65bd3d69e1eee213564905634fe"))}}
		h.kx(alice, bob, 2, 16, true, sa, sb, "B")
	case 4: // refused draws in front of every kind of draw
		h.signMasterGen(true)
		h.encMasterGen(true)
		uid := rbytes(h.r, 9)
		su, eu := h.signUser(uid, 1), h.encUser(uid, 3)
		h.parseAll(su, eu, -1)
		h.sign(su, uid, 1, rbytes(h.r, 20), "asn1", true, "")
		h.wrap(eu, uid, 3, 48, "func", true, "")
		h.enc(eu, uid, 3, rbytes(h.r, 20), "cbc", "asn1", "opts", true, "")
		sa, sb := sm9NonceScript(h.r, true), sm9NonceScript(h.r, true)
		h.kx(uid, rbytes(h.r, 4), 2, 32, true, sa, sb, "")
	case 5, 6: // extreme master scalars 1 and N-2 (the largest the library admits), N-1 and 0 and N refused
		one := sm9Pad32([]byte{1})
		nm2 := append([]byte(nil), vh.BNOrderBytes...)
		nm2[31] -= 2
		nm1 := append([]byte(nil), vh.BNOrderBytes...)
		nm1[31]--
		h.signMasterFrom(nm1)
		h.signMasterFrom(make([]byte, 1))
		h.encMasterFrom(append([]byte(nil), vh.BNOrderBytes...))
		if idx == 5 {
			h.signMasterFrom(one)
			h.encMasterFrom(nm2)
		} else {
			h.signMasterFrom(nm2)
			h.encMasterFrom(one)
		}
		uid := rbytes(h.r, 17)
		su, eu := h.signUser(uid, 0xff), h.encUser(uid, 0)
		h.parseAll(su, eu, -1)
		h.sign(su, uid, 0xff, rbytes(h.r, 33), "func", false, "")
		h.wrap(eu, uid, 0, 16, "method", false, "")
		h.enc(eu, uid, 0, rbytes(h.r, 33), "xor", "raw", "nilopts", false, "")
		h.kx(uid, rbytes(h.r, 1), 0, 16, false, sm9NonceScript(h.r, false), sm9NonceScript(h.r, false), "")
	case 7: // every mode x encoding x entry point once on one key, message lengths around the SM4 block
		h.encMasterGen(false)
		uid := rbytes(h.r, 5)
		eu := h.encUser(uid, 3)
		lens := []int{1, 15, 16, 17, 31, 32, 33, 48}
		i := 0
		for _, m := range sm9Modes {
			for _, e := range []string{"raw", "asn1"} {
				for _, how := range []string{"opts", "method", "nilopts"} {
					if how == "method" && e == "raw" || how == "nilopts" && m != "xor" {
						continue
					}
					h.enc(eu, uid, 3, rbytes(h.r, lens[i%len(lens)]), m, e, how, false, "")
					i++
				}
			}
		}
	}
}

// general history g: one uid length (see sm9UidLens), all operations for that identity.  Key lengths and
// message lengths walk through the KDF block-count classes {1..3, 4..7, >= 8 hash blocks}; identities whose
// length puts the KDF counter at a block seam (len mod 64 in 52..63 or 0..3) get both large classes.
func (h *sm9rec) general(g int) {
	ulen := sm9UidLens[g%len(sm9UidLens)]
	round := g / len(sm9UidLens)
	hids := []byte{1, 3, 2, 0xff, 0}
	uid := rbytes(h.r, ulen)
	seam := ulen%64 >= 52 || ulen%64 <= 3
	k := g + 3*round
	h.signMasterGen(false)
	h.encMasterGen(false)
	shid, ehid := hids[k%5], hids[(k+1)%5]
	su, eu := h.signUser(uid, shid), h.encUser(uid, ehid)
	h.parseAll(su, eu, k)

	// signature: message lengths 0..  (H2 input = M || w: every alignment of the 384-byte w)
	mlens := []int{1, 20, 32, 55, 64, 100, 0, 191}
	h.sign(su, uid, shid, rbytes(h.r, mlens[k%len(mlens)]), []string{"asn1", "func", "method"}[k%3], false, "")

	// key encapsulation: klen classes
	klens := []int{411, 133, 32, 259, 16, 97, 224, 31}
	hows := []string{"func", "method", "pkg", "func64"}
	if seam {
		h.wrap(eu, uid, ehid, 133, hows[k%4], false, "")
		h.wrap(eu, uid, ehid, 411, hows[(k+1)%4], false, "")
	} else {
		h.wrap(eu, uid, ehid, klens[k%len(klens)], hows[k%4], false, "")
	}

	// encryption, XOR: klen = |M| + 32
	xlens := []int{100, 1, 200, 20, 65, 230, 33, 96}
	encs := []string{"raw", "asn1"}
	if seam {
		h.enc(eu, uid, ehid, rbytes(h.r, 100), "xor", encs[k%2], "opts", false, "")
		h.enc(eu, uid, ehid, rbytes(h.r, 230), "xor", encs[(k+1)%2], "opts", false, "")
	} else {
		h.enc(eu, uid, ehid, rbytes(h.r, xlens[k%len(xlens)]), "xor", encs[k%2], []string{"opts", "nilopts"}[(k/2)%2], false, "")
	}
	// encryption, SM4 modes: klen = 48
	blens := []int{1, 15, 16, 17, 33, 100, 32, 47}
	mode := sm9Modes[1+k%4]
	e := encs[(k/4)%2]
	how := "opts"
	if e == "asn1" && k%3 == 0 {
		how = "method"
	}
	h.enc(eu, uid, ehid, rbytes(h.r, blens[k%len(blens)]), mode, e, how, false, "")

	// key exchange: KDF input = IDA || IDB || RA || RB || g1 || g2 || g3, alignment (|IDA| + |IDB|) mod 64
	if seam || k%3 == 0 {
		other := rbytes(h.r, []int{0, 3, 5, 64}[k%4])
		kl := []int{16, 133, 48, 300}[k%4]
		if seam {
			other = other[:0]
			kl = []int{133, 300}[k%2]
		}
		if k%2 == 0 {
			h.kx(uid, other, hids[(k+2)%5], kl, k%4 != 1, sm9NonceScript(h.r, false), sm9NonceScript(h.r, false), "")
		} else {
			h.kx(other, uid, hids[(k+2)%5], kl, k%4 != 1, sm9NonceScript(h.r, false), sm9NonceScript(h.r, false), "")
		}
	}
}
