CONSTANTS Seed = 1
 Variants = {"z128", "z256", "eea"}
 Buckets = {0, 128, 256}
 Plain = TRUE
 Lens = {0,1,3,4,5,127,128,129,131,255,256,257,300}
 Offs = {0,1,3,4,5,127,128,129,131,255,256,257,300}
 AtLens = {1,5,129,300}
 MaxOps = 2
 MaxPos = 1300
 OutFile = "/tmp/vs/c11eea.ndjson"
SPECIFICATION Spec
VIEW View
INVARIANTS TypeOK
PROPERTIES PosExact ReplyIsSlice KsFixed
CHECK_DEADLOCK FALSE
