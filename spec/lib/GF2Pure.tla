--------------------------------- MODULE GF2Pure --------------------------------
(* Arithmetic in GF(2^128) on 16-byte strings, in the three conventions the    *)
(* standards use.                                                              *)
(*  - "LE" (IEEE P1619 XTS): byte 0 bit 0 is x^0, byte 15 bit 7 is x^127.        *)
(*  - "BR" (GCM, HCTR, GB/T 17964 XTS): byte 0 bit 7 (msb) is x^0, byte 15 bit 0 *)
(*    is x^127.                                                                *)
(* Reduction polynomial x^128 + x^7 + x^2 + x + 1 in both.                      *)
EXTENDS Integers, Sequences, Bitwise

(* multiply by x, LE convention: shift the 128-bit little-endian number left by one *)
(* every result is normalised to a concrete tuple with SubSeq: TLC's function constructors are lazy   *)
(* and un-memoised, so chaining them (128 doublings) would cost exponential time.                     *)
DblLE(t) == LET s == SubSeq([j \in 1..16 |-> ((t[j] * 2) % 256) + (IF j > 1 THEN t[j - 1] \div 128 ELSE 0)], 1, 16)
            IN IF t[16] >= 128 THEN [s EXCEPT ![1] = @ ^^ 135] ELSE s
(* multiply by x, BR convention: shift the byte string right by one bit *)
ShiftR1(v) == SubSeq([j \in 1..16 |-> (v[j] \div 2) + (IF j > 1 THEN (v[j - 1] % 2) * 128 ELSE 0)], 1, 16)
DblBR(t) == LET s == ShiftR1(t) IN IF t[16] % 2 = 1 THEN [s EXCEPT ![1] = @ ^^ 225] ELSE s

XorB(a, b) == SubSeq([j \in 1..16 |-> a[j] ^^ b[j]], 1, 16)
Zero16 == <<0, 0, 0, 0, 0, 0, 0, 0, 0, 0, 0, 0, 0, 0, 0, 0>>
(* bit i (0..127) of x in BR order: coefficient of x^i *)
BitBR(x, i) == (x[(i \div 8) + 1] \div (2 ^ (7 - (i % 8)))) % 2

(* product in the BR convention (SP 800-38D algorithm 1) *)
RECURSIVE MulLoop(_, _, _, _)
MulLoop(x, z, v, i) == IF i = 128 THEN z
                       ELSE MulLoop(x, IF BitBR(x, i) = 1 THEN XorB(z, v) ELSE z, DblBR(v), i + 1)
MulBR(x, y) == MulLoop(x, Zero16, y, 0)

(* GHASH-style polynomial hash: y_0 = 0, y_i = (y_{i-1} xor X_i) * h over the 16-byte blocks of s *)
RECURSIVE PolyFrom(_, _, _, _)
PolyFrom(h, y, s, i) == IF 16 * i > Len(s) THEN y
                        ELSE PolyFrom(h, MulBR(XorB(y, SubSeq(s, 16 * i - 15, 16 * i)), h), s, i + 1)
Poly(h, s) == PolyFrom(h, Zero16, s, 1)        \* Len(s) a multiple of 16

(* inverse by exponentiation: a^(2^128 - 2) *)
RECURSIVE SqrN(_, _)
SqrN(a, n) == IF n = 0 THEN a ELSE SqrN(MulBR(a, a), n - 1)
RECURSIVE InvLoop(_, _, _)
InvLoop(acc, sq, i) == IF i = 128 THEN acc ELSE InvLoop(MulBR(acc, sq), MulBR(sq, sq), i + 1)
One16 == <<128, 0, 0, 0, 0, 0, 0, 0, 0, 0, 0, 0, 0, 0, 0, 0>>
InvBR(a) == InvLoop(One16, MulBR(a, a), 1)      \* product of a^(2^i), i = 1..127
=============================================================================
