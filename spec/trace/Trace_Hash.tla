----------------------------- MODULE Trace_Hash -----------------------------
(* code -> spec: events recorded from real sm3.New() objects (harness         *)
(* cmd/record, family sm3hash) must be a behaviour of HashObj.  Each event    *)
(* enables exactly the HashObj action of its name with the logged arguments;  *)
(* a logged digest must equal the reply the action defines.  "new" starts the *)
(* next recorded history (TraceReset).                                        *)
EXTENDS HashObj, TLC, TLCExt, Json
CONSTANT TraceFile
Hx == INSTANCE Hex
Tr == ndJsonDeserialize(TraceFile)
VARIABLE l
tvars == <<msg, cv, snap, reply, l>>
Ev == Tr[l]
IsEvent(op) == l <= Len(Tr) /\ Tr[l].op = op /\ l' = l + 1

TNew   == IsEvent("new") /\ msg' = [o \in Objs |-> <<>>] /\ cv' = [o \in Objs |-> H!IV] /\ snap' = <<>> /\ reply' = <<>>
TWrite == IsEvent("write") /\ Write(Ev.o, Hx!ToBytes(Ev.data))
TSum   == IsEvent("sum") /\ Sum(Ev.o, Hx!ToBytes(Ev.prefix)) /\ reply' = Hx!ToBytes(Ev.out)
TReset == IsEvent("reset") /\ Reset(Ev.o)
TMarshal == IsEvent("marshal") /\ Marshal(Ev.o)
TUnmarshal == IsEvent("unmarshal") /\ Ev.err = FALSE /\ Unmarshal(Ev.o)

TraceInit == HInit /\ l = 1
TraceNext == TNew \/ TWrite \/ TSum \/ TReset \/ TMarshal \/ TUnmarshal
TraceSpec == TraceInit /\ [][TraceNext]_tvars
TraceAccepted == TLCGet("stats").diameter = Len(Tr) + 1
=============================================================================
