---------------------------- MODULE Trace_Sm2Dsa ----------------------------
(* code -> spec for C06: events recorded from real sm2.PrivateKey objects       *)
(* (harness cmd/record, family sm2dsa) must be a behaviour of Sm2KeyObj.        *)
(*   new    the object: its scalar, route, and the public key found in it; for   *)
(*          a valid scalar that key must be [d]G                                  *)
(*   sign   one Sign call on that object with the library's own randomness: the   *)
(*          logged outcome (error, or DER bytes / integer pair) must be a reply    *)
(*          Sm2KeyObj!SignObserved allows - Err for every call on d >= n-1, else   *)
(*          a strict DER signature satisfying the verification equation.  A        *)
(*          recorded panic matches no action.                                      *)
(*   verify one verification call on explicit arguments: the logged bool must be   *)
(*          Accept.                                                                *)
EXTENDS Sm2KeyObj, TLC, TLCExt, Json
CONSTANT TraceFile
Hx == INSTANCE Hex
Tr == ndJsonDeserialize(TraceFile)
VARIABLE l
tvars == <<d, pub, cache, cur, cand, reply, l>>
Ev == Tr[l]
IsEvent(op) == l <= Len(Tr) /\ Tr[l].op = op /\ l' = l + 1
HB(s) == Hx!ToBytes(s)
PtOf(xs, ys) == <<BN!Norm(HB(xs)), BN!Norm(HB(ys))>>

TNew ==
  /\ IsEvent("new")
  /\ LET dd == BN!Norm(HB(Ev.d))
         logged == PtOf(Ev.qx, Ev.qy)
     IN \E q \in {IF S!ValidPriv(dd) THEN S!PublicKey(dd) ELSE logged} :
        /\ logged = q
        /\ KeyNew(dd, q)

TSign ==
  /\ IsEvent("sign")
  /\ Ev.panic = FALSE
  /\ SignObserved(Ev.entry, HB(Ev.uid), HB(Ev.msg), HB(Ev.dig), Ev.err, Ev.ints, HB(Ev.out), HB(Ev.r), HB(Ev.s))

(* explicit arguments: public key, context or digest, candidate as bytes or as signed integers *)
TVerify ==
  /\ IsEvent("verify")
  /\ LET q == PtOf(Ev.qx, Ev.qy)
         gm == VEntryGm(Ev.entry)
         uid == HB(Ev.uid)
         msg == HB(Ev.msg)
     IN \E c \in {[NoCand EXCEPT !.kind = <<"logged", "", 0, 0>>, !.pub = q, !.gm = gm, !.uid = uid, !.msg = msg,
                             !.e = IF gm THEN DigestOf(EffUid(uid), q, msg) ELSE HB(Ev.dig),
                             !.bytes = HB(Ev.sig), !.ints = VEntryInts(Ev.entry),
                             !.rneg = Ev.rneg, !.r = BN!Norm(HB(Ev.r)), !.sneg = Ev.sneg, !.s = BN!Norm(HB(Ev.s))]} :
        /\ Ev.got = Accept(c, Ev.entry)
        /\ cand' = c
        /\ reply' = [NoReply EXCEPT !.op = "verify", !.acc = Ev.got]
        /\ UNCHANGED <<d, pub, cache, cur>>

TraceInit == KInit /\ l = 1
TraceNext == TNew \/ TSign \/ TVerify
TraceSpec == TraceInit /\ [][TraceNext]_tvars
TraceAccepted == TLCGet("stats").diameter = Len(Tr) + 1
=============================================================================
