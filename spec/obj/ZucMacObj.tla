------------------------------ MODULE ZucMacObj ------------------------------
(* The ZUC MAC objects (zuc.NewHash / NewEIAHash: 128-EIA3; zuc.NewHash256:    *)
(* ZUC-256 MAC with a 4/8/16-byte tag; interface zuc.EIA = hash.Hash + Finish) *)
(* as a state machine.  Abstract state: the bytes absorbed since the object    *)
(* was created or last reset - nothing else.  Write appends whole bytes; Sum   *)
(* replies with the MAC of the absorbed string and leaves it alone;            *)
(* Finish(p, nbits) replies with the MAC of the absorbed string followed by    *)
(* the first nbits bits of p and returns the object to its initial state, as   *)
(* Reset does.  Every tag is the definitional value of algo/ZucMac.tla, a      *)
(* function of (key, iv, bit string) only - so the tag cannot depend on how    *)
(* the message was split across writes, by construction; the code is held to   *)
(* this by trace replay and trace validation.                                  *)
(* kw caches the keystream words of the object's (algorithm, key, iv), long    *)
(* enough for the longest message of the instance (outside the VIEW).          *)
EXTENDS Integers, Sequences
M == INSTANCE ZucMac

VARIABLES alg,     \* [kind |-> "eia3" | "z256", tag |-> tag size in bytes]
          msg,     \* bytes absorbed since creation / last reset
          kw,      \* cache: keystream words of (alg, key, iv)
          reply    \* last reply (output only)
mvars == <<alg, msg, kw, reply>>

WordsNeeded(a, nbits) == IF a.kind = "eia3" THEN M!Eia3Words(nbits) ELSE M!Mac256Words(nbits, 8 * a.tag)
Tag(m, nbits) == IF alg.kind = "eia3" THEN M!Eia3OnKS(kw, m, nbits)
                 ELSE M!Mac256OnKS(kw, m, nbits, 8 * alg.tag)

MInit(a, k) == alg = a /\ msg = <<>> /\ kw = k /\ reply = <<>>

Write(data) ==
  /\ msg' = msg \o data
  /\ reply' = <<>>
  /\ UNCHANGED <<alg, kw>>
Sum(prefix) ==
  /\ WordsNeeded(alg, 8 * Len(msg)) <= Len(kw)
  /\ reply' = prefix \o Tag(msg, 8 * Len(msg))
  /\ UNCHANGED <<alg, msg, kw>>
(* p holds at least nbits bits; bits of p beyond nbits are not part of the message *)
Finish(p, nbits) ==
  /\ 8 * Len(p) >= nbits
  /\ WordsNeeded(alg, (8 * Len(msg)) + nbits) <= Len(kw)
  /\ reply' = Tag(msg \o p, (8 * Len(msg)) + nbits)
  /\ msg' = <<>>
  /\ UNCHANGED <<alg, kw>>
Reset ==
  /\ msg' = <<>>
  /\ reply' = <<>>
  /\ UNCHANGED <<alg, kw>>
=============================================================================
