// Command sched is the goroutine schedule replayer and recorder of property C20 (concurrent use of shared
// objects). It is built with -race -tags verif. For every object kind it runs trials of N goroutines on a
// FRESH shared object:
//
//	free    goroutines start on a barrier; the gate (verifhook.SetGate) records and perturbs the schedule
//	forced  the attack schedule of the Unguarded model (spec/obj/LazyInit.tla): the first goroutine inside an
//	        initialiser is held in the gate until all others have issued their call and a grace period has
//	        passed. With a correct guard the others block in Once.Do (attack infeasible); with a broken guard
//	        the second initialisation or the early use happens and is recorded.
//	steady  (second phase of every trial) the same goroutines call again on the now-initialised object.
//
// Events go to -out as flat ndjson (t, seq, kind, site, g, op, res), validated afterwards by TLC against
// spec/trace/Trace_LazyInit.tla. One summary line (JSON) per object kind goes to stdout. The Go race detector is
// the monitor for "no data race". Package-level singletons can be raced only once per process: for those kinds
// the driver re-executes itself as a child per trial.
//
// Exit status: 0 nothing found; 1 failures listed in the summary; 3 watchdog (goroutine dump on stderr);
// 4 harness trouble; 66 the race detector reported a race (and nothing else failed).
package main

import (
	"bufio"
	"bytes"
	"encoding/hex"
	"encoding/json"
	"flag"
	"fmt"
	"os"
	"os/exec"
	"strings"
	"sync"
	"time"

	"github.com/emmansun/gmsm/verifhook"
)

func saveMaterial(m material, path string) error {
	x := map[string]string{}
	for k, v := range m {
		x[k] = hex.EncodeToString(v)
	}
	b, _ := json.Marshal(x)
	return os.WriteFile(path, b, 0o600)
}

func loadMaterial(path string) (material, error) {
	b, err := os.ReadFile(path)
	if err != nil {
		return nil, err
	}
	x := map[string]string{}
	if err := json.Unmarshal(b, &x); err != nil {
		return nil, err
	}
	m := material{}
	for k, v := range x {
		if m[k], err = hex.DecodeString(v); err != nil {
			return nil, err
		}
	}
	return m, nil
}

func harnessDie(format string, a ...any) {
	fmt.Fprintf(os.Stderr, "HARNESS: "+format+"\n", a...)
	os.Exit(4)
}

func modeOf(k *kind, i, forcedEvery int) string {
	if len(k.sites) > 0 && forcedEvery > 0 && i%forcedEvery == forcedEvery-1 {
		return "forced"
	}
	return "free"
}

func main() {
	kindsF := flag.String("kinds", "all", "comma separated object kinds, or all | toy")
	n := flag.Int("n", 3, "goroutines per trial")
	trials := flag.Int("trials", 100, "trials per object kind")
	forcedEvery := flag.Int("forcedevery", 3, "every k-th trial of a kind with lazily initialised sites runs the forced schedule")
	graceMs := flag.Int("grace", 30, "forced mode: grace period in ms")
	watchdogS := flag.Int("watchdog", 120, "seconds after which a phase whose goroutines have not returned counts as deadlocked")
	seed := flag.Int64("seed", 1, "seed of the schedule perturbation")
	outp := flag.String("out", "", "ndjson event file")
	t0 := flag.Int("t0", 0, "number of the first trial")
	par := flag.Int("par", 4, "child processes run at once (per-process kinds)")
	list := flag.Bool("list", false, "list object kinds and exit")
	child := flag.Bool("child", false, "internal: run exactly one trial of -kinds in this process")
	childMode := flag.String("mode", "free", "internal: mode of the child trial")
	matp := flag.String("material", "", "internal: material file")
	flag.Parse()
	if *n < 2 || *n > maxN {
		harnessDie("-n must be in 2..%d", maxN)
	}
	verifhook.SetGate(gate) // before any goroutine is started and before any library call
	grace := time.Duration(*graceMs) * time.Millisecond
	watchdog := time.Duration(*watchdogS) * time.Second

	var m material
	var err error
	if *child {
		if m, err = loadMaterial(*matp); err != nil {
			harnessDie("material: %v", err)
		}
	} else if !*list {
		m = makeMaterial()
	}
	all := allKinds(m)
	if *list {
		for _, k := range all {
			fmt.Printf("%s\tsites=%s\tperProcess=%v\ttoy=%v\n", k.name, strings.Join(k.sites, ","), k.perProcess, k.toy)
		}
		return
	}
	var sel []*kind
	for _, k := range all {
		switch *kindsF {
		case "all":
			if !k.toy {
				sel = append(sel, k)
			}
		case "toy":
			if k.toy {
				sel = append(sel, k)
			}
		default:
			for _, want := range strings.Split(*kindsF, ",") {
				if want == k.name {
					sel = append(sel, k)
				}
			}
		}
	}
	if len(sel) == 0 {
		harnessDie("no object kind matches %q", *kindsF)
	}
	if *outp == "" {
		harnessDie("-out is required")
	}
	f, err := os.Create(*outp)
	if err != nil {
		harnessDie("%v", err)
	}
	bw := bufio.NewWriterSize(f, 1<<20)
	enc := json.NewEncoder(bw)
	stdout := json.NewEncoder(os.Stdout)
	finish := func(code int) {
		bw.Flush()
		f.Close()
		if code != 0 {
			os.Exit(code)
		}
	}

	if *child {
		k := sel[0]
		sum := newSummary(k, *n)
		// which of the sites were already initialised before main (package initialisation)?
		dl := runTrial(k, *t0, *n, *childMode, grace, watchdog, *seed, sum, enc)
		stdout.Encode(sum)
		if dl != nil {
			fmt.Fprintf(os.Stderr, "SCHED-DEADLOCK trial %d kind=%s\n%s\n", *t0, k.name, dl.dump)
			finish(3)
		}
		finish(0)
		return
	}

	code := 0
	tnext := *t0
	var matFile string
	for _, k := range sel {
		start := time.Now()
		sum := newSummary(k, *n)
		if !k.perProcess {
			for i := 0; i < *trials; i++ {
				dl := runTrial(k, tnext, *n, modeOf(k, i, *forcedEvery), grace, watchdog, *seed, sum, enc)
				tnext++
				if dl != nil {
					sum.Wall = time.Since(start).Seconds()
					stdout.Encode(sum)
					fmt.Fprintf(os.Stderr, "SCHED-DEADLOCK trial %d kind=%s\n%s\n", tnext-1, k.name, dl.dump)
					finish(3)
				}
			}
		} else {
			if matFile == "" {
				matFile = *outp + ".material"
				if err := saveMaterial(m, matFile); err != nil {
					harnessDie("%v", err)
				}
				defer os.Remove(matFile)
			}
			type childRes struct {
				sum    *summary
				events []byte
				stderr string
				rc     int
				err    string
			}
			res := make([]childRes, *trials)
			sem := make(chan struct{}, *par)
			var wg sync.WaitGroup
			for i := 0; i < *trials; i++ {
				wg.Add(1)
				sem <- struct{}{}
				go func(i, id int) {
					defer wg.Done()
					defer func() { <-sem }()
					evf := fmt.Sprintf("%s.child%d", *outp, id)
					defer os.Remove(evf)
					cmd := exec.Command(os.Args[0], "-child", "-kinds", k.name, "-n", fmt.Sprint(*n), "-t0", fmt.Sprint(id),
						"-mode", modeOf(k, i, *forcedEvery), "-grace", fmt.Sprint(*graceMs), "-watchdog", fmt.Sprint(*watchdogS),
						"-seed", fmt.Sprint(*seed), "-material", matFile, "-out", evf)
					var so, se bytes.Buffer
					cmd.Stdout, cmd.Stderr = &so, &se
					done := make(chan error, 1)
					if err := cmd.Start(); err != nil {
						res[i].err = err.Error()
						return
					}
					go func() { done <- cmd.Wait() }()
					select {
					case <-done:
					case <-time.After(2*watchdog + time.Minute):
						cmd.Process.Kill()
						<-done
						res[i].err = "child did not finish (killed)"
						return
					}
					res[i].rc = cmd.ProcessState.ExitCode()
					res[i].stderr = se.String()
					res[i].events, _ = os.ReadFile(evf)
					var s summary
					if err := json.Unmarshal(bytes.TrimSpace(so.Bytes()), &s); err != nil {
						if res[i].rc == 0 || res[i].rc == 4 {
							res[i].err = fmt.Sprintf("child rc=%d without summary: %v", res[i].rc, err)
						}
						return
					}
					res[i].sum = &s
				}(i, tnext+i)
			}
			wg.Wait()
			for i := range res {
				id := tnext + i
				r := &res[i]
				if r.err != "" {
					harnessDie("child trial %d of %s: %s\n%s", id, k.name, r.err, r.stderr)
				}
				if r.sum != nil {
					sum.add(r.sum)
					bw.Write(r.events)
				}
				race := strings.Contains(r.stderr, "WARNING: DATA RACE")
				interesting := race || r.rc != 0
				if interesting {
					fmt.Fprintf(os.Stderr, "=== child trial %d kind=%s rc=%d\n%s=== end child trial %d\n", id, k.name, r.rc, r.stderr, id)
				}
				switch {
				case race:
					sum.Races++
					sum.Fails = append(sum.Fails, fail{id, "race", firstLines(r.stderr[strings.Index(r.stderr, "WARNING: DATA RACE"):], 60)})
				case r.rc == 3:
					// the deadlock entry is already in the child's summary
				case r.rc != 0 && r.sum == nil:
					sum.Fails = append(sum.Fails, fail{id, "crash", fmt.Sprintf("child process died rc=%d: %s", r.rc, firstLines(r.stderr, 60))})
				}
			}
			tnext += *trials
		}
		sum.Wall = time.Since(start).Seconds()
		stdout.Encode(sum)
		for _, fl := range sum.Fails {
			switch {
			case fl.What == "harness":
				code = 4
			case fl.What == "deadlock" && code != 4:
				code = 3
			case code == 0:
				code = 1
			}
		}
	}
	finish(code)
}

func firstLines(s string, n int) string {
	ls := strings.SplitN(s, "\n", n+1)
	if len(ls) > n {
		ls = ls[:n]
	}
	return strings.Join(ls, "\n")
}
