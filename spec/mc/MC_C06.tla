------------------------------- MODULE MC_C06 -------------------------------
(* C06: bounded instances of obj/Sm2KeyObj with emission (family "sm2dsa").     *)
(* One behaviour = one key object: New; up to MaxSigns Sign calls (entry point,  *)
(* uid length, message length, crafted digest/stream, MaybeReadByte skew);        *)
(* Mutate(kind) on the last signature; Verify.  Expensive operators sit in        *)
(* actions taken from many states (New, Sign, Verify) so that TLC's workers        *)
(* share them: choosing a call (Pick) and choosing a mutation (Mutate) are cheap    *)
(* steps of their own, each leading to a state whose only successor is the costly   *)
(* one.  Costly values that are used more than once inside an action are bound      *)
(* with a singleton  \E x \in {expr}  (TLC re-evaluates LET definitions and         *)
(* operator arguments at every use inside actions: measured 85 s -> 12 s).          *)
(* Every New, Sign and Verify transition emits the history so far with the replies   *)
(* the specification computes.                                                      *)
(* Shapes are enumerated (keys, routes, entries, lengths, positions, kinds);        *)
(* contents come from Prng(Seed, ...).                                              *)
EXTENDS Sm2KeyObj, TLC, Json
CONSTANTS Seed, Keys, Routes, Entries, UidLens, MsgLens, Crafts, Skews, MaxSigns, MutSel, FlipMasks, NForge, OutFile
R  == INSTANCE Prng
Hx == INSTANCE Hex
Em == INSTANCE Emit

VARIABLES key, route, phase, ents, hist
vars == <<d, pub, cache, cur, cand, reply, key, route, phase, ents, hist>>
View == <<key, route, phase, cache, cur, ents, cand.kind>>

Concrete(f, n) == SubSeq(f, 1, n)
Rnd(label, n) == Concrete(R!Bytes(Seed, label, n), n)
(* ------------------------------------------------------------------ keys *)
Pow256 == <<1>> \o Concrete([i \in 1..32 |-> 0], 32)
(* a pseudo-random valid scalar in [2, n-2] *)
RndKey(j) == BN!Add(BN!Mod(Rnd(100 + j, 40), BN!Sub(S!N, <<3>>)), <<2>>)
KeyVal(id) ==
  IF id = "k1" THEN <<1>> ELSE IF id = "k2" THEN <<2>> ELSE IF id = "nm2" THEN BN!Sub(S!N, <<2>>)
  ELSE IF id = "r1" THEN RndKey(1) ELSE IF id = "r2" THEN RndKey(2) ELSE IF id = "r3" THEN RndKey(3) ELSE IF id = "r4" THEN RndKey(4)
  ELSE IF id = "short" THEN BN!Norm(Rnd(109, 24))                  \* 24-byte scalar: D.Bytes() is short
  ELSE IF id = "nm1" THEN S!NMinus1 ELSE IF id = "n" THEN S!N ELSE IF id = "np5" THEN BN!Add(S!N, <<5>>)
  ELSE IF id = "max" THEN Max256 ELSE BN!Add(Pow256, <<5>>)         \* "big33": 2^256 + 5
BadIds == {"nm1", "n", "np5", "max", "big33"}
(* the public key a careful caller stores next to d: [d mod n]G, the pair (0,0) standing for infinity *)
PubOf(id) == LET m == BN!Mod(KeyVal(id), S!N) IN IF m = <<>> THEN <<<<>>, <<>>>> ELSE S!PublicKey(m)
(* routes by which the object is made: the two constructors (valid keys only), direct struct       *)
(* construction, PrivateKey.FromECPrivateKey, and smx509.ParseSM2PrivateKey(SEC 1 bytes) (d < n)   *)
RoutesOf(id) == IF id \in BadIds THEN (IF id = "nm1" THEN {"struct", "fromec", "sec1"} ELSE {"struct", "fromec"})
                ELSE {"new", "newint", "struct", "fromec", "sec1"}
OtherId(id) == IF id = "r2" THEN "k2" ELSE "r2"

(* ------------------------------------------------------------------ data *)
Uid(ul) == Rnd(60, ul)                                              \* <<>> = default uid
Msg(i, ml) == Rnd(70 + i, ml)
Stream == Rnd(90, 1400)
Ones32 == Max256
Overlay(s, at, blk) == SubSeq(s, 1, at) \o blk \o SubSeq(s, at + Len(blk) + 1, Len(s))
(* the stream a Sign call sees: "kbig"/"kzero" put a block that rejection sampling must skip where the first nonce is read *)
StreamFor(craft, at) == IF craft = "kbig" THEN Overlay(Stream, at, Ones32)
                        ELSE IF craft = "kzero" THEN Overlay(Stream, at, Concrete([i \in 1..32 |-> 0], 32))
                        ELSE Stream
(* digests chosen so that the FIRST nonce k meets a retry condition or yields an extreme r / s (see KAT_SM2): *)
(*   r = e + x1, s = (k - r d) / (1 + d)  =>  e = r - x1,  r = (k - s (1 + d)) / d                              *)
DigestCrafts == {"r0", "rk", "s0", "r1", "rnm1", "rshort", "s1", "snm1", "sshort"}
(* 27 bytes, below 2^256 - n (about 2^224): n + v still fits 32 bytes, so the "plusn" replacement is an in-width value >= n *)
Short27 == <<127>> \o Rnd(95, 26)
Crafted(craft, dd, at) ==
  LET k == BN!Norm(SubSeq(Stream, at + 1, at + 32))
      x1 == S!Ec!Mul(k, S!G)[1]
      n == S!N
      dinv == BN!InvMod(dd, n)
      rOfS(sv) == BN!MulMod(BN!SubMod(k, BN!MulMod(sv, BN!Add(dd, <<1>>), n), n), dinv, n)
      rt == IF craft = "r0" THEN <<>>
            ELSE IF craft = "rk" THEN BN!Sub(n, k)
            ELSE IF craft = "s0" THEN rOfS(<<>>)
            ELSE IF craft = "r1" THEN <<1>>
            ELSE IF craft = "rnm1" THEN S!NMinus1
            ELSE IF craft = "rshort" THEN Short27
            ELSE IF craft = "s1" THEN rOfS(<<1>>)
            ELSE IF craft = "snm1" THEN rOfS(S!NMinus1)
            ELSE rOfS(Short27)
  IN S!F32(BN!SubMod(rt, x1, n))

B2S(b) == IF b THEN "01" ELSE "00"
HexN(v) == Hx!FromBytes(BN!Norm(v))
PubHex(q, f) == IF q = <<>> THEN "" ELSE Hx!FromBytes(S!F32(q[f]))

Init == /\ KInit
        /\ key \in Keys /\ route \in (Routes \cap RoutesOf(key))
        /\ phase = "init" /\ ents = <<>> /\ hist = <<>>

Emit(h) == Em!Line(OutFile, ToJson([fam |-> "sm2dsa", steps |-> h]))

NNew ==
  /\ phase = "init" /\ phase' = "ready"
  /\ KeyNew(KeyVal(key), PubOf(key))
  /\ UNCHANGED <<key, route, ents>>
  /\ hist' = << [op |-> "new", route |-> route, key |-> key, bad |-> key \in BadIds,
                 d |-> IF key = "big33" THEN Hx!FromBytes(KeyVal(key)) ELSE Hx!FromBytes(S!F32(KeyVal(key))),
                 qx |-> PubHex(pub', 1), qy |-> PubHex(pub', 2), exp |-> IF key \in BadIds THEN "" ELSE PubHex(pub', 1) \o PubHex(pub', 2)] >>
  /\ Emit(hist')

(* choosing the next call is a step of its own, so that the costly Sign steps start from many states *)
NPick(en, ul, ml, craft, skew) ==
  /\ phase \in {"ready", "signed"} /\ Len(ents) < MaxSigns /\ phase' = "picked"
  /\ (craft \in DigestCrafts => (~EntryGm(en) /\ key \notin BadIds))
  /\ (en = "sign_default" => ul = 0)
  /\ ents' = Append(ents, <<en, ul, ml, craft, skew>>)
  /\ UNCHANGED <<d, pub, cache, cur, cand, reply, key, route, hist>>

NSign ==
  /\ phase = "picked" /\ phase' = "signed"
  /\ LET i == Len(ents)
         en == ents[i][1]
         craft == ents[i][4]
         skew == ents[i][5]
         uid == Uid(ents[i][2])
         msg == Msg(i, ents[i][3])
         bad == key \in BadIds
         at == cur + skew
         strm == StreamFor(craft, at)
         prov == craft \notin DigestCrafts
     IN \E dig \in {IF EntryGm(en) THEN <<>>                       \* (singleton \E: evaluate once, bind the value)
                    ELSE IF bad THEN Rnd(96, 32)
                    ELSE IF prov THEN DigestOf(EffUid(uid), pub, msg)
                    ELSE Crafted(craft, d, at)} :
        /\ Sign(en, uid, msg, dig, prov, strm, skew)
        /\ UNCHANGED <<key, route, ents>>
        /\ hist' = Append(hist, [op |-> "sign", entry |-> en, uid |-> Hx!FromBytes(uid),
                                 msg |-> IF EntryGm(en) \/ prov THEN Hx!FromBytes(msg) ELSE "",
                                 dig |-> IF EntryGm(en) THEN (IF reply'.err THEN "" ELSE Hx!FromBytes(cand'.e)) ELSE Hx!FromBytes(dig),
                                 rand |-> Hx!FromBytes(SubSeq(strm, at + 1, cur')),
                                 craft |-> craft, skew |-> skew, tries |-> reply'.tries,
                                 err |-> reply'.err, exp |-> Hx!FromBytes(reply'.sig),
                                 r |-> HexN(reply'.r), s |-> HexN(reply'.s)])
        /\ Emit(hist')

(* ------------------------------------------------------------- mutations *)
TagVals(w) == IF w = "seq" THEN {0, 2, 4, 16, 49, 112, 160, 176} ELSE {0, 1, 3, 4, 10, 34, 48, 130, 31}
LenVals(l) == {0, l - 1, l + 1, 128, 129, 255}
FlipKinds(c)   == {<<"flip", "", i, m>> : i \in 1..Len(c.bytes), m \in FlipMasks}
LenKinds(c)    == UNION {{<<"setlen", w, v, 0>> : v \in LenVals(c.bytes[HdrPos(c.bytes, w, "len")])} : w \in {"seq", "r", "s"}}
TagKindsOf(c)  == UNION {{<<"settag", w, v, 0>> : v \in TagVals(w)} : w \in {"seq", "r", "s"}}
IntKindsOf(c)  == {<<"intr", x, 0, 0>> : x \in IntKinds} \cup {<<"ints", x, 0, 0>> : x \in IntKinds}
EncKindsOf(c)  == {<<"enc", x, 0, 0>> : x \in EncKinds}
CtxKindsOf(c)  == {<<"ctx", x, 0, 0>> : x \in CtxKinds \ {"msgflip", "digflip"}}
                  \cup {<<"ctx", "msgflip", i, 0>> : i \in {1, Len(c.msg)} \ {0}}
                  \cup {<<"ctx", "digflip", i, m>> : i \in {1, 32}, m \in {1, 128}}
AdvKindsOf     == {<<"adv", nm, j, 0>> : nm \in AdvKinds, j \in 1..3}
ForgeKinds     == {<<"forge", "", j, 0>> : j \in 1..NForge}
KindsOf(c) == (IF "flip" \in MutSel THEN FlipKinds(c) ELSE {})
         \cup (IF "len" \in MutSel THEN LenKinds(c) ELSE {})
         \cup (IF "tag" \in MutSel THEN TagKindsOf(c) ELSE {})
         \cup (IF "int" \in MutSel THEN IntKindsOf(c) ELSE {})
         \cup (IF "enc" \in MutSel THEN EncKindsOf(c) ELSE {})
         \cup (IF "ctx" \in MutSel THEN CtxKindsOf(c) ELSE {})
         \cup (IF "forge" \in MutSel THEN ForgeKinds ELSE {})
         \cup (IF "adv" \in MutSel THEN AdvKindsOf ELSE {})
Aux(kind) ==
  [pub |-> IF kind[2] = "otherkey" THEN PubOf(OtherId(key)) ELSE <<>>,
   uid |-> Rnd(61, 16), msg |-> IF kind[2] = "othermsg" THEN Rnd(69, Len(cand.msg)) ELSE <<>>,
   r |-> BN!Add(BN!Mod(Rnd(200 + kind[3], 40), S!NMinus1), <<1>>),
   s |-> BN!Add(BN!Mod(Rnd(300 + kind[3], 40), S!NMinus1), <<1>>)]

MutKinds == IF phase = "signed" /\ reply.op = "sign" /\ ~reply.err THEN KindsOf(cand) ELSE {}
NMutate(kind) ==
  /\ phase = "signed" /\ reply.op = "sign" /\ ~reply.err /\ phase' = "cand"
  /\ Mutate(kind, Aux(kind))
  /\ UNCHANGED <<key, route, ents, hist>>

(* the honest signature is verified as it is *)
NKeep ==
  /\ phase = "signed" /\ reply.op = "sign" /\ ~reply.err /\ phase' = "cand" /\ "none" \in MutSel
  /\ reply' = [NoReply EXCEPT !.op = "mutate"]
  /\ UNCHANGED <<d, pub, cache, cur, cand, key, route, ents, hist>>

AllVEntries == <<"asn1", "x509digest", "asn1sm2", "x509", "legacy", "legacysm2">>
NVerify ==
  /\ phase = "cand" /\ phase' = "done"
  /\ Verify("asn1")
  /\ UNCHANGED <<key, route, ents>>
  /\ LET c == cand
         accI == IF ~c.ints THEN FALSE ELSE IF c.parsed THEN reply'.acc ELSE AcceptInts(c)
     IN hist' = Append(hist, [op |-> "verify", kind |-> c.kind,
                              entries |-> SelectSeq(AllVEntries, LAMBDA en : VApplicable(c, en)),
                              qx |-> PubHex(c.pub, 1), qy |-> PubHex(c.pub, 2),
                              uid |-> Hx!FromBytes(c.uid), msg |-> IF c.gm THEN Hx!FromBytes(c.msg) ELSE "", dig |-> Hx!FromBytes(c.e),
                              sig |-> Hx!FromBytes(c.bytes),
                              ints |-> c.ints, rneg |-> c.rneg, r |-> HexN(c.r), sneg |-> c.sneg, s |-> HexN(c.s),
                              expi |-> B2S(accI), exp |-> B2S(reply'.acc)])
  /\ Emit(hist')

Next == \/ NNew
        \/ \E en \in Entries, ul \in UidLens, ml \in MsgLens, craft \in Crafts, skew \in Skews : NPick(en, ul, ml, craft, skew)
        \/ NSign
        \/ \E kind \in MutKinds : NMutate(kind)
        \/ NKeep
        \/ NVerify
Spec == Init /\ [][Next]_vars

(* ---- C06 on the model (the action properties of Sm2KeyObj) plus bookkeeping ---- *)
TypeOK == /\ phase \in {"init", "ready", "picked", "signed", "cand", "done"} /\ cache \in {"Unset", "Ok", "Failed"}
          /\ Len(ents) <= MaxSigns /\ CacheSound
(* every Sign in the history of a bad key replied Err, and no Sign of a valid key did *)
HistBadKeyAlwaysErr == \A i \in 1..Len(hist) : hist[i].op = "sign" => (hist[i].err <=> key \in BadIds)
(* the block-wise digest carried in the candidate is the standard's e (costs a hash per state: refine instance only) *)
DigestRefines == (cand.kind[1] # "nocand" /\ cand.gm) => cand.e = S!Digest(EffUid(cand.uid), cand.pub, cand.msg)
(* integer entry points agree with the DER ones on every candidate that has both forms *)
IntsAgree == [][(reply'.op = "verify" /\ cand.ints) => (hist'[Len(hist')].exp = hist'[Len(hist')].expi)]_vars
=============================================================================
