------------------------------ MODULE DrbgObj ------------------------------
(* A DRBG instantiation as a state machine (the "envelope" of SP 800-90A      *)
(* section 9 around the mechanisms of algo/Drbg.tla).                         *)
(*                                                                            *)
(* State: the mechanism's working state exactly as SP 800-90A names it        *)
(*   st = [V, C, Key, reseed_counter]  (Hash_DRBG uses V, C; HMAC_DRBG and    *)
(*   CTR_DRBG use Key, V; the unused component is <<>>),                      *)
(* the administrative information (mech, gm), and for the GM/T 0105 time      *)
(* rule an abstract clock `now` with the time of the last (re)seed.           *)
(* Actions = the public calls: Instantiate, Generate, Reseed; Tick lets time  *)
(* pass.  `reply` is the reply of the last call:                              *)
(*   [kind |-> "ok" | "reseed" | "err" | "anyerr", out |-> bytes]             *)
(*   "reseed" = the reseed-required indication (SP 800-90A 9.3.1 step 7,      *)
(*   10.x generate step 1), "err" = another error (9.1/9.2/9.3.1 length       *)
(*   checks), "anyerr" = both apply (which one is reported is not pinned:     *)
(*   9.3.1 tests the length first, the mechanism step 1 tests the counter).   *)
(* A call that is refused or fails leaves st untouched (9.3.1: the state is   *)
(* replaced only in step 10, after a successful generate algorithm).         *)
(*                                                                            *)
(* Primitives (`alg`, chosen at instantiation): SM3 or SHA-256 (outlen 32,     *)
(* seedlen 55 = 440 bits, Table 2; HMAC over the same), SM4 or AES-128/192/256 *)
(* (blocklen 16, keylen 16/24/32, seedlen = keylen + blocklen).  With Exact =  *)
(* FALSE the cryptographic part is skipped (st carries only reseed_counter):   *)
(* this is the envelope alone, valid for any primitive (e.g. SHA-512) - used   *)
(* for exhaustive exploration of op sequences where only refusals, errors and  *)
(* the counter are compared.                                                  *)
(*                                                                            *)
(* Length rules (what the library's API pins; SP 800-90A leaves min_length    *)
(* = security_strength to the Get_entropy_input call of the envelope, which   *)
(* this API does not have - the caller passes entropy_input itself - so in    *)
(* NIST mode only the empty string is "below minimum"; GM/T 0105 mode asks    *)
(* for >= 32 bytes of entropy and >= 16 bytes of nonce for SM3/SM4):          *)
(*   entropy >= MinEntropy, nonce >= MinNonce; personalisation/additional     *)
(*   input: any length (max 2^27 bytes is beyond what is explored);           *)
(*   request size <= MaxReq.                                                  *)
(* HMAC generator: GM/T 0105 defines none; gm = TRUE there means SP 800-90A   *)
(* HMAC_DRBG + the time rule + reseed entropy >= outlen (as the package       *)
(* documents).  Its per-request limit is the SP 800-90A one (2^19 bits): the   *)
(* package advertises 2048 bytes through MaxBytesPerRequest but serves larger *)
(* requests with the bytes SP 800-90A defines - modelled as the code does     *)
(* (HmacMaxReq), see the C17 report.                                          *)
EXTENDS Integers, Sequences
CONSTANTS Exact,        \* BOOLEAN: compute bytes or envelope only
          Interval,     \* reseed_interval (test level: 8)
          TimeLimit     \* GM mode: reseed required once now - lastReseed > TimeLimit (ms; test level 6000)
B  == INSTANCE Bytes
S3 == INSTANCE SM3
S4 == INSTANCE SM4
S2 == INSTANCE SHA256
AE == INSTANCE AES
HM == INSTANCE HMAC
D  == INSTANCE Drbg

VARIABLES inst,        \* BOOLEAN: instantiated
          mech,        \* "hash" | "hmac" | "ctr"
          gm,          \* BOOLEAN: GM/T 0105 mode
          alg,         \* primitive: "sm3" | "sha256" (hash, hmac), "sm4" | "aes128" | "aes192" | "aes256" (ctr)
          st,          \* working state
          lastReseed,  \* clock value at the last successful instantiate/reseed
          now,         \* abstract clock (ms)
          reply
dvars == <<inst, mech, gm, alg, st, lastReseed, now, reply>>

(* ---- primitive bindings ---- *)
Sha256(m) == S2!Hash(m)
HashOf(al, m) == IF al = "sha256" THEN S2!Hash(m) ELSE S3!Hash(m)
(* HMAC(K, x) = MacOf(al, MacKSOf(al, K), x): for SM3 the two key blocks are absorbed once per key *)
MacKSOf(al, k) == IF al = "sha256" THEN k ELSE HM!Sm3KeyState(k)
MacOf(al, ks, x) == IF al = "sha256" THEN HM!Mac(Sha256, 64, ks, x) ELSE HM!Sm3MacKS(ks, x)
CipKSOf(al, k) == IF al = "sm4" THEN S4!RoundKeys(k) ELSE AE!RoundKeys(k)
CipEncOf(al, rk, b) == IF al = "sm4" THEN S4!EncRK(rk, b) ELSE AE!EncRK(rk, b)
OutLen == 32            \* SM3, SHA-256 and HMAC over them
SeedLen == 55           \* 440 bits for outlen <= 256 (SP 800-90A Table 2)
KeyLenOf(al) == CASE al = "aes192" -> 24 [] al = "aes256" -> 32 [] OTHER -> 16
BlockLen == 16

(* ---- limits ---- *)
NistMaxReq == 2048      \* the library's max_number_of_bits_per_request (2^14 bits <= 2^19)
HmacMaxReq == 65536     \* SP 800-90A Table 2 (2^19 bits); see header
MaxReq(m, g) == IF m = "hmac" THEN HmacMaxReq
                ELSE IF g THEN (IF m = "ctr" THEN BlockLen ELSE OutLen) ELSE NistMaxReq
(* what MaxBytesPerRequest() advertises *)
AdvertisedMax(m, g) == IF m = "hmac" THEN NistMaxReq ELSE MaxReq(m, g)
MinEntropy(m, g) == IF g THEN 32 ELSE 1
MinNonce(m, g) == IF g /\ m # "hmac" THEN 16 ELSE 1
(* hmac in gm mode: the package checks the entropy minimum on reseed only *)
MinEntropyInst(m, g) == IF g /\ m # "hmac" THEN 32 ELSE 1

Blank == [V |-> <<>>, C |-> <<>>, Key |-> <<>>, reseed_counter |-> 0]
Full(r) == [V |-> D!Fix(r.V),                 \* concrete tuples in the state (see Drbg!Fix)
            C |-> IF "C" \in DOMAIN r THEN D!Fix(r.C) ELSE <<>>,
            Key |-> IF "Key" \in DOMAIN r THEN D!Fix(r.Key) ELSE <<>>,
            reseed_counter |-> r.reseed_counter]

(* ---- the mechanisms, dispatched ---- *)
DoInstantiate(al, m, e, n, p) ==
  LET Hf(x) == HashOf(al, x)
      MKf(k) == MacKSOf(al, k)
      Mf(ks, x) == MacOf(al, ks, x)
      CKf(k) == CipKSOf(al, k)
      Ef(rk, b) == CipEncOf(al, rk, b)
  IN IF ~Exact THEN [Blank EXCEPT !.reseed_counter = 1]
     ELSE CASE m = "hash" -> Full(D!HashInstantiate(Hf, OutLen, SeedLen, e, n, p))
            [] m = "hmac" -> Full(D!HmacInstantiate(MKf, Mf, OutLen, e, n, p))
            [] m = "ctr"  -> Full(D!CtrInstantiate(CKf, Ef, KeyLenOf(al), BlockLen, e, n, p))
DoReseed(al, m, g, s, e, a) ==
  LET Hf(x) == HashOf(al, x)
      MKf(k) == MacKSOf(al, k)
      Mf(ks, x) == MacOf(al, ks, x)
      CKf(k) == CipKSOf(al, k)
      Ef(rk, b) == CipEncOf(al, rk, b)
  IN IF ~Exact THEN [s EXCEPT !.reseed_counter = 1]
     ELSE CASE m = "hash" -> Full(D!HashReseed(Hf, OutLen, SeedLen, g, s, e, a))
            [] m = "hmac" -> Full(D!HmacReseed(MKf, Mf, s, e, a))
            [] m = "ctr"  -> Full(D!CtrReseed(CKf, Ef, KeyLenOf(al), BlockLen, s, e, a))
DoGenerate(al, m, g, s, n, a) ==      \* <<bytes, state>>
  LET Hf(x) == HashOf(al, x)
      MKf(k) == MacKSOf(al, k)
      Mf(ks, x) == MacOf(al, ks, x)
      CKf(k) == CipKSOf(al, k)
      Ef(rk, b) == CipEncOf(al, rk, b)
  IN IF ~Exact THEN <<<<>>, [s EXCEPT !.reseed_counter = @ + 1]>>
     ELSE LET r == CASE m = "hash" -> D!HashGenerate(Hf, OutLen, SeedLen, g, s, n, a)
                     [] m = "hmac" -> D!HmacGenerate(MKf, Mf, OutLen, s, n, a)
                     [] m = "ctr"  -> D!CtrGenerate(CKf, Ef, KeyLenOf(al), BlockLen, s, n, a)
          IN <<D!Fix(r[1]), Full(r[2])>>

Ok(out) == [kind |-> "ok", out |-> out]
Fail(k) == [kind |-> k, out |-> <<>>]

DInit == /\ inst = FALSE /\ mech = "none" /\ gm = FALSE /\ alg = "none" /\ st = Blank
         /\ lastReseed = 0 /\ now = 0 /\ reply = Ok(<<>>)

(* reseed required? (SP 800-90A: reseed_counter > reseed_interval; GM/T 0105: or time elapsed) *)
NeedReseed == st.reseed_counter > Interval \/ (gm /\ now - lastReseed > TimeLimit)

Instantiate(m, g, al, e, n, p) ==
  /\ ~inst
  /\ IF Len(e) >= MinEntropyInst(m, g) /\ Len(n) >= MinNonce(m, g)
     THEN /\ inst' = TRUE /\ mech' = m /\ gm' = g /\ alg' = al
          /\ st' = DoInstantiate(al, m, e, n, p)
          /\ lastReseed' = now
          /\ reply' = Ok(<<>>)
     ELSE /\ reply' = Fail("err")
          /\ UNCHANGED <<inst, mech, gm, alg, st, lastReseed>>
  /\ UNCHANGED now

Generate(n, a) ==
  /\ inst
  /\ LET big == n > MaxReq(mech, gm) IN
     IF NeedReseed \/ big
     THEN /\ reply' = Fail(IF NeedReseed /\ big THEN "anyerr" ELSE IF big THEN "err" ELSE "reseed")
          /\ UNCHANGED st
     ELSE \E r \in {DoGenerate(alg, mech, gm, st, n, a)} :    \* evaluated once (an action-level LET is re-evaluated per use)
          /\ reply' = Ok(r[1])
          /\ st' = r[2]
  /\ UNCHANGED <<inst, mech, gm, alg, lastReseed, now>>

Reseed(e, a) ==
  /\ inst
  /\ IF Len(e) >= MinEntropy(mech, gm)
     THEN /\ st' = DoReseed(alg, mech, gm, st, e, a)
          /\ lastReseed' = now
          /\ reply' = Ok(<<>>)
     ELSE /\ reply' = Fail("err")
          /\ UNCHANGED <<st, lastReseed>>
  /\ UNCHANGED <<inst, mech, gm, alg, now>>

Tick(dt) == /\ now' = now + dt
            /\ UNCHANGED <<inst, mech, gm, alg, st, lastReseed, reply>>

(* forget the object (a new recorded history / a failed constructor leaves nothing behind) *)
Drop == /\ inst' = FALSE /\ mech' = "none" /\ gm' = FALSE /\ alg' = "none" /\ st' = Blank /\ lastReseed' = now
        /\ reply' = Ok(<<>>) /\ UNCHANGED now

(* ------------------------------------------------------------- C17 on the model *)
(* the counter never passes interval + 1: at most Interval generates between two (re)seeds *)
CounterBound == inst => st.reseed_counter \in 1..(Interval + 1)
(* a call that does not succeed changes nothing *)
RefusalPure == [][reply'.kind # "ok" => UNCHANGED <<inst, mech, gm, alg, st, lastReseed>>]_dvars
(* output is produced only inside the limits: a step that advances the counter started at       *)
(* reseed_counter <= Interval and, in GM mode, within the time limit; and every such step         *)
(* advances the counter by exactly one                                                           *)
IsGenStep == inst /\ inst' /\ st'.reseed_counter = st.reseed_counter + 1
GateExact == [][/\ IsGenStep => (~NeedReseed /\ reply'.kind = "ok")
                /\ (reply'.kind \in {"reseed", "anyerr"}) => NeedReseed]_dvars
(* a successful reseed (or instantiate) re-opens the gate *)
ReseedRestores == [][(lastReseed' # lastReseed \/ (inst' /\ st'.reseed_counter < st.reseed_counter) \/ (inst' /\ ~inst))
                       => (st'.reseed_counter = 1 /\ lastReseed' = now' /\ ~NeedReseed')]_dvars
(* replies have the requested length / errors carry no bytes *)
LenChecks == reply.kind # "ok" => reply.out = <<>>
=============================================================================
