#!/bin/sh
# seedtest.sh <property> <patch.diff> [tier]   — run a check against a scratch copy of /repo with a
# seeded change applied (mutation testing of the machinery; /repo itself is not touched, the
# property's evidence file is restored afterwards). Exit code is the check's (1 = change detected).
P="$1"; PATCH="$(readlink -f "$2")"; TIER="${3:-quick}"
V="$(cd "$(dirname "$0")" && pwd)"
WT="$(mktemp -d /tmp/seedwt.XXXXXX)"; rmdir "$WT"
LOG="$(mktemp /tmp/seedlog.XXXXXX)"
cleanup() { git -C /repo worktree remove --force "$WT" >/dev/null 2>&1; rm -rf "$WT" "$LOG"; [ -f "$LOG.ev" ] && mv "$LOG.ev" "$V/evidence/$P.json"; }
trap cleanup EXIT
git -C /repo worktree add --detach "$WT" HEAD >/dev/null 2>&1 || exit 2
git -C "$WT" apply "$PATCH" || exit 2
[ -f "$V/evidence/$P.json" ] && cp "$V/evidence/$P.json" "$LOG.ev"
cd "$V"
VERIF_REPO="$WT" ./check "$P" "$TIER" > "$LOG" 2>&1
rc=$?
grep -v "^Parsing\|^Semantic\|^Linting" "$LOG" | tail -${SEED_TAIL:-3} | cut -c1-400
exit $rc
