--------------------------------- MODULE Kdf ---------------------------------
(* GB/T 32918.4-2016 5.4.3 key derivation function with SM3:                 *)
(*   K = first klen bytes of  H(z || ct=1) || H(z || ct=2) || ...  (ct 32-bit BE) *)
EXTENDS Integers, Sequences
H == INSTANCE SM3
B == INSTANCE Bytes

NBlocks(klen) == (klen + 31) \div 32
(* the first k hash blocks of the stream for z; the chaining value over the whole blocks of z is shared *)
Stream(z, k) ==
  LET w == Len(z) - (Len(z) % 64)
      c == H!Chain(H!IV, SubSeq(z, 1, w))
      tail == SubSeq(z, w + 1, Len(z))
      RECURSIVE S(_)
      S(i) == IF i > k THEN <<>> ELSE H!Finish(c, tail \o B!I2OSP(i, 4), Len(z) + 4) \o S(i + 1)
  IN S(1)
KDF(z, klen) == B!Take(Stream(z, NBlocks(klen)), klen)
(* by definition, for m <= n, KDF(z, m) is a prefix of KDF(z, n): both are prefixes of one stream *)
=============================================================================
