--------------------------------- MODULE SM9 ---------------------------------
(* The SM9 identity-based schemes of GM/T 0044-2016, written from the clauses   *)
(* the library cites:                                                           *)
(*   0044.2 5.4.2.2/5.4.2.3  H1(Z,n), H2(Z,n) = (Ha mod (n-1)) + 1, Ha = the        *)
(*          first hlen = 40 bytes of Hv(0x01|0x02 || Z || ct=1) || Hv(.. ct=2)     *)
(*   0044.2 6.1/6.2/6.4      user signing key, signature, verification             *)
(*   0044.4 6.1/6.2          key encapsulation;  7.1/7.2 public-key encryption      *)
(*   0044.3 6.1/6.2          key exchange with optional confirmation               *)
(*   GM/T 0080 (SM9 application specification): the ASN.1 forms SM9Signature,      *)
(*          SM9Cipher, SM9KeyPackage, master/user key encodings                    *)
(* EXACT for everything downstream of group elements: G1 and G2 values are        *)
(* computed by algo/Bn.tla (affine big-integer arithmetic); a GT value w is a       *)
(* GIVEN 384-byte string (there is no F_p^12 tower here): every operator that       *)
(* needs one takes it as an argument.                                               *)
EXTENDS Integers, Sequences
B  == INSTANCE Bn
BN == INSTANCE BigNat
By == INSTANCE Bytes
H  == INSTANCE SM3
K  == INSTANCE Kdf
S4 == INSTANCE SM4
M  == INSTANCE Modes WITH KS <- S4!RoundKeys, E <- S4!EncRK, D <- S4!DecRK
Pd == INSTANCE Padding
D  == INSTANCE Der

N   == B!N
Nm1 == BN!Sub(N, <<1>>)
Nm2 == BN!Sub(N, <<2>>)

(* ------------------------------------------------------------ H1, H2 (0044.2 5.4.2) *)
Ha(prefix, z) == By!Take(H!Hash(<<prefix>> \o z \o By!I2OSP(1, 4)) \o H!Hash(<<prefix>> \o z \o By!I2OSP(2, 4)), 40)
Hn(prefix, z) == BN!Add(BN!Mod(BN!Norm(Ha(prefix, z)), Nm1), <<1>>)       \* in [1, n-1]
H1(z) == Hn(1, z)
H2(z) == Hn(2, z)
HId(id, hid) == H1(id \o <<hid>>)

(* ------------------------------------------------------------ scalars and keys *)
(* master private scalars accepted by the library: 1 .. N-2 (the standard allows N-1 too) *)
ValidMaster(k) == ~BN!IsZero(k) /\ BN!Lt(k, Nm1)
(* a nonce in [1, N-1] *)
ValidNonce(r) == ~BN!IsZero(r) /\ BN!Lt(r, N)
(* t1 = H1(ID||hid) + k mod N; the key exists iff t1 # 0;  t2 = k * t1^-1 mod N *)
T1(k, h1) == BN!AddMod(h1, k, N)
T2(k, h1) == BN!MulMod(k, BN!InvMod(T1(k, h1), N), N)

PpubS(ks) == B!Mul2(ks, B!G2)                          \* signature master public key, in G2
PpubE(ke) == B!E1!Mul(ke, B!E1!G)                      \* encryption master public key, in G1
DsA(ks, h1) == B!E1!Mul(T2(ks, h1), B!E1!G)            \* user signing key, in G1
DeB(ke, h1) == B!Mul2(T2(ke, h1), B!G2)                \* user decryption key, in G2
QEnc(ppube, h1) == B!E1!Add(B!E1!Mul(h1, B!E1!G), ppube)   \* Q_B = [H1(ID_B||hid)]P1 + Ppub-e
PSig(ppubs, h1) == B!Add2(B!Mul2(h1, B!G2), ppubs)         \* P = [h1]P2 + Ppub-s

(* ------------------------------------------------------------ random draws *)
(* The library reads 32 bytes at a time and keeps the first value it can use.   *)
(* script: a sequence of byte strings, one per read of more than one byte.       *)
(* NonceAt / MasterAt = index of the first usable chunk (0 if none)              *)
NonceOk(c) == Len(c) = 32 /\ ValidNonce(BN!Norm(c))
RECURSIVE NonceFrom(_, _)
NonceFrom(script, i) == IF i > Len(script) THEN 0 ELSE IF NonceOk(script[i]) THEN i ELSE NonceFrom(script, i + 1)
NonceAt(script) == NonceFrom(script, 1)
(* Generate*MasterKey flips the bits 0x42 of the second byte of what it read *)
MasterOf(c) == BN!Norm([c EXCEPT ![2] = By!BXor(<<@>>, <<66>>)[1]])
MasterOk(c) == Len(c) = 32 /\ ValidMaster(MasterOf(c))
RECURSIVE MasterFrom(_, _)
MasterFrom(script, i) == IF i > Len(script) THEN 0 ELSE IF MasterOk(script[i]) THEN i ELSE MasterFrom(script, i + 1)
MasterAt(script) == MasterFrom(script, 1)

(* ------------------------------------------------------------ point and key encodings *)
U1(Q) == <<4>> \o B!G1Bytes(Q)                           \* 65 bytes
U2(Q) == <<4>> \o B!G2Bytes(Q)                           \* 129 bytes
C1c(Q) == B!G1Compressed(Q)                              \* 33 bytes
C2c(Q) == B!G2Compressed(Q)                              \* 65 bytes
Scalar32(k) == BN!ToFixed(k, 32)
MasterPrivASN1(k) == D!EncUInt(k)                        \* SM9...MasterPrivateKey ::= INTEGER
BitsASN1(bytes) == D!EncBits(bytes, 0)                   \* public keys, user keys, SM9PublicKey1 ::= BIT STRING
SeqOf(items) == D!EncSeq(items)

(* ------------------------------------------------------------ signature (0044.2 6.2, 6.4) *)
(* given w = g^r:  h = H2(M||w),  l = (r - h) mod N (l = 0: draw again),  S = [l]dsA *)
SigH(msg, w) == H2(msg \o w)
SigL(r, h) == BN!SubMod(r, h, N)
SigS(dsa, r, h) == B!E1!Mul(SigL(r, h), dsa)
(* verification equation for a given w' = e(S',P) * g^h' *)
SigOK(msg, w, h) == ValidNonce(h) /\ H2(msg \o w) = h
SigRaw(h, S) == Scalar32(h) \o U1(S)                                   \* h (32 bytes) || 04 || S
SigASN1(h, S) == SeqOf(<<D!EncOctets(Scalar32(h)), BitsASN1(U1(S))>>)    \* SM9Signature ::= SEQUENCE { h OCTET STRING, S BIT STRING }

(* ------------------------------------------------------------ key encapsulation (0044.4 6.1, 6.2) *)
(* C = [r]Q_B;  K = KDF(C || w || ID_B, klen)  with w = g^r = e(C, de_B) *)
KemC(qb, r) == B!E1!Mul(r, qb)
KemK(c64, w, id, klen) == K!KDF(c64 \o w \o id, klen)
KeyPackageASN1(key, c65) == SeqOf(<<D!EncOctets(key), BitsASN1(c65)>>)    \* SM9KeyPackage

(* ------------------------------------------------------------ encryption (0044.4 7.1, 7.2) *)
Modes == {"xor", "ecb", "cbc", "cfb", "ofb"}
EnType(mode) == CASE mode = "xor" -> 0 [] mode = "ecb" -> 1 [] mode = "cbc" -> 2 [] mode = "ofb" -> 4 [] mode = "cfb" -> 8
ModeOf(t) == CASE t = 0 -> "xor" [] t = 1 -> "ecb" [] t = 2 -> "cbc" [] t = 4 -> "ofb" [] t = 8 -> "cfb" [] OTHER -> "none"
NeedsIV(mode) == mode \in {"cbc", "cfb", "ofb"}
K1Len(mode, n) == IF mode = "xor" THEN n ELSE 16          \* n = |M| (encrypt) or |C2| (decrypt)
K2Len == 32
(* C2: XOR with K1, or SM4 under K1 (PKCS#7 for ECB/CBC; the IV travels in front of the CBC/CFB/OFB output) *)
PayloadEnc(mode, k1, iv, m) ==
  LET rk == S4!RoundKeys(k1)
      pm == Pd!Pad("pkcs7", 16, m)
  IN CASE mode = "xor" -> By!BXor(m, k1)
       [] mode = "ecb" -> M!EcbEnc(rk, pm)
       [] mode = "cbc" -> iv \o M!CbcEnc(rk, iv, pm)
       [] mode = "cfb" -> iv \o M!CfbEnc(rk, iv, m)
       [] mode = "ofb" -> iv \o M!Ofb(rk, iv, m)
NoMsg == [ok |-> FALSE, msg |-> <<>>]
Unp(x) == LET u == Pd!Unpad("pkcs7", 16, x) IN IF u.err THEN NoMsg ELSE [ok |-> TRUE, msg |-> u.msg]
PayloadDec(mode, k1, c2) ==
  LET rk == S4!RoundKeys(k1)
      iv == By!Take(c2, 16)
      body == By!Drop(c2, 16)
  IN CASE mode = "xor" -> IF Len(c2) = 0 THEN NoMsg ELSE [ok |-> TRUE, msg |-> By!BXor(c2, k1)]
       [] mode = "ecb" -> IF Len(c2) = 0 \/ (Len(c2) % 16) # 0 THEN NoMsg ELSE Unp(M!EcbDec(rk, c2))
       [] mode = "cbc" -> IF Len(c2) <= 16 \/ (Len(c2) % 16) # 0 THEN NoMsg ELSE Unp(M!CbcDec(rk, iv, body))
       [] mode = "cfb" -> IF Len(c2) <= 16 THEN NoMsg ELSE [ok |-> TRUE, msg |-> M!CfbDec(rk, iv, body)]
       [] mode = "ofb" -> IF Len(c2) <= 16 THEN NoMsg ELSE [ok |-> TRUE, msg |-> M!Ofb(rk, iv, body)]
Mac(k2, z) == H!Hash(z \o k2)                               \* MAC(K2, Z) = Hv(Z || K2)
(* the three parts for a given C1 (64 bytes) and w *)
EncParts(c64, w, id, mode, iv, m) ==
  LET k1n == K1Len(mode, Len(m))
      key == KemK(c64, w, id, k1n + K2Len)
      c2 == PayloadEnc(mode, By!Take(key, k1n), iv, m)
  IN [c1 |-> c64, c2 |-> c2, c3 |-> Mac(By!Drop(key, k1n), c2), key |-> key]
CipherRaw(p) == p.c1 \o p.c3 \o p.c2                                         \* C1 || C3 || C2
CipherASN1(p, mode) == SeqOf(<<D!EncUInt(BN!FromInt(EnType(mode))), BitsASN1(<<4>> \o p.c1), D!EncOctets(p.c3), D!EncOctets(p.c2)>>)
(* decryption of (C1, C3, C2) for a given w' = e(C1, de_B): B3-B6 *)
DecParts(c64, c3, c2, w, id, mode) ==
  LET k1n == K1Len(mode, Len(c2))
      key == KemK(c64, w, id, k1n + K2Len)
  IN IF Mac(By!Drop(key, k1n), c2) # c3 THEN NoMsg ELSE PayloadDec(mode, By!Take(key, k1n), c2)

(* ------------------------------------------------------------ key exchange (0044.3 6.1, 6.2) *)
(* R_A = [r_A]Q_B, R_B = [r_B]Q_A; g1 = e(R_A, de_B) = e(Ppub-e,P2)^rA, g2 = e(Ppub-e,P2)^rB = e(R_B, de_A), g3 = g1^rB = g2^rA *)
KxKey(ida, idb, ra64, rb64, g1, g2, g3, klen) == K!KDF(ida \o idb \o ra64 \o rb64 \o g1 \o g2 \o g3, klen)
KxInner(ida, idb, ra64, rb64, g2, g3) == H!Hash(g2 \o g3 \o ida \o idb \o ra64 \o rb64)
KxConfirm(prefix, g1, inner) == H!Hash(<<prefix>> \o g1 \o inner)            \* S_B / S_1: 0x82;  S_A / S_2: 0x83
=============================================================================
