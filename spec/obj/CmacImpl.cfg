CONSTANTS BS = 4
 Lens = {0,1,2,3,4,5,7,8,9,12,13}
 MaxLen = 30
 MaxOps = 5
 ZeroWriteFlushes = FALSE
SPECIFICATION Spec
INVARIANTS Refines HeldBlock SumCases
CHECK_DEADLOCK FALSE
