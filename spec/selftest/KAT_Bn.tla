------------------------------- MODULE KAT_Bn -------------------------------
(* GM/T 0044.5 parameters are consistent: generators on their curves, of order *)
(* N; G2 arithmetic satisfies the group law on small multiples; signature       *)
(* master public key Ppub-s = [ks]P2 of GM/T 0044.5 Annex A.                    *)
EXTENDS Integers, Sequences, TLC
B == INSTANCE Bn
ASSUME B!E1!OnCurve(B!E1!G) /\ B!E1!Mul(B!N, B!E1!G) = B!E1!Inf
ASSUME B!OnTwist(B!G2) /\ B!Mul2(B!N, B!G2) = B!Inf2
ASSUME B!Add2(B!G2, B!Dbl2(B!G2)) = B!Mul2(<<3>>, B!G2) /\ B!Add2(B!Mul2(<<5>>, B!G2), B!Neg2(B!Mul2(<<2>>, B!G2))) = B!Mul2(<<3>>, B!G2)
ASSUME B!OnTwist(B!Mul2(<<7>>, B!G2))
Ks == B!Num("0130e78459d78545cb54c587e02cf480ce0b66340f319f348a1d5b1f2dc5f4")
PpubS == B!Mul2(Ks, B!G2)
(* GM/T 0044.5 A.2: Ppub-s = (x_Ppub-s, y_Ppub-s), x = (9F64080B 3084F733 ... , 29DBA116 ...) *)
ASSUME B!Hx!FromBytes(B!G2Bytes(PpubS)) =
  "9f64080b3084f733e48aff4b41b565011ce0711c5e392cfb0ab1b6791b94c40829dba116152d1f786ce843ed24a3b573414d2177386a92dd8f14d65696ea5e3269850938abea0112b57329f447e3a0cbad3e2fdb1a77f335e89e1408d0ef1c2541e00a53dda532da1a7ce027b7a46f741006e85f5cdff0730e75c05fb4e3216d"
ASSUME B!G1Decode(B!G1Bytes(B!E1!Mul(<<9>>, B!E1!G))).ok /\ B!G2Decode(B!G2Bytes(PpubS)).pt = PpubS
ASSUME B!G1DecodeCompressed(B!G1Compressed(B!E1!Mul(<<11>>, B!E1!G))).pt = B!E1!Mul(<<11>>, B!E1!G)
ASSUME PrintT("KAT_Bn ok")
VARIABLE x
Init == x = 0
Next == UNCHANGED x
Spec == Init /\ [][Next]_x
=============================================================================
