---------------------------- MODULE KAT_Pairing ----------------------------
(* algo/Fp12.tla and algo/Pairing.tla against the published values of GM/T     *)
(* 0044.5-2016 as the repository's tests quote them (marked there as the         *)
(* standard's): internal/sm9/bn256/bn_pair_test.go Test_Pairing_A2 (annex A:      *)
(* g = e(P1, Ppub-s)), Test_Pairing_B2 (annex B: g1 = e(R_A, de_B)),               *)
(* Test_Pairing_B2_2 (annex B: g2 = e(Ppub-e, P2)^r_B); internal/sm9/sm9_test.go   *)
(* TestHashH2 (annex A: w = g^r), TestWrapKeySM9Sample (annex C: K = KDF(C||w||ID)) *)
(* and TestEncryptSM9Sample (annex D: K).  No value here was obtained by running    *)
(* the library.  Plus the algebra the definitions must satisfy: field axioms on      *)
(* samples, Frobenius = p-th power, bilinearity, order N, non-degeneracy, and the    *)
(* agreement of the two transcriptions of the pairing (PairDef: everything in        *)
(* E(F_p^12); Pair: T on the twist, split final power).                               *)
EXTENDS Integers, Sequences, TLC
Pr == INSTANCE Pairing
S  == INSTANCE SM9
BN == INSTANCE BigNat
Hx == INSTANCE Hex
Num(h) == BN!Norm(Hx!ToBytes(h))
HexGT(a) == Hx!FromBytes(Pr!GTBytes(a))
G1Pt(x, y) == <<Num(x), Num(y)>>

(* ---- parameters ---- *)
ASSUME Pr!BnP(Pr!BnT) = Pr!P /\ Pr!BnN(Pr!BnT) = Pr!N
ASSUME Hx!FromBytes(Pr!LoopA) = "02400000000215d93e"                                  \* a = 6t + 2 as printed in GM/T 0044.5
ASSUME BN!Mod(BN!Sub(Pr!Pow(Pr!P, 12), <<1>>), Pr!N) = <<>>
ASSUME BN!Mod(BN!Add(BN!Sub(Pr!Pow(Pr!P, 4), Pr!Pow(Pr!P, 2)), <<1>>), Pr!N) = <<>>
ASSUME Pr!FullExp = BN!Mul(BN!Mul(BN!Sub(Pr!Pow(Pr!P, 6), <<1>>), BN!Add(Pr!Pow(Pr!P, 2), <<1>>)), Pr!HardExp)
ASSUME BN!Mod(BN!Sub(Pr!P, <<1>>), <<6>>) = <<>>

(* ---- F_p^12 on samples ---- *)
X == <<Pr!G2[1], Pr!G2[2], Pr!F2U, <<Pr!G1x, Pr!G1y>>, <<<<3>>, <<7>>>>, <<Pr!N, <<>>>>>>
Y == <<<<<<1>>, <<2>>>>, Pr!G2[2], <<Pr!G2y0, Pr!G2x1>>, Pr!F2Zero, <<Pr!G1y, <<9>>>>, Pr!G2[1]>>
Z == <<Pr!F2Zero, <<<<>>, <<1>>>>, <<Pr!G1x, Pr!G2x0>>, Pr!G2[1], Pr!F2One, <<<<255, 255>>, Pr!G1y>>>>
ASSUME Pr!F12In(X) /\ Pr!F12In(Y) /\ Pr!F12In(Z)
ASSUME Pr!F12Exp(Pr!F12W, <<6>>) = Pr!F12OfF2(Pr!F2U)                                 \* w^6 = u
ASSUME Pr!F2Sqr(Pr!F2U) = <<Pr!FNeg(<<2>>), <<>>>>                                    \* u^2 = -2
ASSUME Pr!F12Mul(X, Y) = Pr!F12Mul(Y, X)
ASSUME Pr!F12Mul(Pr!F12Mul(X, Y), Z) = Pr!F12Mul(X, Pr!F12Mul(Y, Z))
ASSUME Pr!F12Mul(X, Pr!F12Add(Y, Z)) = Pr!F12Add(Pr!F12Mul(X, Y), Pr!F12Mul(X, Z))
ASSUME Pr!F12Mul(X, Pr!F12One) = X /\ Pr!F12Add(X, Pr!F12Neg(X)) = Pr!F12Zero /\ Pr!F12Sub(X, Y) = Pr!F12Add(X, Pr!F12Neg(Y))
ASSUME Pr!F12Mul(X, Pr!F12Inv(X)) = Pr!F12One /\ Pr!F12Mul(Pr!F12Inv(Z), Z) = Pr!F12One /\ Pr!F12Inv(Pr!F12Zero) = Pr!F12Zero
ASSUME Pr!F12NormInF2(X) /\ Pr!F12NormInF2(Y)
ASSUME Pr!F2Exp(Pr!Gamma, <<6>>) = Pr!F2Exp(Pr!F2U, BN!Sub(Pr!P, <<1>>))
ASSUME Pr!F12Frob(X) = Pr!F12Exp(X, Pr!P) /\ Pr!F12Frob(Z) = Pr!F12Exp(Z, Pr!P)          \* Frobenius is the p-th power
ASSUME Pr!F12FrobN(Y, 2) = Pr!F12Exp(Y, Pr!Pow(Pr!P, 2)) /\ Pr!F12FrobN(Y, 3) = Pr!F12Exp(Y, Pr!Pow(Pr!P, 3))
ASSUME Pr!F12FrobN(X, 12) = X /\ Pr!F12FrobN(X, 6) # X
ASSUME Pr!F12Exp(X, <<>>) = Pr!F12One /\ Pr!F12Exp(X, <<5>>) = Pr!F12Mul(Pr!F12Sqr(Pr!F12Sqr(X)), X)
ASSUME Pr!F12Exp(X, BN!Sub(Pr!Pow(Pr!P, 12), <<1>>)) = Pr!F12One                          \* order of F_p^12*
ASSUME Pr!GTDecode(Pr!GTBytes(X)) = [ok |-> TRUE, v |-> X] /\ Len(Pr!GTBytes(X)) = 384

(* ---- psi and the Frobenius endomorphism on the twist ---- *)
ASSUME Pr!F12Mul(Pr!WInv2, Pr!W2) = Pr!F12One /\ Pr!F12Mul(Pr!WInv3, Pr!W3) = Pr!F12One
PsiG2 == Pr!Psi(Pr!G2)
ASSUME Pr!F12Sqr(PsiG2[2]) = Pr!F12Add(Pr!F12Mul(Pr!F12Sqr(PsiG2[1]), PsiG2[1]), Pr!F12Small(5))   \* psi(P2) is on y^2 = x^3 + 5
ASSUME Pr!UnPsi(PsiG2) = Pr!G2
ASSUME Pr!UnPsiDefined(<<Pr!F12Frob(PsiG2[1]), Pr!F12Frob(PsiG2[2])>>)
ASSUME Pr!OnTwist(Pr!PiP(Pr!G2)) /\ Pr!Mul2(Pr!N, Pr!PiP(Pr!G2)) = Pr!Inf2
ASSUME Pr!PiP(Pr!G2) = Pr!Mul2(Pr!P, Pr!G2)                                              \* pi_p acts on G2 as multiplication by p (trace-zero subgroup)

(* ---- annex A: g = e(P1, Ppub-s), w = g^r ---- *)
KsA == Num("000130e78459d78545cb54c587e02cf480ce0b66340f319f348a1d5b1f2dc5f4")
GStdA == "4e378fb5561cd0668f906b731ac58fee25738edf09cadc7a29c0abc0177aea6d" \o "28b3404a61908f5d6198815c99af1990c8af38655930058c28c21bb539ce0000" \o
         "38bffe40a22d529a0c66124b2c308dac9229912656f62b4facfced408e02380f" \o "a01f2c8bee81769609462c69c96aa923fd863e209d3ce26dd889b55e2e3873db" \o
         "67e0e0c2eed7a6993dce28fe9aa2ef56834307860839677f96685f2b44d0911f" \o "5a1ae172102efd95df7338dbc577c66d8d6c15e0a0158c7507228efb078f42a6" \o
         "1604a3fcfa9783e667ce9fcb1062c2a5c6685c316dda62de0548baa6ba30038b" \o "93634f44fa13af76169f3cc8fbea880adaff8475d5fd28a75deb83c44362b439" \o
         "b3129a75d31d17194675a1bc56947920898fbf390a5bf5d931ce6cbb3340f66d" \o "4c744e69c4a2e1c8ed72f796d151a17ce2325b943260fc460b9f73cb57c9014b" \o
         "84b87422330d7936eaba1109fa5a7a7181ee16f2438b0aeb2f38fd5f7554e57a" \o "aab9f06a4eeba4323a7833db202e4e35639d93fa3305af73f0f071d7d284fcfb"
PpubSA == Pr!Mul2(KsA, Pr!G2)
GA == Pr!Pair(Pr!E1!G, PpubSA)
ASSUME HexGT(GA) = GStdA
ASSUME HexGT(Pr!PairDef(Pr!E1!G, PpubSA)) = GStdA
ASSUME Pr!F12Exp(Pr!Miller(Pr!E1!G, PpubSA), Pr!FullExp) = GA                            \* split final power = the plain power
WStdA == "81377b8fdbc2839b4fa2d0e0f8aa6853bbbe9e9c4099608f8612c6078acd7563815aeba217ad502da0f48704cc73cabb3c06209bd87142e14cbd99e8bca1680f30dadc5cd9e207aee32209f6c3ca3ec0d800a1a42d33c73153ded47c70a39d2e8eaf5d179a1836b359a9d1d9bfc19f2efcdb829328620962bd3fdf15f2567f58a543d25609ae943920679194ed30328bb33fd15660bde485c6b79a7b32b013983f012db04ba59fe88db889321cc2373d4c0c35e84f7ab1ff33679bca575d67654f8624eb435b838cca77b2d0347e65d5e46964412a096f4150d8c5ede5440ddf0656fcb663d24731e80292188a2471b8b68aa993899268499d23c89755a1a89744643cead40f0965f28e1cd2895c3d118e4f65c9a0e3e741b6dd52c0ee2d25f5898d60848026b7efb8fcc1b2442ecf0795f8a81cee99a6248f294c82c90d26bd6a814aaf475f128aef43a128e37f80154ae6cb92cad7d1501bae30f750b3a9bd1f96b08e97997363911314705bfb9a9dbb97f75553ec90fbb2ddae53c8f68e42"
ASSUME HexGT(Pr!F12Exp(GA, Num("033c8616b06704813203dfd00965022ed15975c662337aed648835dc4b1cbe"))) = WStdA
ASSUME Pr!GTDecode(Hx!ToBytes(GStdA)) = [ok |-> TRUE, v |-> GA]

(* ---- annex B: g1 = e(R_A, de_B), g2 = e(Ppub-e, P2)^r_B ---- *)
KeB == Num("0002e65b0762d042f51f0d23542b13ed8cfa2e9a0e7206361e013a283905e31f")
DeBobB == S!DeB(KeB, S!HId(<<66, 111, 98>>, 2))
ASSUME Hx!FromBytes(Pr!G2Bytes(DeBobB)) =
  "74ccc3ac9c383c60af083972b96d05c75f12c8907d128a17adafbab8c5a4acf7" \o "01092ff4de89362670c21711b6dbe52dcd5f8e40c6654b3dece573c2ab3d29b2" \o
  "44b0294aa04290e1524ff3e3da8cfd432bb64de3a8040b5b88d1b5fc86a4ebc1" \o "8cfc48fb4ff37f1e27727464f3c34e2153861ad08e972d1625fc1a7bd18d5539"
RAB == G1Pt("7cba5b19069ee66aa79d490413d11846b9ba76dd22567f809cf23b6d964bb265", "a9760c99cb6f706343fed05637085864958d6c90902aba7d405fbedf7b781599")
ASSUME HexGT(Pr!Pair(RAB, DeBobB)) =
  "28542fb6954c84be6a5f2988a31cb6817ba0781966fa83d9673a9577d3c0c134" \o "5e27c19fc02ed9ae37f5bb7be9c03c2b87de027539ccf03e6b7d36de4ab45cd1" \o
  "a1abfcd30c57db0f1a838e3a8f2bf823479c978bd137230506ea6249c891049e" \o "3497477913ab89f5e2960f382b1b5c8ee09de0fa498ba95c4409d630d343da40" \o
  "4fec93472da33a4db6599095c0cf895e3a7b993ee5e4ebe3b9ab7d7d5ff2a3d1" \o "647ba154c3e8e185dfc33657c1f128d480f3f7e3f16801208029e19434c733bb" \o
  "73f21693c66fc23724db26380c526223c705daf6ba18b763a68623c86a632b05" \o "0f63a071a6d62ea45b59a1942dff5335d1a232c9c5664fad5d6af54c11418b0d" \o
  "8c8e9d8d905780d50e779067f2c4b1c8f83a8b59d735bb52af35f56730bde5ac" \o "861ccd9978617267ce4ad9789f77739e62f2e57b48c2ff26d2e90a79a1d86b93" \o
  "9b1ca08f64712e33aeda3f44bd6cb633e0f722211e344d73ec9bbebc92142765" \o "6ba584ce742a2a3ab41c15d3ef94edeb8ef74a2bdcdaaecc09aba567981f6437"
PpubEB == S!PpubE(KeB)
ASSUME PpubEB = G1Pt("9174542668e8f14ab273c0945c3690c66e5dd09678b86f734c4350567ed06283", "54e598c6bf749a3dacc9fffedd9db6866c50457cfc7aa2a4ad65c3168ff74210")
ASSUME HexGT(Pr!F12Exp(Pr!Pair(PpubEB, Pr!G2), Num("00018b98c44bef9f8537fb7d071b2c928b3bc65bd3d69e1eee213564905634fe"))) =
  "1052d6e9d13e381909dff7b2b41e13c987d0a9068423b769480dacce6a06f492" \o "5ffeb92ad870f97dc0893114da22a44dbc9e7a8b6ca31a0cf0467265a1fb48c7" \o
  "2c5c3b37e4f2ff83db33d98c0317bcbbbbf4ac6df6b89eca58268b280045e612" \o "6ced9e2d7c9cd3d5ad630defab0b831506218037ee0f861cf9b43c78434aec38" \o
  "0ae7bf3e1aec0cb67a03440906c7dfb3bcd4b6eeebb7e371f0094ad4a816088d" \o "98dbc791d0671caca12236cdf8f39e15aeb96faeb39606d5b04ac581746a663d" \o
  "00dd2b7416baa91172e89d5309d834f78c1e31b4483bb97185931bad7be1b9b5" \o "7ebac0349f8544469e60c32f6075fb0468a68147ff013537df792ffce024f857" \o
  "10cc2b561a62b62da36aefd60850714f49170fd94a0010c6d4b651b64f3a3a5e" \o "58c9687beddcd9e4fedab16b884d1fe6dfa117b2ab821f74e0bf7acda2269859" \o
  "2a430968f16086061904ce201847934b11ca0f9e9528f5a9d0ce8f015c9aea79" \o "934fdda6d3ab48c8571ce2354b79742aa498cb8cdde6bd1fa5946345a1a652f6"

(* ---- annexes C and D: K = KDF(C || w || ID_B, klen), w = e(Ppub-e, P2)^r ---- *)
KeC == Num("0001edee3778f441f8dea3d9fa0acc4e07ee36c93f9a08618af4ad85cede1c22")
Bob == <<66, 111, 98>>
QBobC == S!QEnc(S!PpubE(KeC), S!HId(Bob, 3))
GC == Pr!Pair(S!PpubE(KeC), Pr!G2)
RC == Num("74015f8489c01ef4270456f9e6475bfb602bde7f33fd482ab4e3684a6722")
ASSUME Hx!FromBytes(S!KemK(Pr!G1Bytes(S!KemC(QBobC, RC)), Pr!GTBytes(Pr!F12Exp(GC, RC)), Bob, 32)) = "4ff5cf86d2ad40c8f4bac98d76abdbde0c0e2f0a829d3f911ef5b2bce0695480"
RD == Num("aac0541779c8fc45e3e2cb25c12b5d2576b2129ae8bb5ee2cbe5ec9e785c")
ASSUME Hx!FromBytes(S!KemK(Pr!G1Bytes(S!KemC(QBobC, RD)), Pr!GTBytes(Pr!F12Exp(GC, RD)), Bob, 52)) =
  "58373260f067ec48667c21c144f8bc33cd3049788651ffd5f738003e51df31174d0e4e402fd87f4581b612f74259db574f67ece6"
(* the decryption side of annex C: e(C, de_B) = w *)
ASSUME Pr!Pair(S!KemC(QBobC, RC), S!DeB(KeC, S!HId(Bob, 3))) = Pr!F12Exp(GC, RC)

(* ---- the pairing as a map: bilinear, non-degenerate, of order N, identity handling ---- *)
E11 == Pr!GTGen
ASSUME E11 # Pr!F12One /\ Pr!F12Exp(E11, Pr!N) = Pr!F12One /\ Pr!InGT(E11) /\ ~Pr!InGT(X) /\ ~Pr!InGT(Pr!F12Zero)
ASSUME Pr!Pair(Pr!E1!Mul(<<2>>, Pr!E1!G), Pr!Mul2(<<3>>, Pr!G2)) = Pr!F12Exp(E11, <<6>>)
ASSUME Pr!PairDef(Pr!E1!Mul(<<2>>, Pr!E1!G), Pr!Mul2(<<3>>, Pr!G2)) = Pr!F12Exp(E11, <<6>>)
ASSUME GA = Pr!F12Exp(E11, KsA) /\ Pr!Pair(Pr!E1!Mul(KsA, Pr!E1!G), Pr!G2) = GA
ASSUME Pr!Pair(Pr!E1!Neg(Pr!E1!G), Pr!G2) = Pr!F12Inv(E11) /\ Pr!Pair(Pr!E1!G, Pr!Neg2(Pr!G2)) = Pr!F12Inv(E11)
ASSUME Pr!F12Inv(E11) = Pr!F12Exp(E11, BN!Sub(Pr!N, <<1>>)) /\ Pr!F12Inv(E11) = Pr!F12FrobN(E11, 6)     \* in GT the inverse is the conjugate
ASSUME Pr!Pair(Pr!E1!Inf, Pr!G2) = Pr!F12One /\ Pr!Pair(Pr!E1!G, Pr!Inf2) = Pr!F12One /\ Pr!PairDef(Pr!E1!Inf, Pr!Inf2) = Pr!F12One
ASSUME Pr!GTBytes(Pr!F12One) = [i \in 1..384 |-> IF i = 384 THEN 1 ELSE 0]
(* decoder: a coefficient equal to p, or the whole string short, is refused *)
ASSUME ~Pr!GTDecode(SubSeq(Pr!GTBytes(GA), 1, 352) \o Pr!C32(Pr!P)).ok /\ ~Pr!GTDecode(Pr!C32(Pr!P) \o SubSeq(Pr!GTBytes(GA), 33, 384)).ok
ASSUME ~Pr!GTDecode(SubSeq(Pr!GTBytes(GA), 1, 383)).ok /\ Pr!GTDecode(Pr!GTBytes(GA) \o <<7>>).ok
ASSUME PrintT("KAT_Pairing ok")
VARIABLE x
Init == x = 0
Next == UNCHANGED x
Spec == Init /\ [][Next]_x
=============================================================================
