-------------------------------- MODULE Drbg --------------------------------
(* Deterministic random bit generator mechanisms of NIST SP 800-90A Rev.1,    *)
(* written from the process descriptions of the standard, byte-oriented (all  *)
(* lengths in the library are whole bytes):                                   *)
(*   10.3.1  Hash_df              10.1.1.2-4  Hash_DRBG instantiate/reseed/    *)
(*   10.1.1.4 Hashgen                         generate                         *)
(*   10.1.2.2 HMAC_DRBG_Update    10.1.2.3-5  HMAC_DRBG instantiate/reseed/    *)
(*                                            generate                         *)
(*   10.3.3  BCC, 10.3.2 Block_Cipher_df, 10.2.1.2 CTR_DRBG_Update,           *)
(*   10.2.1.3.2/4.2/5.2 CTR_DRBG instantiate/reseed/generate with a           *)
(*   derivation function, full-block counter (ctr_len = blocklen).            *)
(* and the variants of GM/T 0105-2021 (software random number generators,     *)
(* SM3_RNG / SM4_RNG) as far as they differ (the text of GM/T 0105 is not     *)
(* available offline; the differences are the ones the package documents,     *)
(* citing the standard):                                                      *)
(*   - Hash reseed: seed_material = 0x01 || entropy_input || V || additional   *)
(*     (SP 800-90A: 0x01 || V || entropy_input || additional);                 *)
(*   - generate returns at most one block: leftmost(Hash(V)) for SM3_RNG,      *)
(*     one cipher block for SM4_RNG;                                           *)
(*   - reseed is also required when a configured time has elapsed (this is a   *)
(*     property of the envelope, see obj/DrbgObj.tla).                         *)
(*                                                                            *)
(* Generic in the primitives, which are operator arguments:                   *)
(*   H(_)        hash function, outlen bytes of output                        *)
(*   KS(_), Mac(_,_)   HMAC(K, x) = Mac(KS(K), x)   (KS = per-key precomputation)*)
(*   KS(_), Enc(_,_)   Block_Encrypt(K, b) = Enc(KS(K), b)  (KS = key schedule) *)
(* Working states are records named as in the standard:                       *)
(*   Hash_DRBG [V, C, reseed_counter], HMAC_DRBG / CTR_DRBG [Key, V, reseed_counter] *)
(* Generate operators return <<returned_bytes, new_working_state>>.           *)
(* The reseed-interval test (step 1 of every generate process) is made by the *)
(* envelope (obj/DrbgObj.tla), not here.                                      *)
EXTENDS Integers, Sequences, Bytes
BN == INSTANCE BigNat

(* (a + b) mod 2^(8n) on big-endian byte strings; the result has n bytes *)
AddMod2(a, b, n) == LET s == BN!Pad(BN!Add(a, b), n)
                    IN SubSeq(s, Len(s) - n + 1, Len(s))
CeilDiv(a, b) == (a + b - 1) \div b
(* TLC: a function constructor is a lazy value whose applications are re-evaluated on every access;  *)
(* Fix forces a byte string into a concrete tuple (SubSeq does).  Every value that is carried        *)
(* through a recursion or into a working state passes through Fix / SubSeq / \o.                    *)
Fix(s) == SubSeq(s, 1, Len(s))

(* ------------------------------------------------------------------ 10.3.1 *)
(* Hash_df(input_string, no_of_bits_to_return), n = number of bytes to return *)
HashDf(H(_), outlen, input, n) ==
  LET len == CeilDiv(n, outlen)
      bits == I2OSP(8 * n, 4)                    \* no_of_bits_to_return as a 32-bit string
      RECURSIVE T(_)
      T(counter) == IF counter > len THEN <<>>
                    ELSE H(<<counter>> \o bits \o input) \o T(counter + 1)
  IN Take(T(1), n)

(* ---------------------------------------------------------------- 10.1.1.4 *)
Hashgen(H(_), outlen, seedlen, V, n) ==
  LET m == CeilDiv(n, outlen)
      RECURSIVE W(_, _)
      W(i, data) == IF i > m THEN <<>>
                    ELSE H(data) \o W(i + 1, AddMod2(data, <<1>>, seedlen))
  IN Take(W(1, V), n)

(* ------------------------------------------------------- 10.1.1.2 / 10.1.1.3 *)
HashSeeded(H(_), outlen, seedlen, seedMaterial) ==
  LET seed == HashDf(H, outlen, seedMaterial, seedlen)
  IN [V |-> seed, C |-> HashDf(H, outlen, <<0>> \o seed, seedlen), reseed_counter |-> 1]
HashInstantiate(H(_), outlen, seedlen, entropy, nonce, pers) ==
  HashSeeded(H, outlen, seedlen, entropy \o nonce \o pers)
HashReseed(H(_), outlen, seedlen, gm, st, entropy, addl) ==
  HashSeeded(H, outlen, seedlen,
             IF gm THEN <<1>> \o entropy \o st.V \o addl       \* GM/T 0105-2021
                   ELSE <<1>> \o st.V \o entropy \o addl)      \* SP 800-90A 10.1.1.3
(* ---------------------------------------------------------------- 10.1.1.4 *)
HashGenerate(H(_), outlen, seedlen, gm, st, n, addl) ==
  LET V1 == IF addl # <<>> THEN AddMod2(st.V, Fix(H(<<2>> \o st.V \o addl)), seedlen) ELSE st.V
      bits == IF gm THEN Take(H(V1), n)                        \* GM/T 0105: one block, n <= outlen
                    ELSE Hashgen(H, outlen, seedlen, V1, n)
      Hh == Fix(H(<<3>> \o V1))
      V2 == AddMod2(AddMod2(AddMod2(V1, Hh, seedlen), st.C, seedlen), BN!FromInt(st.reseed_counter), seedlen)
  IN <<bits, [V |-> V2, C |-> st.C, reseed_counter |-> st.reseed_counter + 1]>>

(* ---------------------------------------------------------------- 10.1.2.2 *)
(* HMAC_DRBG_Update(provided_data, K, V) = <<K, V>> *)
HmacUpdate(KS(_), Mac(_, _), data, K, V) ==
  LET K1 == Fix(Mac(KS(K), V \o <<0>> \o data))
      ks1 == KS(K1)
      V1 == Fix(Mac(ks1, V))
  IN IF data = <<>> THEN <<K1, V1>>
     ELSE LET K2 == Fix(Mac(ks1, V1 \o <<1>> \o data))
              V2 == Fix(Mac(KS(K2), V1))
          IN <<K2, V2>>
(* ------------------------------------------------------- 10.1.2.3 / 10.1.2.4 *)
HmacInstantiate(KS(_), Mac(_, _), outlen, entropy, nonce, pers) ==
  LET kv == HmacUpdate(KS, Mac, entropy \o nonce \o pers, Zeros(outlen), Rep(1, outlen))
  IN [Key |-> kv[1], V |-> kv[2], reseed_counter |-> 1]
HmacReseed(KS(_), Mac(_, _), st, entropy, addl) ==
  LET kv == HmacUpdate(KS, Mac, entropy \o addl, st.Key, st.V)
  IN [Key |-> kv[1], V |-> kv[2], reseed_counter |-> 1]
(* ---------------------------------------------------------------- 10.1.2.5 *)
HmacGenerate(KS(_), Mac(_, _), outlen, st, n, addl) ==
  LET kv0 == IF addl # <<>> THEN HmacUpdate(KS, Mac, addl, st.Key, st.V) ELSE <<st.Key, st.V>>
      ks == KS(kv0[1])
      m == CeilDiv(n, outlen)
      RECURSIVE T(_, _)          \* <<temp, V>> from iteration i on
      T(i, v) == IF i = m THEN <<<<>>, v>>
                 ELSE LET v1 == Fix(Mac(ks, v))
                          r == T(i + 1, v1)
                      IN <<v1 \o r[1], r[2]>>
      t == T(0, kv0[2])
      kv1 == HmacUpdate(KS, Mac, addl, kv0[1], t[2])
  IN <<Take(t[1], n), [Key |-> kv1[1], V |-> kv1[2], reseed_counter |-> st.reseed_counter + 1]>>

(* ------------------------------------------------------------------ 10.3.3 *)
BCC(Enc(_, _), ks, blen, data) ==
  LET n == Len(data) \div blen
      RECURSIVE F(_, _)
      F(i, chain) == IF i > n THEN chain
                     ELSE F(i + 1, Fix(Enc(ks, Fix(BXor(chain, Slice(data, (i - 1) * blen, blen))))))
  IN F(1, Zeros(blen))
(* ------------------------------------------------------------------ 10.3.2 *)
(* Block_Cipher_df(input_string, no_of_bits_to_return), n bytes to return *)
BlockCipherDf(KS(_), Enc(_, _), keylen, blen, input, n) ==
  LET s0 == I2OSP(Len(input), 4) \o I2OSP(n, 4) \o input \o <<128>>
      S == s0 \o Zeros((blen - (Len(s0) % blen)) % blen)
      ks0 == KS([i \in 1..keylen |-> i - 1])              \* leftmost(0x000102...1F, keylen)
      nb == CeilDiv(keylen + blen, blen)
      RECURSIVE T(_)
      T(i) == IF i = nb THEN <<>>
              ELSE BCC(Enc, ks0, blen, I2OSP(i, 4) \o Zeros(blen - 4) \o S) \o T(i + 1)
      temp == T(0)
      ksK == KS(Take(temp, keylen))
      m == CeilDiv(n, blen)
      RECURSIVE O(_, _)
      O(i, X) == IF i = m THEN <<>>
                 ELSE LET X1 == Fix(Enc(ksK, X)) IN X1 \o O(i + 1, X1)
  IN Take(O(0, Slice(temp, keylen, blen)), n)
(* ---------------------------------------------------------------- 10.2.1.2 *)
(* CTR_DRBG_Update(provided_data, Key, V) = <<Key, V>>; provided_data has seedlen bytes *)
CtrUpdate(KS(_), Enc(_, _), keylen, blen, data, K, V) ==
  LET seedlen == keylen + blen
      ks == KS(K)
      m == CeilDiv(seedlen, blen)
      RECURSIVE T(_, _)
      T(i, v) == IF i = m THEN <<>>
                 ELSE LET v1 == AddMod2(v, <<1>>, blen) IN Enc(ks, v1) \o T(i + 1, v1)
      temp == Fix(BXor(Take(T(0, V), seedlen), data))
  IN <<Take(temp, keylen), LastN(temp, blen)>>
(* -------------------------------------------------- 10.2.1.3.2 / 10.2.1.4.2 *)
CtrInstantiate(KS(_), Enc(_, _), keylen, blen, entropy, nonce, pers) ==
  LET sm == BlockCipherDf(KS, Enc, keylen, blen, entropy \o nonce \o pers, keylen + blen)
      kv == CtrUpdate(KS, Enc, keylen, blen, sm, Zeros(keylen), Zeros(blen))
  IN [Key |-> kv[1], V |-> kv[2], reseed_counter |-> 1]
CtrReseed(KS(_), Enc(_, _), keylen, blen, st, entropy, addl) ==
  LET sm == BlockCipherDf(KS, Enc, keylen, blen, entropy \o addl, keylen + blen)
      kv == CtrUpdate(KS, Enc, keylen, blen, sm, st.Key, st.V)
  IN [Key |-> kv[1], V |-> kv[2], reseed_counter |-> 1]
(* -------------------------------------------------------------- 10.2.1.5.2 *)
CtrGenerate(KS(_), Enc(_, _), keylen, blen, st, n, addl) ==
  LET seedlen == keylen + blen
      ai == IF addl # <<>> THEN BlockCipherDf(KS, Enc, keylen, blen, addl, seedlen) ELSE Zeros(seedlen)
      kv0 == IF addl # <<>> THEN CtrUpdate(KS, Enc, keylen, blen, ai, st.Key, st.V) ELSE <<st.Key, st.V>>
      ks == KS(kv0[1])
      m == CeilDiv(n, blen)
      RECURSIVE T(_, _)          \* <<temp, V>> from iteration i on
      T(i, v) == IF i = m THEN <<<<>>, v>>
                 ELSE LET v1 == AddMod2(v, <<1>>, blen)
                          r == T(i + 1, v1)
                      IN <<Enc(ks, v1) \o r[1], r[2]>>
      t == T(0, kv0[2])
      kv1 == CtrUpdate(KS, Enc, keylen, blen, ai, kv0[1], t[2])
  IN <<Take(t[1], n), [Key |-> kv1[1], V |-> kv1[2], reseed_counter |-> st.reseed_counter + 1]>>
=============================================================================
