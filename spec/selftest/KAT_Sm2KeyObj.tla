--------------------------- MODULE KAT_Sm2KeyObj ---------------------------
(* obj/Sm2KeyObj's block-wise digest DigestOf is the standard's e = H(ZA || M): *)
(*  - on the worked example of GB/T 32918.5-2017 Annex A (values as in KAT_SM2);   *)
(*  - equal to algo/SM2Scheme's Digest on a grid of uid / message lengths around    *)
(*    the 64-byte block seams of both hashes.                                       *)
(* Also: Draw skips nonce blocks that are 0 or >= n and the retry digests.          *)
EXTENDS Sm2KeyObj, TLC
Hx == INSTANCE Hex
R  == INSTANCE Prng
X(s) == BN!Norm(Hx!ToBytes(s))
Rnd(label, n) == SubSeq(R!Bytes(7, label, n), 1, n)
MsgDigest == <<109, 101, 115, 115, 97, 103, 101, 32, 100, 105, 103, 101, 115, 116>>                       \* "message digest"
dA  == X("3945208f7b2144b13f36e38ac6d39f95889393692860b51a42fb81ef4df7c5b8")
kA  == X("59276e27d506861a16680f3ad9c02dccef3cc1fa3cdbe4ce6d54b80deac1bc21")
Pub == S!PublicKey(dA)
ASSUME Hx!FromBytes(HashIter(ZAInput(S!DefaultUid, Pub))) = "b2e14c5c79c6df5b85f4fe7ed8db7a262b9da7e07ccb0ea9f4747b8ccda8a4f3"
ASSUME Hx!FromBytes(DigestOf(S!DefaultUid, Pub, MsgDigest)) = "f0b43e94ba45accaace692ed534382eb17e6ab5a19ce7b31f4486fdfc0d28640"
ASSUME HashIter(<<>>) = S!H!Hash(<<>>) /\ HashIter(<<97, 98, 99>>) = S!H!Hash(<<97, 98, 99>>)
ASSUME \A n \in {55, 56, 63, 64, 65, 119, 120, 127, 128, 129, 200} : HashIter(Rnd(1, n)) = S!H!Hash(Rnd(1, n))
(* ZA input is 2 + |uid| + 192 bytes: uid lengths 0, 1, 61, 62, 63 (block seam at 62), 126, 190 *)
ASSUME \A ul \in {0, 1, 16, 62, 63, 126} : \A ml \in {0, 1, 31, 32, 33, 100} :
         DigestOf(Rnd(2, ul), Pub, Rnd(3, ml)) = S!Digest(Rnd(2, ul), Pub, Rnd(3, ml))

(* Draw: the Annex A nonce behind a zero block and a block >= n gives the Annex A signature after three tries *)
Zero32 == SubSeq([i \in 1..32 |-> 0], 1, 32)
eA == DigestOf(S!DefaultUid, Pub, MsgDigest)
drA == Draw(dA, eA, <<9>> \o Zero32 \o Max256 \o S!F32(kA) \o Rnd(4, 32), 1, 0)
ASSUME drA.ok /\ drA.tries = 3 /\ drA.cur = 97
ASSUME Hx!FromBytes(S!F32(drA.r)) = "f5a03b0648d2c4630eeac513e1bb81a15944da3827d5b74143ac7eaceee720b3"
ASSUME Hx!FromBytes(S!F32(drA.s)) = "b1b6aa29df212fd8763182bc0d421ca1bb9038fd1f7f42d4840b69c485bbc1aa"
ASSUME ~Draw(dA, eA, Zero32 \o <<1, 2, 3>>, 0, 0).ok
(* d >= n-1 is exactly where (1 + d) has no inverse mod n or d is no residue *)
ASSUME BadScalar(S!NMinus1) /\ BadScalar(S!N) /\ BadScalar(BN!Add(S!N, <<5>>)) /\ ~BadScalar(BN!Sub(S!N, <<2>>)) /\ ~BadScalar(<<1>>)
ASSUME BN!IsZero(BN!Mod(BN!Add(S!NMinus1, <<1>>), S!N))
Init == KInit
Next == UNCHANGED kvars
=============================================================================
