CONSTANTS Seed = 1
 UidLens = {0, 16}
 N1 = {0, 1, 64}
 N2 = {0, 63}
 N3 = {1, 55}
 OutFile = "/tmp/c01za.ndjson"
SPECIFICATION Spec
INVARIANTS TypeOK
CHECK_DEADLOCK FALSE
