SPECIFICATION Spec
