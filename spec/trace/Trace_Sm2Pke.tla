---------------------------- MODULE Trace_Sm2Pke ----------------------------
(* code -> spec for C07: events recorded from the real gmsm/sm2 (harness         *)
(* cmd/record, family sm2pke).  The LIBRARY encrypted (it drew the ephemeral      *)
(* scalar itself), decrypted and converted; the events must be explained by        *)
(* Sm2PkeObj:                                                                      *)
(*   new   a key d in [1, n-2]                                                     *)
(*   enc   the ciphertext has the layout that was asked for and the TLA+            *)
(*         decryption (GB/T 32918.4 B1-B7) of it under d returns the message         *)
(*   dec   the library's reply (message or error) is the reply of DecryptApi          *)
(*   conv  the helper's output is the output of the TLA+ helper                       *)
(*   menv  MarshalEnvelopedPrivateKey: Sm2EnvObj!Parse of the envelope under d gives    *)
(*         the enveloped key;  penv  ParseEnvelopedPrivateKey's reply is Parse's reply   *)
(* B1-B7 is evaluated in full for every enc event (MkMemo + DecryptMemo on exactly    *)
(* its arguments); dec events on the same C1 reuse [d]C1 (memo, outside the logic).   *)
EXTENDS Integers, Sequences, TLC, TLCExt, Json
CONSTANT TraceFile
O  == INSTANCE Sm2PkeObj
E  == INSTANCE Sm2EnvObj
S  == INSTANCE SM2
Hx == INSTANCE Hex
BN == INSTANCE BigNat
Tr == ndJsonDeserialize(TraceFile)
VARIABLES l, d, memo
tvars == <<l, d, memo>>
Ev == Tr[l]
IsEvent(op) == l <= Len(Tr) /\ Tr[l].op = op /\ l' = l + 1

TNew == /\ IsEvent("new")
        /\ d' = BN!Norm(Hx!ToBytes(Ev.d))
        /\ S!ValidPriv(d')
        /\ memo' = O!NoMemo

(* MarshalHybrid is outside the property: the uncompressed and the hybrid form are both let through *)
FormsOf(f) == IF f = "u" THEN {"u"} ELSE IF f = "c" THEN {"c"} ELSE {"u", "h"}
TEnc == /\ IsEvent("enc")
        /\ Ev.err = FALSE
        /\ LET bytes == Hx!ToBytes(Ev.out)
               c == IF Ev.enc = "asn1" THEN O!ParseAsn1(bytes) ELSE O!ParsePlain(bytes, Ev.order, FormsOf(Ev.form))
           IN /\ c.ok
              /\ S!Ec!OnCurve(c.c1)
              /\ memo' = O!MkMemo(d, c.c1, c.c2)
              /\ O!DecryptMemo(d, c, memo') = [ok |-> TRUE, msg |-> Hx!ToBytes(Ev.msg)]
        /\ UNCHANGED d

TDec == /\ IsEvent("dec")
        /\ LET r == O!DecryptMemo(d, O!ParseApi(Hx!ToBytes(Ev.ct), Ev.opt), memo)
           IN /\ r.ok = ~Ev.err
              /\ r.ok => r.msg = Hx!ToBytes(Ev.out)
        /\ UNCHANGED <<d, memo>>

TConv == /\ IsEvent("conv")
         /\ LET cv == IF Ev.fn = "asn12plain" /\ Ev.a = "nil" THEN [fn |-> "asn12plain", a |-> "u", b |-> "C1C3C2"]
                      ELSE [fn |-> Ev.fn, a |-> Ev.a, b |-> Ev.b]
                r == O!Apply(Hx!ToBytes(Ev.in), cv)
            IN /\ r.ok = ~Ev.err
               /\ r.ok => r.out = Hx!ToBytes(Ev.out)
         /\ UNCHANGED <<d, memo>>

TMenv == /\ IsEvent("menv")
         /\ Ev.err = FALSE
         /\ E!Parse(d, Hx!ToBytes(Ev.out)) = [ok |-> TRUE, d |-> BN!Norm(Hx!ToBytes(Ev.de))]
         /\ UNCHANGED <<d, memo>>
TPenv == /\ IsEvent("penv")
         /\ LET r == E!Parse(d, Hx!ToBytes(Ev.env))
            IN /\ r.ok = ~Ev.err
               /\ r.ok => S!F32(r.d) = Hx!ToBytes(Ev.out)
         /\ UNCHANGED <<d, memo>>

TraceInit == l = 1 /\ d = <<>> /\ memo = O!NoMemo
TraceNext == TNew \/ TEnc \/ TDec \/ TConv \/ TMenv \/ TPenv
TraceSpec == TraceInit /\ [][TraceNext]_tvars
TraceAccepted == TLCGet("stats").diameter = Len(Tr) + 1
=============================================================================
