------------------------------ MODULE KAT_Aead ------------------------------
(* RFC 8998 A.1 (SM4-GCM) and A.2 (SM4-CCM) and GB/T 36624-2018 C.5 examples    *)
(* asserted on the TLA+ definitions; plus the constructive nonce-for-J0 identity. *)
EXTENDS Integers, Sequences, TLC
S4 == INSTANCE SM4
A == INSTANCE Aead WITH E <- S4!EncRK
H == INSTANCE Hex
K == S4!RoundKeys(H!ToBytes("0123456789abcdeffedcba9876543210"))
N == H!ToBytes("00001234567800000000abcd")
P == H!ToBytes("aaaaaaaaaaaaaaaabbbbbbbbbbbbbbbbccccccccccccccccddddddddddddddddeeeeeeeeeeeeeeeeffffffffffffffffeeeeeeeeeeeeeeeeaaaaaaaaaaaaaaaa")
AD == H!ToBytes("feedfacedeadbeeffeedfacedeadbeefabaddad2")
ASSUME H!FromBytes(A!GcmSeal(K, N, P, AD, 16)) =
  "17f399f08c67d5ee19d0dc9969c4bb7d5fd46fd3756489069157b282bb200735d82710ca5c22f0ccfa7cbf93d496ac15a56834cbcf98c397b4024a2691233b8d83de3541e4c2b58177e065a9bf7b62ec"
ASSUME H!FromBytes(A!CcmSeal(K, N, P, AD, 16)) =
  "48af93501fa62adbcd414cce6034d895dda1bf8f132f042098661572e7483094fd12e518ce062c98acee28d95df4416bed31a2f04476c18bb40c84a74b97dc5b16842d4fa186f56ab33256971fa110f4"
K0 == S4!RoundKeys(H!ToBytes("00000000000000000000000000000000"))
ASSUME H!FromBytes(A!GcmSeal(K0, H!ToBytes("000000000000000000000000"), H!ToBytes("00000000000000000000000000000000"), <<>>, 16)) =
  "7de2aa7f1110188218063be1bfeb6d89b851b5f39493752be508f1bb4482c557"
ASSUME A!GcmOpen(K, N, A!GcmSeal(K, N, P, AD, 12), AD, 12) = [ok |-> TRUE, msg |-> P]
ASSUME A!CcmOpen(K, N, A!CcmSeal(K, N, P, AD, 8), AD, 8) = [ok |-> TRUE, msg |-> P]
J == H!ToBytes("0102030405060708090a0b0cfffffffe")
ASSUME A!J0(K, A!NonceForJ0(K, J)) = J
ASSUME PrintT("KAT_Aead ok")
VARIABLE x
Init == x = 0
Next == UNCHANGED x
Spec == Init /\ [][Next]_x
=============================================================================
