"""C09 SM9 pairing groups: MC_C09 (dlog algebra over registers, exact G1/G2 via Bn.tla, standard anchor for GT, strict decoders) + replay."""
import os
from .. import core, cfgs, fel, gt

S = core.tla_set


def run(ctx):
    ctx.kats(["KAT_Bn", "KAT_BnG2c", "BigNatAgree"] + gt.KATS, seed_const=("GF2Agree", "BigNatAgree"))
    out = os.path.join(ctx.scratch, "c09.ndjson")
    quick = ctx.tier == "quick"
    base = [0, 1, 2, 3, 4, 5, 6]
    wins_q = [100 + 16 * i + v for i in (0, 1, 31, 32, 62, 63) for v in (1, 8, 15)]
    wins_t = [100 + 16 * i + v for i in range(64) for v in (1, 7, 8, 9, 15)]
    rnd = [2001 + ctx.seed % 7, 2011, 2012]
    jobs, outs = [], []

    def job(name, **kw):
        o = "%s.%s" % (out, name)
        outs.append(o)
        c = dict(Seed=ctx.seed, ScalarClasses=S(base), MulClasses=S([0, 2, 3]), MaxOps=3, Exact="FALSE", DecPoints=S([]), Mode='"alg"', OutFile=core.tla_str(o))
        c.update(kw)
        jobs.append(dict(module="MC_C09", name="MC_C09_" + name, view="View", constants=c, invariants=("RegsInRange", "NonDegenerate"), workers=4, timeout=3300))
    # free exploration of the algebra (relational + generator^dlog), depth 3 (quick) / 4 (thorough, smaller alphabet)
    job("alg3", ScalarClasses=S(base + rnd[:1]), MulClasses=S([0, 1, 2, 3, 5, rnd[1]]), MaxOps=3)
    if not quick:
        job("alg4", ScalarClasses=S([0, 1, 3, rnd[0]]), MulClasses=S([0, 3, rnd[1]]), MaxOps=4)
    # exact coordinates of G1/G2 results for every scalar class incl. window one-hots (depth 1-2)
    wins = wins_q if quick else wins_t
    nsh = 4 if quick else 12
    for i in range(nsh):
        job("exact%d" % i, ScalarClasses=S((base if i == 0 else []) + wins[i::nsh] + ([rnd[0], rnd[2]] if i == 1 else [])), MulClasses=S([2, 3] if i < 2 else [2]),
            MaxOps=2 if i < 2 else 1, Exact="TRUE")
    job("dec", Mode='"dec"', DecPoints=S(range(1, 9) if quick else range(1, 33)))
    # the limb-level arithmetic of F_p and F_p^2 underneath (assembly or generic gfp*, gfP2) on limb-structured residues
    feljobs, felouts = fel.jobs(ctx, ["gfp", "gfp2"])
    jobs += feljobs
    # exact GT: F_p^12 tower and R-ate pairing in TLA+ (algo/Fp12, algo/Pairing), register programs of MC_C09gt
    gtjobs, gtouts = gt.jobs(ctx)
    jobs += gtjobs
    ctx.tlc_many(jobs, parallel=6)
    core.cat_files(outs, out)
    fel.replay(ctx, felouts, cfgs.K_EC)
    gt.replay(ctx, gtouts, cfgs.K_EC)
    ctx.replay_all(out, cfgs.K_EC)
    ctx.binding_guard(out, cfgs.K_EC[0])
    ctx.sample_traces(out)

    def key(t):
        s = t["steps"]
        if s[0]["op"] == "dec":
            return ("dec", s[0]["grp"], s[0]["form"], tuple(s[0]["variant"]))
        return tuple((x["op"], x["grp"], x.get("k", "")[:4] + x.get("k", "")[-4:], x.get("src"), x.get("a"), x.get("b")) for x in s)
    ctx.count_distinct(out, key)
    ctx.assumptions += ["G1 and G2 results are exact (affine big-integer arithmetic over F_p and F_p^2 in Bn.tla)",
                        "decoder inputs: canonical, coordinate+p, coordinate=p, off-curve, infinity, short, trailing, all-ones for 8 (quick) / 32 (thorough) points; G2 compressed decoding is modelled for multiples of the generator and their non-canonical / malformed variants (square roots in F_p^2: algo/BnG2c); G2 subgroup membership of foreign on-twist points is not modelled"]
    return ctx.finish(rule="one case per TLC transition of MC_C09: programs of <=3-4 group operations over registers (base, mul, add, neg, double, pair) with scalar classes 0,1,2,n-1,n,n+1,2^256-1, window one-hots, random; bilinearity macro programs; decoder cases; GT register programs of MC_C09gt with the exact 384-byte values of the TLA+ F_p^12 tower and R-ate pairing (pinned to GM/T 0044.5 annex values); each replayed under 5 field-arithmetic backends; plus one case per row of MC_Fel (gfp / gfp2 primitive, left operand, all right operands) on the limb-level primitives; distinct = distinct programs / decoder cases / rows")
