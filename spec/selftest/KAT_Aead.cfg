SPECIFICATION Spec
