------------------------------- MODULE Pairing -------------------------------
(* The R-ate pairing of SM9, e: G1 x G2 -> GT, transcribed from the definition    *)
(* of GM/T 0044.1-2016 (annex on pairings: Miller's algorithm and the R-ate         *)
(* pairing on BN curves; curve parameters of GM/T 0044.5):                          *)
(*   input  P in E(F_p)[N], Q in E'(F_p^2)[N];  a = 6t + 2 = sum a_i 2^i            *)
(*   T := Q, f := 1                                                                  *)
(*   for i = L-2 .. 0:  f := f^2 g_{T,T}(P), T := [2]T;                              *)
(*                      if a_i = 1: f := f g_{T,Q}(P), T := T + Q                     *)
(*   Q1 := pi_p(Q), Q2 := pi_p^2(Q)                                                   *)
(*   f := f g_{T,Q1}(P), T := T + Q1;   f := f g_{T,-Q2}(P), T := T - Q2               *)
(*   return f^((p^12 - 1)/N)                                                          *)
(* g_{U,V}(P) is the line through U and V (tangent if U = V) evaluated at P:          *)
(*   lambda (x_P - x_V) - y_P + y_V,   x_P - x_V for a vertical line,  1 if U or V = O. *)
(* The points of E'(F_p^2): y^2 = x^3 + 5u are points of E(F_p^12): y^2 = x^3 + 5        *)
(* through psi(x, y) = (x w^-2, y w^-3)  (w^6 = u), and pi_p is the Frobenius             *)
(* endomorphism (x, y) -> (x^p, y^p) of E(F_p^12) carried back to E'.                     *)
(*                                                                                      *)
(* Two transcriptions, compared in selftest/KAT_Pairing:                                  *)
(*   PairDef: literally the above, with every point in E(F_p^12) and the chord-and-tangent *)
(*            rule and the lines computed in F_p^12;                                       *)
(*   Pair:    the same computation with T kept on the twist (group law of Bn.tla) and the   *)
(*            line written in terms of the twist coordinates (derivation below); the final   *)
(*            power split as (p^6-1)(p^2+1) * (p^4-p^2+1)/N with Frobenius maps for the       *)
(*            first two factors.                                                            *)
(* Nothing here follows the library (Jacobian twist points, NAF loop, sparse line             *)
(* products, cyclotomic squarings, the Devegili/Scott hard part).                             *)
EXTENDS Fp12
LOCAL INSTANCE SequencesExt

(* ------------------------------------------------------------ parameters *)
BnT == Num("600000000058f98a")                              \* the BN parameter t of GM/T 0044.5
LoopA == BN!Add(BN!Mul(<<6>>, BnT), <<2>>)                     \* a = 6t + 2
RECURSIVE Pow(_, _)                                          \* b^k, k a small TLC integer
Pow(b, k) == IF k = 0 THEN <<1>> ELSE BN!Mul(Pow(b, k - 1), b)
(* p = 36t^4 + 36t^3 + 24t^2 + 6t + 1,  N = 36t^4 + 36t^3 + 18t^2 + 6t + 1 *)
BnP(t) == BN!Add(BN!Add(BN!Add(BN!Mul(<<36>>, Pow(t, 4)), BN!Mul(<<36>>, Pow(t, 3))), BN!Add(BN!Mul(<<24>>, Pow(t, 2)), BN!Mul(<<6>>, t))), <<1>>)
BnN(t) == BN!Add(BN!Add(BN!Add(BN!Mul(<<36>>, Pow(t, 4)), BN!Mul(<<36>>, Pow(t, 3))), BN!Add(BN!Mul(<<18>>, Pow(t, 2)), BN!Mul(<<6>>, t))), <<1>>)
FullExp == BN!Div(BN!Sub(Pow(P, 12), <<1>>), N)              \* (p^12 - 1)/N
HardExp == BN!Div(BN!Add(BN!Sub(Pow(P, 4), Pow(P, 2)), <<1>>), N)   \* (p^4 - p^2 + 1)/N

(* ------------------------------------------------------------ psi and the Frobenius on the twist *)
UInv == F2Inv(F2U)                                                      \* 1/u
WInv1 == <<F2Zero, F2Zero, F2Zero, F2Zero, F2Zero, UInv>>                 \* w^-1 = w^5 / u   (w w^5 = w^6 = u)
WInv2 == F12Sqr(WInv1)
WInv3 == F12Mul(WInv2, WInv1)
W2 == F12Exp(F12W, <<2>>)
W3 == F12Exp(F12W, <<3>>)
Psi(Q) == <<F12Mul(F12OfF2(Q[1]), WInv2), F12Mul(F12OfF2(Q[2]), WInv3)>>            \* E'(F_p^2) -> E(F_p^12), Q # O
InF2(a) == a[2] = F2Zero /\ a[3] = F2Zero /\ a[4] = F2Zero /\ a[5] = F2Zero /\ a[6] = F2Zero
UnPsi(R) == <<F12Mul(R[1], W2)[1], F12Mul(R[2], W3)[1]>>                            \* back to E' (for points in the image of psi)
UnPsiDefined(R) == InF2(F12Mul(R[1], W2)) /\ InF2(F12Mul(R[2], W3))
PiP(Q) == IF Q = Inf2 THEN Inf2 ELSE LET R == Psi(Q) IN UnPsi(<<F12Frob(R[1]), F12Frob(R[2])>>)

(* ------------------------------------------------------------ PairDef: everything in E(F_p^12) *)
Inf12 == <<>>
F12Small(k) == F12OfFp(<<k>>)
Neg12(U) == IF U = Inf12 THEN Inf12 ELSE <<U[1], F12Neg(U[2])>>
Vertical12(U, V) == U[1] = V[1] /\ (U[2] # V[2] \/ U[2] = F12Zero)
Slope12(U, V) == IF U = V THEN F12Mul(F12Mul(F12Small(3), F12Sqr(V[1])), F12Inv(F12Add(V[2], V[2])))
                 ELSE F12Mul(F12Sub(U[2], V[2]), F12Inv(F12Sub(U[1], V[1])))
Add12(U, V) ==
  IF U = Inf12 THEN V
  ELSE IF V = Inf12 THEN U
  ELSE IF Vertical12(U, V) THEN Inf12
  ELSE LET l == Slope12(U, V)
           x3 == F12Sub(F12Sub(F12Sqr(l), U[1]), V[1])
       IN <<x3, F12Sub(F12Mul(l, F12Sub(U[1], x3)), U[2])>>
(* g_{U,V}(Q) of GM/T 0044.1, Q = <<xQ, yQ>> in E(F_p^12) *)
G12(U, V, Q) ==
  IF U = Inf12 \/ V = Inf12 THEN F12One
  ELSE IF Vertical12(U, V) THEN F12Sub(Q[1], V[1])
  ELSE F12Add(F12Sub(F12Mul(Slope12(U, V), F12Sub(Q[1], V[1])), Q[2]), V[2])
MillerDef(P1, Q) ==
  LET n == BN!BitLen(LoopA)
      Pe == <<F12OfFp(P1[1]), F12OfFp(P1[2])>>
      Qe == Psi(Q)
      step(st, i) == LET f1 == F12Mul(F12Sqr(st[1]), G12(st[2], st[2], Pe))
                         t1 == Add12(st[2], st[2])
                     IN IF BN!Bit(LoopA, n - 1 - i) = 1 THEN <<F12Mul(f1, G12(t1, Qe, Pe)), Add12(t1, Qe)>> ELSE <<f1, t1>>
      s == FoldLeft(step, <<F12One, Qe>>, [i \in 1..(n - 1) |-> i])
      q1 == <<F12Frob(Qe[1]), F12Frob(Qe[2])>>
      q2 == <<F12Frob(q1[1]), F12Frob(q1[2])>>
      f2 == F12Mul(s[1], G12(s[2], q1, Pe))
      t2 == Add12(s[2], q1)
  IN F12Mul(f2, G12(t2, Neg12(q2), Pe))
PairDef(P1, Q) == IF P1 = E1!Inf \/ Q = Inf2 THEN F12One ELSE F12Exp(MillerDef(P1, Q), FullExp)

(* ------------------------------------------------------------ Pair: T on the twist *)
(* For U, V on the twist with twist slope l (chord or tangent of E'), psi(U), psi(V) have slope   *)
(*   (y_U - y_V) w^-3 / ((x_U - x_V) w^-2) = l w^-1      (tangent: 3 x^2 w^-4 / (2 y w^-3) = l w^-1) *)
(* so  g = l w^-1 (x_P - x_V w^-2) - y_P + y_V w^-3 = -y_P + (l x_P) w^-1 + (y_V - l x_V) w^-3,       *)
(* and w^-1 = w^5 / u, w^-3 = w^3 / u, w^-2 = w^4 / u.                                                 *)
Vertical2(U, V) == U[1] = V[1] /\ (U[2] # V[2] \/ U[2] = F2Zero)
Slope2(U, V) == IF U = V THEN F2Mul(F2Mul(F2Small(3), F2Sqr(V[1])), F2Inv(F2Add(V[2], V[2])))
                ELSE F2Mul(F2Sub(U[2], V[2]), F2Inv(F2Sub(U[1], V[1])))
Line(U, V, P1) ==
  IF U = Inf2 \/ V = Inf2 THEN F12One
  ELSE IF Vertical2(U, V) THEN <<<<P1[1], <<>>>>, F2Zero, F2Zero, F2Zero, F2Neg(F2Mul(V[1], UInv)), F2Zero>>
  ELSE LET l == Slope2(U, V)
       IN <<<<FNeg(P1[2]), <<>>>>, F2Zero, F2Zero, F2Mul(F2Sub(V[2], F2Mul(l, V[1])), UInv), F2Zero, F2Mul(F2Scale(l, P1[1]), UInv)>>
Miller(P1, Q) ==
  LET n == BN!BitLen(LoopA)
      step(st, i) == LET f1 == F12Mul(F12Sqr(st[1]), Line(st[2], st[2], P1))
                         t1 == Dbl2(st[2])
                     IN IF BN!Bit(LoopA, n - 1 - i) = 1 THEN <<F12Mul(f1, Line(t1, Q, P1)), Add2(t1, Q)>> ELSE <<f1, t1>>
      s == FoldLeft(step, <<F12One, Q>>, [i \in 1..(n - 1) |-> i])
      q1 == PiP(Q)
      q2 == PiP(q1)
      f2 == F12Mul(s[1], Line(s[2], q1, P1))
      t2 == Add2(s[2], q1)
  IN F12Mul(f2, Line(t2, Neg2(q2), P1))
(* f^((p^12-1)/N), (p^12-1)/N = (p^6-1) (p^2+1) (p^4-p^2+1)/N *)
FinalExp(f) ==
  LET a == F12Mul(F12FrobN(f, 6), F12Inv(f))
      b == F12Mul(F12FrobN(a, 2), a)
  IN F12Exp(b, HardExp)
(* e(P1, Q) for P1 = O or <<x, y>> on E(F_p), Q = O or <<x, y>> on E'(F_p^2); e(O, .) = e(., O) = 1 *)
Pair(P1, Q) == IF P1 = E1!Inf \/ Q = Inf2 THEN F12One ELSE FinalExp(Miller(P1, Q))
(* the generator e(P1, P2) of GT, and g^k *)
GTGen == Pair(E1!G, G2)
GTBaseExp(k) == F12Exp(GTGen, k)
=============================================================================
