CONSTANTS Seed = 1
 Ops = {"sm2sign","sm2enc","sm2keygen","sm2kx","ecdhkeygen","sm9masters","sm9mastere","sm9wrap","sm9kx","sm9sign"}
 SeqIds = {1,2,4,9,11}
 CmpIds = {5, 47}
 Aligns = {0,1}
 FaultKinds = {"err","eof"}
 FaultStride = 16
 OutFile = "/tmp/vs/c12.ndjson"
SPECIFICATION Spec
VIEW View
INVARIANTS ScalarIsBlock
CHECK_DEADLOCK FALSE
