-------------------------------- MODULE Prng -------------------------------
(* Deterministic pseudo-random data for scenarios.  Scenario *shapes* are   *)
(* enumerated by TLC; byte *contents* come from here, keyed by (seed, label, *)
(* index), so TLC never branches over contents.  Stateless (no recursion):  *)
(* a two-round multiplicative mix with all intermediates below 2^31.        *)
EXTENDS Integers, Sequences

Mix(x) == LET a == ((x % 46337) * 46327 + 12345) % 65521      \* < 2^31 throughout
              b == (((a + (x \div 46337)) % 65521) * 32749 + 7) % 65537
          IN  (b * 251 + a) % 65521
Word16(seed, label, i) == Mix(Mix((((seed % 30011) * 65521) % 1000003) + label * 7919) + i * 31 + 17)
ByteAt(seed, label, i) == (Word16(seed, label, i) \div 7) % 256
Bytes(seed, label, n) == [i \in 1..n |-> ByteAt(seed, label, i)]
(* bytes at absolute positions from+1..from+n of the stream (seed,label) *)
BytesFrom(seed, label, from, n) == [i \in 1..n |-> ByteAt(seed, label, from + i)]
Pick(seed, label, i, n) == Word16(seed, label, i) % n           \* in 0..n-1
=============================================================================
