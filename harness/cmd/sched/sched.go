package main

import (
	"bytes"
	"crypto/sha256"
	"encoding/hex"
	"encoding/json"
	"fmt"
	"math/rand"
	"os"
	"runtime"
	"sort"
	"strconv"
	"strings"
	"sync"
	"sync/atomic"
	"time"
)

// ---------------------------------------------------------------------------------------------
// Vocabulary: an object KIND names what is shared between the goroutines of a trial (one fresh
// object per trial), its OPS are the public calls made on it, its SITES are the lazily initialised
// caches (verifGate names) whose events are logged for it.  A TRIAL is: N goroutines, phase 1
// (first use; mode free or forced), phase 2 (steady state: the same goroutines call again on the
// now-initialised object), then every (op, variant) that was made concurrently is made once more
// on one goroutine ("seq") and the results are compared.
// ---------------------------------------------------------------------------------------------

type opdef struct {
	name string
	// call performs the public call(s) on the shared object o; v selects the input (one per goroutine index).
	call func(o any, v int) ([]byte, error)
	// judge, if set, maps the result of a randomised operation to a deterministic verdict ("ok"/"bad");
	// it runs afterwards on one goroutine with objects that are not shared. nil: res = digest of the bytes.
	judge func(v int, raw []byte) string
}

type kind struct {
	name       string
	sites      []string // sites whose gate events are logged for this kind
	must       []string // sites that every trial is expected to initialise (vacuity: reported, checked by the driver)
	perProcess bool     // the shared "object" is package state: one trial per fresh child process
	toy        bool     // harness-owned toy object (self-check), not part of the verdict about /repo
	cold       []string // operations that do not pass any of the sites (the others do, on first use)
	fresh      func(trial int) (any, error)
	ops        []opdef
}

type event struct {
	T    int    `json:"t"`
	Seq  int64  `json:"seq"`
	Kind string `json:"kind"`
	Site string `json:"site"`
	G    int    `json:"g"`
	Op   string `json:"op"`
	Res  string `json:"res"`
}

type resetEvent struct {
	T     int      `json:"t"`
	Seq   int64    `json:"seq"`
	Kind  string   `json:"kind"`
	Site  string   `json:"site"`
	G     int      `json:"g"`
	Op    string   `json:"op"`  // object kind
	Res   string   `json:"res"` // mode of phase 1
	Fresh []string `json:"fresh"`
	N     int      `json:"n"`
}

type result struct {
	g, v   int
	op     *opdef
	raw    []byte
	err    error
	pan    string
	res    string
	evIdx  int
	phase  int
	opname string
}

type worker struct {
	g    int
	op   string
	seen map[string]bool
	rng  *rand.Rand
	res  []result
}

type trial struct {
	id     int
	n      int
	mode   string // "free" | "forced"
	phase  int
	logged map[string]bool
	grace  time.Duration

	seq     atomic.Int64
	issued  atomic.Int32
	mu      sync.Mutex
	events  []event
	ninit   map[string]int
	held    map[string]bool
	workers sync.Map // goroutine id -> *worker
	herr    atomic.Value
}

var cur atomic.Pointer[trial]

// initsOutside counts initialisations seen while no trial was running (set-up code).
var initsOutside sync.Map

func goid() int64 {
	var buf [64]byte
	n := runtime.Stack(buf[:], false)
	// "goroutine 123 [running]:"
	s := buf[len("goroutine "):n]
	i := bytes.IndexByte(s, ' ')
	if i < 0 {
		return -1
	}
	id, err := strconv.ParseInt(string(s[:i]), 10, 64)
	if err != nil {
		return -1
	}
	return id
}

// gate is installed with verifhook.SetGate (and called directly by the toy objects). It runs on the
// goroutine that executes the site.
func gate(ev string) {
	i := strings.IndexByte(ev, ':')
	if i < 0 {
		return
	}
	k, site := ev[:i], ev[i+1:]
	t := cur.Load()
	if t == nil {
		if k == "init" {
			initsOutside.Store(site, true)
		}
		return
	}
	if !t.logged[site] {
		return
	}
	wv, ok := t.workers.Load(goid())
	if !ok {
		return
	}
	t.onGate(wv.(*worker), k, site)
}

func (t *trial) log(e event) int {
	e.T = t.id
	t.mu.Lock()
	t.events = append(t.events, e)
	i := len(t.events) - 1
	t.mu.Unlock()
	return i
}

func (t *trial) onGate(w *worker, k, site string) {
	if k == "done" {
		if w.seen[site] { // one "done" per goroutine, call and site is logged: the first
			t.perturb(w)
			return
		}
		w.seen[site] = true
	}
	t.log(event{Seq: t.seq.Add(1), Kind: k, Site: site, G: w.g, Op: w.op})
	first := false
	if k == "init" || k == "inited" {
		t.mu.Lock()
		if k == "init" {
			t.ninit[site]++
			first = t.ninit[site] == 1
			if first {
				t.held[site] = true
			}
		} else {
			first = t.held[site]
			t.held[site] = false
		}
		t.mu.Unlock()
	}
	if t.mode == "forced" && t.phase == 1 && first {
		if k == "init" {
			// the attack schedule of the Unguarded model: the first goroutine inside the initialiser is
			// held until every other goroutine has issued its call and had time to reach the guard.
			deadline := time.Now().Add(30 * time.Second)
			for t.issued.Load() < int32(t.n) {
				if time.Now().After(deadline) {
					t.herr.Store("forced mode: not every goroutine issued its call within 30s")
					break
				}
				time.Sleep(200 * time.Microsecond)
			}
			time.Sleep(t.grace)
		} else {
			time.Sleep(t.grace / 4) // value stored, Once not yet marked done
		}
		return
	}
	if k == "init" {
		// free mode: keep the initialiser inside the body a little longer, so that the others arrive at the guard
		time.Sleep(time.Duration(w.rng.Intn(400)) * time.Microsecond)
		return
	}
	t.perturb(w)
}

func (t *trial) perturb(w *worker) {
	switch w.rng.Intn(10) {
	case 0, 1, 2:
		runtime.Gosched()
	case 3:
		time.Sleep(time.Duration(w.rng.Intn(100)) * time.Microsecond)
	case 4:
		time.Sleep(time.Duration(w.rng.Intn(1000)) * time.Microsecond)
	}
}

func safeCall(op *opdef, o any, v int) (raw []byte, err error, pan string) {
	defer func() {
		if r := recover(); r != nil {
			buf := make([]byte, 4096)
			buf = buf[:runtime.Stack(buf, false)]
			pan = fmt.Sprintf("%v\n%s", r, buf)
		}
	}()
	raw, err = op.call(o, v)
	return
}

type plan [][]*opdef // plan[g] = the calls goroutine g makes in this phase

// runPhase starts n goroutines on a barrier; returns false if the watchdog expired.
func (t *trial) runPhase(phase int, o any, pl plan, ws []*worker, watchdog time.Duration) bool {
	t.phase = phase
	t.issued.Store(0)
	var ready, done sync.WaitGroup
	start := make(chan struct{})
	for g := 0; g < t.n; g++ {
		ready.Add(1)
		done.Add(1)
		go func(w *worker, ops []*opdef) {
			defer done.Done()
			id := goid()
			t.workers.Store(id, w)
			defer t.workers.Delete(id)
			ready.Done()
			<-start
			for i, op := range ops {
				if t.mode == "free" || phase == 2 {
					t.perturb(w)
				}
				w.op = fmt.Sprintf("%s/%d", op.name, w.g-1)
				w.seen = map[string]bool{}
				t.log(event{Seq: t.seq.Add(1), Kind: "call", G: w.g, Op: w.op})
				if i == 0 {
					t.issued.Add(1)
				}
				raw, err, pan := safeCall(op, o, w.g-1)
				w.res = append(w.res, result{g: w.g, v: w.g - 1, op: op, raw: raw, err: err, pan: pan, phase: phase, opname: w.op})
				ei := t.log(event{Seq: t.seq.Add(1), Kind: "ret", G: w.g, Op: w.op})
				w.res[len(w.res)-1].evIdx = ei
			}
		}(ws[g], pl[g])
	}
	ready.Wait()
	close(start)
	fin := make(chan struct{})
	go func() { done.Wait(); close(fin) }()
	select {
	case <-fin:
		return true
	case <-time.After(watchdog):
		return false
	}
}

func resOf(op *opdef, v int, raw []byte, err error, pan string) string {
	switch {
	case pan != "":
		return "panic"
	case err != nil:
		return "err"
	case op.judge != nil:
		return op.judge(v, raw)
	default:
		h := sha256.Sum256(raw)
		return hex.EncodeToString(h[:8])
	}
}

type fail struct {
	Trial  int    `json:"trial"`
	What   string `json:"what"` // double-init | early-use | wrong-result | panic | deadlock | race | harness
	Detail string `json:"detail"`
}

type siteStat struct {
	Inits     int `json:"inits"`     // trials in which the site was initialised
	Contended int `json:"contended"` // ... while another goroutine that passed the site had already issued its call
	Double    int `json:"double"`    // trials with more than one init of the site
	Early     int `json:"early"`     // trials with a done before the inited
}

type summary struct {
	Summary   bool                 `json:"summary"`
	Kind      string               `json:"kind"`
	N         int                  `json:"n"`
	Trials    int                  `json:"trials"`
	Free      int                  `json:"free"`
	Forced    int                  `json:"forced"`
	Calls     int                  `json:"calls"`    // concurrent public calls made
	Compared  int                  `json:"compared"` // results compared with the sequential call
	Events    int                  `json:"events"`
	Sites     map[string]*siteStat `json:"sites"`
	Attempted int                  `json:"attack_attempted"`  // forced trials in which an initialiser was held
	Infeas    int                  `json:"attack_infeasible"` // ... and no second init / early use happened
	Reprod    int                  `json:"attack_reproduced"`
	Races     int                  `json:"races"` // child processes that reported a data race
	Fails     []fail               `json:"fails"`
	Wall      float64              `json:"wall_s"`
}

func newSummary(k *kind, n int) *summary {
	s := &summary{Summary: true, Kind: k.name, N: n, Sites: map[string]*siteStat{}, Fails: []fail{}}
	for _, st := range k.sites {
		s.Sites[st] = &siteStat{}
	}
	return s
}

func (s *summary) add(o *summary) {
	s.Trials += o.Trials
	s.Free += o.Free
	s.Forced += o.Forced
	s.Calls += o.Calls
	s.Compared += o.Compared
	s.Events += o.Events
	s.Attempted += o.Attempted
	s.Infeas += o.Infeas
	s.Reprod += o.Reprod
	s.Races += o.Races
	s.Fails = append(s.Fails, o.Fails...)
	for k, v := range o.Sites {
		if s.Sites[k] == nil {
			s.Sites[k] = &siteStat{}
		}
		s.Sites[k].Inits += v.Inits
		s.Sites[k].Contended += v.Contended
		s.Sites[k].Double += v.Double
		s.Sites[k].Early += v.Early
	}
}

type deadlock struct{ dump string }

// runTrial runs one trial of kind k and appends its events to out. It never decides about /repo by timing:
// every verdict comes from a recorded event, a result, a panic or the watchdog.
func runTrial(k *kind, id, n int, mode string, grace, watchdog time.Duration, seed int64, sum *summary, out *json.Encoder) *deadlock {
	fmt.Fprintf(os.Stderr, "=== trial %d kind=%s mode=%s\n", id, k.name, mode)
	o, err := k.fresh(id)
	if err != nil {
		sum.Fails = append(sum.Fails, fail{id, "harness", "fresh object: " + err.Error()})
		return nil
	}
	t := &trial{id: id, n: n, mode: mode, grace: grace, logged: map[string]bool{}, ninit: map[string]int{}, held: map[string]bool{}}
	for _, s := range k.sites {
		t.logged[s] = true
	}
	ws := make([]*worker, n)
	for g := range ws {
		ws[g] = &worker{g: g + 1, rng: rand.New(rand.NewSource(seed*1000003 + int64(id)*31 + int64(g)))}
	}
	// phase 1 (first use): operations that pass the lazily initialised sites, so that the initialisation is
	// contended; every fourth trial the last goroutine makes an operation that does not (it must not be disturbed
	// by, and must not disturb, the initialisation). Phase 2 (steady state): two calls each out of all operations.
	var hot, cold []*opdef
	for i := range k.ops {
		isCold := false
		for _, c := range k.cold {
			isCold = isCold || c == k.ops[i].name
		}
		if isCold {
			cold = append(cold, &k.ops[i])
		} else {
			hot = append(hot, &k.ops[i])
		}
	}
	nops := len(k.ops)
	p1, p2 := make(plan, n), make(plan, n)
	for g := 0; g < n; g++ {
		p1[g] = []*opdef{hot[(g+id)%len(hot)]}
		if len(cold) > 0 && id%4 == 1 && g == n-1 {
			p1[g] = []*opdef{cold[(id/4)%len(cold)]}
		}
		p2[g] = []*opdef{&k.ops[(g+id+1)%nops], &k.ops[(g+2*id+2)%nops]}
	}
	cur.Store(t)
	ok := t.runPhase(1, o, p1, ws, watchdog)
	if ok {
		ok = t.runPhase(2, o, p2, ws, watchdog)
	}
	if !ok {
		buf := make([]byte, 1<<20)
		buf = buf[:runtime.Stack(buf, true)]
		sum.Fails = append(sum.Fails, fail{id, "deadlock", fmt.Sprintf("goroutines of trial %d (%s, %s, phase %d) did not finish within %v", id, k.name, mode, t.phase, watchdog)})
		return &deadlock{string(buf)}
	}
	cur.Store(nil)
	if h := t.herr.Load(); h != nil {
		sum.Fails = append(sum.Fails, fail{id, "harness", h.(string)})
	}

	// results: judged on this goroutine, then the same calls made one after another on the shared object
	seqres := map[string]string{}
	var order []string
	var all []*result
	for _, w := range ws {
		for i := range w.res {
			all = append(all, &w.res[i])
		}
	}
	sort.Slice(all, func(i, j int) bool { return t.events[all[i].evIdx].Seq < t.events[all[j].evIdx].Seq })
	isBad := func(res string) bool { return res == "bad" || res == "err" || res == "panic" }
	persistent := map[string]bool{}
	for _, r := range all {
		r.res = resOf(r.op, r.v, r.raw, r.err, r.pan)
		t.events[r.evIdx].Res = r.res
		if _, ok := seqres[r.opname]; !ok {
			raw, err, pan := safeCall(r.op, o, r.v)
			sres := resOf(r.op, r.v, raw, err, pan)
			order = append(order, r.opname)
			if pan != "" {
				sum.Fails = append(sum.Fails, fail{id, "panic", fmt.Sprintf("sequential %s on the shared %s after the concurrent phase: %s", r.opname, k.name, pan)})
			}
			if isBad(sres) && !k.perProcess {
				// the shared object answers wrongly even sequentially: ask an object that was never shared.
				// If that one is right, the concurrent phase has damaged the shared object; if it is wrong as
				// well the operation or its input is broken regardless of concurrency (harness trouble).
				if o2, err2 := k.fresh(id); err2 == nil {
					raw2, e2, p2 := safeCall(r.op, o2, r.v)
					if ref := resOf(r.op, r.v, raw2, e2, p2); !isBad(ref) {
						sres = ref
						persistent[r.opname] = true
					} else {
						sum.Fails = append(sum.Fails, fail{id, "harness", fmt.Sprintf("%s on a fresh unshared %s: %s (err=%v %s)", r.opname, k.name, ref, e2, p2)})
					}
				}
			}
			seqres[r.opname] = sres
		}
	}
	for opn := range persistent {
		sum.Fails = append(sum.Fails, fail{id, "wrong-result", fmt.Sprintf("%s on the shared %s after the concurrent phase (%s) fails, on a fresh unshared object it gives %s: the shared object was damaged", opn, k.name, mode, seqres[opn])})
	}
	for _, r := range all {
		sum.Calls++
		sum.Compared++
		exp := seqres[r.opname]
		switch {
		case r.pan != "":
			sum.Fails = append(sum.Fails, fail{id, "panic", fmt.Sprintf("g%d %s on shared %s (phase %d, %s): %s", r.g, r.opname, k.name, r.phase, mode, r.pan)})
		case r.res != exp:
			sum.Fails = append(sum.Fails, fail{id, "wrong-result", fmt.Sprintf("g%d %s on shared %s (phase %d, %s): concurrent result %s, sequential result %s (err=%v)", r.g, r.opname, k.name, r.phase, mode, r.res, exp, r.err)})
		case isBad(r.res):
			// only per-process kinds get here (package state cannot be rebuilt in this process); the inputs were
			// produced and checked by the parent process, so this is a result the sequential library does not give
			sum.Fails = append(sum.Fails, fail{id, "wrong-result-persistent", fmt.Sprintf("g%d %s on shared %s (phase %d, %s): result %s (err=%v), and the same sequentially afterwards in this process", r.g, r.opname, k.name, r.phase, mode, r.res, r.err)})
		}
	}
	for _, opn := range order {
		t.events = append(t.events, event{T: id, Seq: t.seq.Add(1), Kind: "seq", Op: opn, Res: seqres[opn]})
	}

	// site statistics and the verdict of the forced schedule
	sort.SliceStable(t.events, func(i, j int) bool { return t.events[i].Seq < t.events[j].Seq })
	callSeq := map[int]int64{} // first call of each goroutine
	for _, e := range t.events {
		if e.Kind == "call" {
			if _, ok := callSeq[e.G]; !ok {
				callSeq[e.G] = e.Seq
			}
		}
	}
	var fresh []string
	reproduced := false
	for _, s := range k.sites {
		var initSeq, initedSeq int64 = -1, -1
		initG := 0
		ninit := 0
		early, contended := false, false
		for _, e := range t.events {
			if e.Site != s {
				continue
			}
			switch e.Kind {
			case "init":
				ninit++
				if initSeq < 0 {
					initSeq, initG = e.Seq, e.G
				}
			case "inited":
				if initedSeq < 0 {
					initedSeq = e.Seq
				}
			}
		}
		if ninit == 0 {
			continue
		}
		fresh = append(fresh, s)
		for _, e := range t.events {
			if e.Site == s && e.Kind == "done" && e.G != initG {
				if initedSeq < 0 || e.Seq < initedSeq {
					early = true
				} else if callSeq[e.G] < initedSeq {
					contended = true
				}
			}
		}
		st := sum.Sites[s]
		st.Inits++
		if contended {
			st.Contended++
		}
		if ninit > 1 {
			st.Double++
			reproduced = true
			sum.Fails = append(sum.Fails, fail{id, "double-init", fmt.Sprintf("site %s initialised %d times on one %s (%s)", s, ninit, k.name, mode)})
		}
		if early {
			st.Early++
			reproduced = true
			sum.Fails = append(sum.Fails, fail{id, "early-use", fmt.Sprintf("site %s of %s: a goroutine passed the guard before the initialiser finished (%s)", s, k.name, mode)})
		}
	}
	sum.Trials++
	if mode == "forced" {
		sum.Forced++
		if len(fresh) > 0 {
			sum.Attempted++
			if reproduced {
				sum.Reprod++
			} else {
				sum.Infeas++
			}
		}
	} else {
		sum.Free++
	}
	if fresh == nil {
		fresh = []string{}
	}
	sort.Strings(fresh)
	out.Encode(resetEvent{T: id, Kind: "reset", Op: k.name, Res: mode, Fresh: fresh, N: n})
	for _, e := range t.events {
		out.Encode(e)
	}
	sum.Events += len(t.events) + 1
	return nil
}
