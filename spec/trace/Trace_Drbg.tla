----------------------------- MODULE Trace_Drbg -----------------------------
(* code -> spec: events recorded from real drbg.HashDrbg / HmacDrbg / CtrDrbg *)
(* objects (harness cmd/record, family drbg; SM3 / SHA-256 / HMAC over them /  *)
(* SM4 / AES-128/192/256, NIST mode, and SM3 / SM4 in GM/T 0105 mode, test      *)
(* level) must be a behaviour of DrbgObj.  Each event   *)
(* enables exactly the DrbgObj action of its name with the logged inputs; the *)
(* logged reply class, NeedReseed() observation and output bytes must be the  *)
(* ones the action defines.  "new" starts the next recorded history.          *)
EXTENDS DrbgObj, TLC, TLCExt, Json
CONSTANT TraceFile
Hx == INSTANCE Hex
Tr == ndJsonDeserialize(TraceFile)
VARIABLE l
tvars == <<inst, mech, gm, alg, st, lastReseed, now, reply, l>>
Ev == Tr[l]
IsEvent(op) == l <= Len(Tr) /\ Tr[l].op = op /\ l' = l + 1
(* the specification leaves open which error is reported when two apply *)
Match(kind, logged) == kind = logged \/ (kind = "anyerr" /\ logged # "ok")

TNew    == IsEvent("new") /\ Drop
TInst   == /\ IsEvent("inst")
           /\ Instantiate(Ev.mech, Ev.gm, Ev.alg, Hx!ToBytes(Ev.e), Hx!ToBytes(Ev.n), Hx!ToBytes(Ev.p))
           /\ Match(reply'.kind, Ev.res)
           /\ (Ev.res = "ok" => Ev.max = AdvertisedMax(Ev.mech, Ev.gm))
TGen    == /\ IsEvent("gen")
           /\ Ev.need = NeedReseed
           /\ Generate(Ev.n, Hx!ToBytes(Ev.addl))
           /\ Match(reply'.kind, Ev.res)
           /\ (Ev.res = "ok" => reply'.out = Hx!ToBytes(Ev.out))
           /\ (Ev.res # "ok" => Ev.untouched)
TReseed == /\ IsEvent("reseed")
           /\ Reseed(Hx!ToBytes(Ev.e), Hx!ToBytes(Ev.addl))
           /\ Match(reply'.kind, Ev.res)

TraceInit == DInit /\ l = 1
TraceNext == TNew \/ TInst \/ TGen \/ TReseed
TraceSpec == TraceInit /\ [][TraceNext]_tvars
TraceAccepted == TLCGet("stats").diameter = Len(Tr) + 1
=============================================================================
