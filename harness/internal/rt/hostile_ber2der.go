//go:build verif && verifber

package rt

// Relational check of the unexported pkcs7.ber2der through the export hook
// /repo/pkcs7/export_verif.go (func VerifBer2Der). Enabled by checklib/props/c13.py (build tag
// verifber) when the hook file exists. Expectations computed by spec/obj/Ber.tla:
//   libform (Accept(b) and every length written in a form the normaliser handles) => no error and output = ToDer(b)
//   isder                                                                        => output = b

import (
	"bytes"
	"encoding/hex"

	"github.com/emmansun/gmsm/pkcs7"
)

func init() {
	extraEPs = append(extraEPs, hep{"pkcs7.ber2der(relations)", "ber", false, func(in *hin) error {
		out, err := pkcs7.VerifBer2Der(in.d)
		if !in.st.Has("libform") {
			return err
		}
		// Observation only (not a verdict): valid BER that the normaliser refuses (e.g. 30 80 00 00, an
		// indefinite-length constructed value without elements) or re-encodes differently from ToDer.
		// No listed property requires ber2der to accept all of BER: C13 allows an error, C16 speaks
		// about already-DER input only. The relation checked is the C16 clause below.
		if in.st.Bool("isder") && err == nil && !bytes.Equal(out, in.d) {
			return &relErr{got: hex.EncodeToString(out), exp: hex.EncodeToString(in.d), note: "ber2der changed an input that already is DER"}
		}
		return err
	}})
}
