----------------------------- MODULE Trace_Eea -----------------------------
(* code -> spec: events recorded from real seekable ZUC cipher objects        *)
(* (harness cmd/record, family zuceea) must be a behaviour of EeaObj.  A "new" *)
(* event starts the next recorded history: the keystream of its key and IV is  *)
(* computed from prim/ZUC.tla (need = highest position the history touches).   *)
(* Each "xor"/"xorat" event enables exactly the EeaObj action of its name with *)
(* the logged arguments, and the logged output must equal the reply the action *)
(* defines.  The bucket size of the object is logged but plays no role: it     *)
(* must not be observable.                                                    *)
EXTENDS EeaObj, TLC, TLCExt, Json
CONSTANT TraceFile
Z  == INSTANCE ZUC
ZM == INSTANCE ZucMac
Hx == INSTANCE Hex
Tr == ndJsonDeserialize(TraceFile)
VARIABLE l
tvars == <<pos, ks, reply, l>>
Ev == Tr[l]
IsEvent(op) == l <= Len(Tr) /\ Tr[l].op = op /\ l' = l + 1

IVOf(e) == IF e.variant = "eea" THEN ZM!Eea3IV(Hx!ToBytes(e.count), e.bearer, e.direction) ELSE Hx!ToBytes(e.iv)
TNew   == /\ IsEvent("new")
          /\ pos' = 0 /\ reply' = <<>>
          /\ ks' = Z!KeystreamBytes(Hx!ToBytes(Ev.key), IVOf(Ev), Ev.need)
TXor   == IsEvent("xor") /\ XORKeyStream(Hx!ToBytes(Ev.in)) /\ reply' = Hx!ToBytes(Ev.out)
TXorAt == IsEvent("xorat") /\ XORKeyStreamAt(Ev.off, Hx!ToBytes(Ev.in)) /\ reply' = Hx!ToBytes(Ev.out)

TraceInit == EInit(<<>>) /\ l = 1
TraceNext == TNew \/ TXor \/ TXorAt
TraceSpec == TraceInit /\ [][TraceNext]_tvars
TraceAccepted == TLCGet("stats").diameter = Len(Tr) + 1
=============================================================================
