INIT Init
NEXT Next
