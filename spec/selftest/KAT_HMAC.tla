------------------------------ MODULE KAT_HMAC ------------------------------
(* HMAC-SM3 on the TLA+ definition (prim/HMAC.tla).                           *)
(* Values: the HMAC-SM3 test data distributed with OpenSSL (evpmac, "HMAC-SM3  *)
(* from GM/T 0042-2015 Appendix D.3"), which reuse the RFC 2202 inputs.  The   *)
(* text of GM/T 0042 is not available offline; the two values below are the   *)
(* ones recalled with certainty, no value was obtained by running gmsm.       *)
(* Further: definitional consistency (long key = hashed key, key padding) and *)
(* equality of the cached form with the definition at the block seams.        *)
EXTENDS Integers, Sequences, TLC
M == INSTANCE HMAC
H == INSTANCE Hex
Str(s) == s    \* ASCII given as byte tuples below
Jefe == <<74, 101, 102, 101>>
WhatDoYa == <<119,104,97,116,32,100,111,32,121,97,32,119,97,110,116,32,102,111,114,32,110,111,116,104,105,110,103,63>>
HiThere == <<72, 105, 32, 84, 104, 101, 114, 101>>
ASSUME H!FromBytes(M!Sm3Mac(Jefe, WhatDoYa)) = "2e87f1d16862e6d964b50a5200bf2b10b764faa9680a296a2405f24bec39f882"
ASSUME H!FromBytes(M!Sm3Mac(M!Rep(11, 32), HiThere)) = "c0ba18c68b90c88bc07de794bfc7d2c8d19ec31ed8773bc2b390c9604e0be11e"
(* RFC 2104 section 2/3: a key longer than B is replaced by H(key); shorter keys are zero-padded *)
Seq8(n) == [i \in 1..n |-> (i * 7 + 3) % 256]
ASSUME M!Sm3Mac(Seq8(65), Seq8(10)) = M!Sm3Mac(M!Sm3(Seq8(65)), Seq8(10))
ASSUME M!Sm3Mac(Seq8(64), Seq8(10)) # M!Sm3Mac(M!Sm3(Seq8(64)), Seq8(10))
ASSUME M!Sm3Mac(Seq8(5), Seq8(10)) = M!Sm3Mac(Seq8(5) \o <<0, 0, 0>>, Seq8(10))
(* cached form = definition, at text lengths around the 64-byte seams and for short / full / long keys *)
ASSUME \A kl \in {0, 1, 32, 64, 65} : \A tl \in {0, 1, 32, 33, 55, 56, 63, 64, 65, 119, 120, 128, 129} :
          M!Sm3MacKS(M!Sm3KeyState(Seq8(kl)), Seq8(tl)) = M!Sm3Mac(Seq8(kl), Seq8(tl))
ASSUME PrintT("KAT_HMAC ok")
VARIABLE x
Init == x = 0
Next == UNCHANGED x
=============================================================================
