------------------------------ MODULE SM2Scheme ------------------------------
(* The SM2 public-key algorithms of GB/T 32918-2016 as pure operators, generic *)
(* in the curve (P, A, B, N, G) so that the worked examples of the standard on  *)
(* its 256-bit sample curve AND on the recommended curve (GB/T 32918.5-2017)    *)
(* can both be asserted (selftest/KAT_SM2).  algo/SM2.tla is this module on the  *)
(* recommended curve.  Hash = SM3 (v = 256), KDF = GB/T 32918.4 5.4.3, h = 1.   *)
(*   part 2  digital signature:   ZA, MsgHash, SignWithK, VerifyEq              *)
(*   part 3  key exchange:        XBar, KxT, KxV, KxShared, KxKey, KxS1, KxS2   *)
(*   part 4  public key encryption: EncryptWithK, Decrypt, ciphertext layouts    *)
(* Values: integers are BigNat values (minimal big-endian byte sequences),       *)
(* points are Ec!Inf or <<x, y>>, byte strings are sequences over 0..255.        *)
(* Results that can fail are records with a field ok and always the same fields. *)
EXTENDS Integers, Sequences
CONSTANTS P, A, B, N, Gx, Gy
BN  == INSTANCE BigNat
By  == INSTANCE Bytes
H   == INSTANCE SM3
Kd  == INSTANCE Kdf
Ec  == INSTANCE EC WITH CLen <- 32

G == Ec!G
F32(a) == BN!ToFixed(a, 32)                      \* field element / integer -> 32 bytes (4.2.2, 4.2.6)
OS2I(bytes) == BN!Norm(bytes)                     \* byte string -> integer (4.2.3)
NMinus1 == BN!Sub(N, <<1>>)
(* xor of byte strings as a concrete tuple (a function constructor would stay a lazy value in TLC) *)
XorB(a, b) == SubSeq(By!BXor(a, b), 1, Len(a))
InRange1(a, hi) == ~BN!IsZero(a) /\ BN!Le(a, hi)  \* a in [1, hi]

(* ------------------------------------------------------------------ keys *)
(* private key d in [1, n-2] (32918.2 6.1: d in [1, n-2]); public key P = [d]G *)
ValidPriv(d) == InRange1(d, BN!Sub(N, <<2>>))
PublicKey(d) == Ec!Mul(d, G)
ValidPub(Q)  == Ec!OnCurve(Q)                     \* affine, in range, on the curve (n prime, h = 1: order n)

(* -------------------------------------------------- part 2: signatures *)
DefaultUid == <<49, 50, 51, 52, 53, 54, 55, 56, 49, 50, 51, 52, 53, 54, 55, 56>>     \* "1234567812345678"
(* ZA = H256(ENTLA || IDA || a || b || xG || yG || xA || yA); ENTLA = bit length of the id in 2 bytes (< 2^16 bits) *)
ZA(uid, Q) == H!Hash(By!I2OSP(8 * Len(uid), 2) \o uid \o F32(A) \o F32(B) \o F32(Gx) \o F32(Gy) \o F32(Q[1]) \o F32(Q[2]))
UidOK(uid) == Len(uid) < 8192
(* e = Hv(ZA || M) as a byte string; the integer e is OS2I(e) *)
MsgHash(za, msg) == H!Hash(za \o msg)
Digest(uid, Q, msg) == MsgHash(ZA(uid, Q), msg)

NoSig == [ok |-> FALSE, r |-> <<>>, s |-> <<>>]
(* 32918.2 6.1 A3-A7 with the random k given; e is the 32-byte digest.  ok = FALSE  *)
(* stands for "return to A3" (r = 0, r + k = n, s = 0); k must be in [1, n-1].       *)
SignWithK(d, k, e) ==
  LET kG == Ec!Mul(k, G)
  IN IF kG = Ec!Inf THEN NoSig
     ELSE LET r == BN!AddMod(OS2I(e), kG[1], N)
              dInv == BN!InvMod(BN!Add(d, <<1>>), N)                       \* (1 + dA)^-1 mod n
              s == BN!MulMod(dInv, BN!SubMod(k, BN!MulMod(r, d, N), N), N)   \* ((1+dA)^-1 (k - r dA)) mod n
          IN IF BN!IsZero(r) \/ BN!Add(r, OS2I(k)) = N \/ BN!IsZero(s) THEN NoSig
             ELSE [ok |-> TRUE, r |-> r, s |-> s]
(* 32918.2 7.1 B1-B7 on integers r, s (any naturals) and the 32-byte digest e *)
VerifyEq(Q, e, r, s) ==
  IF ~(InRange1(r, NMinus1) /\ InRange1(s, NMinus1)) THEN FALSE
  ELSE LET t == BN!AddMod(r, s, N)
       IN IF BN!IsZero(t) THEN FALSE
          ELSE LET pt == Ec!Add(Ec!Mul(s, G), Ec!Mul(t, Q))
               IN IF pt = Ec!Inf THEN FALSE
                  ELSE BN!AddMod(OS2I(e), pt[1], N) = BN!Norm(r)
(* signature as the 64-byte string r || s *)
SigBytes(sig) == F32(sig.r) \o F32(sig.s)

(* ----------------------------------------- part 4: public key encryption *)
NoCt == [ok |-> FALSE, c1 |-> Ec!Inf, c2 |-> <<>>, c3 |-> <<>>, x2 |-> <<>>, y2 |-> <<>>]
(* 32918.4 6.1 A2-A7 with the random k given (k in [1, n-1]); ok = FALSE stands for *)
(* "return to A1" (t all zero) or for S = [h]PB = O.  Note: for the empty message t  *)
(* is empty, hence all zero: the empty message has no ciphertext.                     *)
EncryptWithK(Q, k, M) ==
  LET kQ == Ec!Mul(k, Q)
  IN IF Q = Ec!Inf \/ kQ = Ec!Inf THEN NoCt
     ELSE LET x2 == F32(kQ[1])
              y2 == F32(kQ[2])
              t == Kd!KDF(x2 \o y2, Len(M))
          IN IF By!AllZero(t) THEN NoCt
             ELSE [ok |-> TRUE, c1 |-> Ec!Mul(k, G), c2 |-> XorB(M, t), c3 |-> H!Hash(x2 \o M \o y2),
                   x2 |-> x2, y2 |-> y2]
NoMsg == [ok |-> FALSE, msg |-> <<>>]
(* 32918.4 7.1 B1-B7: C1 a pair <<x, y>> (or Inf) as decoded from the ciphertext *)
Decrypt(d, C1, C2, C3) ==
  IF ~Ec!OnCurve(C1) THEN NoMsg                               \* B1 (and B2 with h = 1: S = C1 # O)
  ELSE LET dC == Ec!Mul(d, C1)
       IN IF dC = Ec!Inf THEN NoMsg
          ELSE LET x2 == F32(dC[1])
                   y2 == F32(dC[2])
                   t == Kd!KDF(x2 \o y2, Len(C2))
               IN IF By!AllZero(t) THEN NoMsg                  \* B4
                  ELSE LET m == XorB(C2, t)
                       IN IF H!Hash(x2 \o m \o y2) = C3 THEN [ok |-> TRUE, msg |-> m] ELSE NoMsg   \* B6
(* byte-string ciphertexts: C1 as 04||x||y ("u") or 02/03||x ("c"); order C1||C3||C2 (32918.4-2016) *)
(* or C1||C2||C3 (the 2010 draft order, still in use)                                              *)
CtBytes(ct, layout, form) ==
  IF layout = "C1C2C3" THEN Ec!Encode(ct.c1, form) \o ct.c2 \o ct.c3
  ELSE Ec!Encode(ct.c1, form) \o ct.c3 \o ct.c2
NoParse == [ok |-> FALSE, c1 |-> Ec!Inf, c2 |-> <<>>, c3 |-> <<>>]
(* split a byte string; C1's length follows from its first byte; C2 may not be empty *)
ParseCt(s, layout) ==
  IF Len(s) = 0 THEN NoParse
  ELSE LET l1 == IF s[1] = 4 THEN 65 ELSE IF s[1] \in {2, 3} THEN 33 ELSE 0
       IN IF l1 = 0 \/ Len(s) < l1 + 32 + 1 THEN NoParse
          ELSE LET p == Ec!DecodeNoInf(SubSeq(s, 1, l1))
                   rest == SubSeq(s, l1 + 1, Len(s))
                   c3 == IF layout = "C1C2C3" THEN SubSeq(rest, Len(rest) - 31, Len(rest)) ELSE SubSeq(rest, 1, 32)
                   c2 == IF layout = "C1C2C3" THEN SubSeq(rest, 1, Len(rest) - 32) ELSE SubSeq(rest, 33, Len(rest))
               IN IF p.ok THEN [ok |-> TRUE, c1 |-> p.pt, c2 |-> c2, c3 |-> c3] ELSE NoParse
DecryptBytes(d, s, layout) ==
  LET c == ParseCt(s, layout)
  IN IF c.ok THEN Decrypt(d, c.c1, c.c2, c.c3) ELSE NoMsg

(* ------------------------------------------------- part 3: key exchange *)
(* w = ceil(ceil(log2 n) / 2) - 1  (127 for a 256-bit n that is not a power of two) *)
W == ((BN!BitLen(N) + 1) \div 2) - 1
TwoW == LET RECURSIVE Pw(_)
            Pw(i) == IF i = 0 THEN <<1>> ELSE LET h == Pw(i - 1) IN BN!Add(h, h)
        IN Pw(W)
(* x~ = 2^w + (x & (2^w - 1)) *)
XBar(x) == BN!Add(TwoW, BN!Mod(x, TwoW))
(* t = (d + x~ * r) mod n, x~ taken from the own ephemeral point R = [r]G *)
KxT(d, r, Rself) == BN!AddMod(d, BN!MulMod(XBar(Rself[1]), r, N), N)
(* V (= U) = [h t](P_peer + [x~_peer] R_peer), h = 1 *)
KxV(t, Ppeer, Rpeer) == Ec!Mul(t, Ec!Add(Ppeer, Ec!Mul(XBar(Rpeer[1]), Rpeer)))
NoV == [ok |-> FALSE, v |-> Ec!Inf]
(* one party's computation: reject a peer ephemeral point that is not on the curve, and V = O *)
KxShared(d, r, Rself, Ppeer, Rpeer) ==
  IF ~Ec!OnCurve(Rpeer) THEN NoV
  ELSE LET v == KxV(KxT(d, r, Rself), Ppeer, Rpeer)
       IN IF v = Ec!Inf THEN NoV ELSE [ok |-> TRUE, v |-> v]
(* K = KDF(xV || yV || ZA || ZB, klen): ZA belongs to the initiator A, ZB to the responder B; klen in bytes *)
KxKey(V, za, zb, klen) == Kd!KDF(F32(V[1]) \o F32(V[2]) \o za \o zb, klen)
(* RA = (x1, y1) initiator's ephemeral point, RB = (x2, y2) responder's *)
KxInner(V, za, zb, RA, RB) == H!Hash(F32(V[1]) \o za \o zb \o F32(RA[1]) \o F32(RA[2]) \o F32(RB[1]) \o F32(RB[2]))
KxTag(prefix, V, za, zb, RA, RB) == H!Hash(<<prefix>> \o F32(V[2]) \o KxInner(V, za, zb, RA, RB))
KxS1(V, za, zb, RA, RB) == KxTag(2, V, za, zb, RA, RB)       \* S1 = SB: sent by B, checked by A
KxS2(V, za, zb, RA, RB) == KxTag(3, V, za, zb, RA, RB)       \* S2 = SA: sent by A, checked by B
=============================================================================
