package verifov;

import tlc2.overrides.TLAPlusOperator;
import tlc2.value.impl.IntValue;
import tlc2.value.impl.TupleValue;
import tlc2.value.impl.Value;

/**
 * Java evaluation of GF2!MulBR (product in GF(2^128), GCM bit order, SP 800-38D algorithm 1). The
 * TLA+ definition in spec/lib/GF2.tla stays the meaning; selftest/GF2Agree.tla compares the two.
 */
public final class GF2 {
  private GF2() {}

  private static long[] load(final Value v) {
    final TupleValue t = (TupleValue) v.toTuple();
    if (t == null || t.elems.length != 16) {
      throw new IllegalArgumentException("GF2!MulBR: not a 16-byte string: " + v);
    }
    long hi = 0, lo = 0;
    for (int i = 0; i < 8; i++) {
      hi = (hi << 8) | (((IntValue) t.elems[i]).val & 0xff);
      lo = (lo << 8) | (((IntValue) t.elems[8 + i]).val & 0xff);
    }
    return new long[] {hi, lo};
  }

  @TLAPlusOperator(identifier = "MulBR", module = "GF2", warn = false)
  public static Value mulBR(final Value xv, final Value yv) {
    final long[] x = load(xv);
    final long[] y = load(yv);
    long zh = 0, zl = 0, vh = y[0], vl = y[1];
    for (int i = 0; i < 128; i++) {
      final long bit = (i < 64) ? (x[0] >>> (63 - i)) & 1 : (x[1] >>> (127 - i)) & 1;
      if (bit == 1) {
        zh ^= vh;
        zl ^= vl;
      }
      final boolean lsb = (vl & 1) == 1;
      vl = (vl >>> 1) | (vh << 63);
      vh = vh >>> 1;
      if (lsb) {
        vh ^= 0xE100000000000000L;
      }
    }
    final Value[] e = new Value[16];
    for (int i = 0; i < 8; i++) {
      e[i] = IntValue.gen((int) ((zh >>> (56 - 8 * i)) & 0xff));
      e[8 + i] = IntValue.gen((int) ((zl >>> (56 - 8 * i)) & 0xff));
    }
    return new TupleValue(e);
  }
}
