------------------------------ MODULE MC_C01kdf ------------------------------
(* C01, KDF part.  State: the secret z in use and (cache, outside the VIEW) its *)
(* KDF stream up to the largest requested length.  PickZ(len) chooses a secret; *)
(* Derive(n, via) requests n bytes through one of the library's entry points.   *)
(* The reply is the first n bytes of SM3(z||1)||SM3(z||2)||...                  *)
EXTENDS Integers, Sequences, TLC, Json
CONSTANTS Seed, ZLens, KLens, OutFile
K  == INSTANCE Kdf
R  == INSTANCE Prng
B  == INSTANCE Bytes
Hx == INSTANCE Hex
Em == INSTANCE Emit
VARIABLES zlen, stream, last
vars == <<zlen, stream, last>>
View == <<zlen, last>>
MaxK == CHOOSE n \in KLens : \A m \in KLens : m <= n
Z(n) == R!Bytes(Seed, 60 + (n % 5), n)
(* entry points: sm3.Kdf, kdf.Kdf(sm3.New), the hash's own KdfInterface, and the two generic branches of kdf.Kdf that a      *)
(* foreign hash reaches: "marsh" (hash without KdfInterface but with exportable state: z is absorbed once and the state is    *)
(* re-imported per counter) and "plain" (neither: Write z, Write ct, Sum, Reset per counter)                                  *)
Vias == {"sm3", "pkg", "iface", "marsh", "plain"}
Init == zlen = -1 /\ stream = <<>> /\ last = <<>>
PickZ(n) == /\ zlen = -1 /\ zlen' = n /\ stream' = K!Stream(Z(n), K!NBlocks(MaxK)) /\ last' = <<>>
Derive(n, via) ==
  /\ zlen >= 0 /\ last = <<>>
  /\ last' = <<n, via>> /\ UNCHANGED <<zlen, stream>>
  /\ Em!Line(OutFile, ToJson([fam |-> "sm3kdf", steps |-> <<[op |-> "kdf", via |-> via, z |-> Hx!FromBytes(Z(zlen)),
                                                             n |-> n, exp |-> Hx!FromBytes(B!Take(stream, n))]>>]))
Next == (\E n \in ZLens : PickZ(n)) \/ (\E n \in KLens, v \in Vias : Derive(n, v))
Spec == Init /\ [][Next]_vars
(* shorter outputs are prefixes of longer ones: all replies for one z are prefixes of one stream *)
PrefixOK == zlen >= 0 => Len(stream) = 32 * K!NBlocks(MaxK)
(* the cached stream is the definition (small instance only: recomputes the KDF per state) *)
StreamIsKdf == zlen >= 0 => \A n \in {1, 32, 33} : B!Take(stream, n) = K!KDF(Z(zlen), n)
=============================================================================
