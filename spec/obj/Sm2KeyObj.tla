----------------------------- MODULE Sm2KeyObj -----------------------------
(* An SM2 signing key object (sm2.PrivateKey) and the verification entry       *)
(* points of gmsm, as a state machine over the GB/T 32918.2 operators of        *)
(* algo/SM2.tla and the strict DER recogniser of lib/Der.tla.                    *)
(*                                                                            *)
(* Abstract state: the scalar d the object holds, the public key stored in it,   *)
(* the lazily computed (1+d)^-1 mod n as cache in {"Unset","Ok","Failed"}, the    *)
(* cursor of the scripted random source, the candidate signature under            *)
(* discussion and the last reply.                                                 *)
(*                                                                            *)
(* Sign: the first use of the object decides the cache ("Failed" iff d >= n-1:    *)
(* 1+d is not invertible mod n, or d is not a residue); a Failed object replies    *)
(* Err on every call, an Ok object produces (r, s) from the first 32-byte block k   *)
(* of the random source with 0 < k < n for which 32918.2 6.1 A3-A6 does not say     *)
(* "return to A3" (this is how /repo/sm2/sm2_dsa.go randomPoint + signSM2EC draw    *)
(* the nonce: plain rejection sampling on the caller's stream, after                *)
(* randutil.MaybeReadByte has consumed skew in {0,1} bytes).  The package level     *)
(* functions sm2.Sign / sm2.SignWithSM2 work on a fresh copy of the key: they see   *)
(* cache = Unset and leave the object's cache alone.                                *)
(*                                                                            *)
(* Accept(Q, e, bytes) == StrictSig(bytes) /\ VerifyEq(Q, e, r, s) is the whole     *)
(* verification contract (VerifyEq contains r, s in [1, n-1]); entry points that    *)
(* take integers accept iff both are non-negative and VerifyEq holds.              *)
EXTENDS Integers, Sequences
LOCAL INSTANCE SequencesExt
S  == INSTANCE SM2
D  == INSTANCE Der
BN == INSTANCE BigNat

VARIABLES d, pub, cache, cur, cand, reply
kvars == <<d, pub, cache, cur, cand, reply>>

(* ------------------------------------------------------------ entries *)
SignEntries == {"signasn1_gm", "sign_gm", "sign_default", "signwithsm2",      \* (uid, msg) -> DER
                "sign_nil", "signasn1_nil", "sign_nogm",                      \* digest -> DER
                "legacy_sign",                                                \* digest -> (r, s), package function
                "legacy_signwithsm2"}                                         \* (uid, msg) -> (r, s), package function
EntryGm(en)   == en \in {"signasn1_gm", "sign_gm", "sign_default", "signwithsm2", "legacy_signwithsm2"}
EntryOwn(en)  == en \notin {"legacy_sign", "legacy_signwithsm2"}            \* uses (and fills) this object's cache
EntryInts(en) == en \in {"legacy_sign", "legacy_signwithsm2"}
VerifyEntries == {"asn1", "asn1sm2", "x509", "x509digest",                    \* DER in
                  "legacy", "legacysm2"}                                      \* integers in
VEntryInts(en) == en \in {"legacy", "legacysm2"}
VEntryGm(en)   == en \in {"asn1sm2", "x509", "legacysm2"}                    \* hashes (uid, msg) itself

(* the scalars for which signing must fail: n-1 and above *)
BadScalar(x) == ~BN!Lt(x, S!NMinus1)
(* an empty uid selects the default one (documented on SignWithSM2 / VerifyASN1WithSM2 / CalculateSM2Hash) *)
EffUid(uid) == IF uid = <<>> THEN S!DefaultUid ELSE uid

(* e = H(ZA || M) evaluated block by block.  DigestOf(uid, q, msg) is S!Digest(uid, q, msg): the same  *)
(* ZA input string (32918.2 5.5) hashed with SM3's own incremental form Chain/Finish (which HashObj's   *)
(* DigestIsHash shows equal to Hash), folded iteratively.  S!Digest recurses once per 64-byte block on   *)
(* unevaluated arguments, which for an 8191-byte uid (132 blocks) costs minutes and sometimes TLC's      *)
(* stack.  selftest/KAT_Sm2KeyObj asserts DigestOf = S!Digest on a grid of lengths and on the Annex A    *)
(* value of GB/T 32918.5; MC_C06's refine instance asserts it on the values it uses.                     *)
HashIter(m) ==
  LET n == Len(m)
      whole == n \div 64
      cv == FoldLeft(LAMBDA v, i : S!H!Chain(v, SubSeq(m, 64 * (i - 1) + 1, 64 * i)), S!H!IV, [i \in 1..whole |-> i])
  IN S!H!Finish(cv, SubSeq(m, 64 * whole + 1, n), n)
ZAInput(uid, q) == S!By!I2OSP(8 * Len(uid), 2) \o uid \o S!F32(S!A) \o S!F32(S!B) \o S!F32(S!Gx) \o S!F32(S!Gy)
                   \o S!F32(q[1]) \o S!F32(q[2])
DigestOf(uid, q, msg) == HashIter(HashIter(ZAInput(uid, q)) \o msg)

NoCand == [kind |-> <<"nocand", "", 0, 0>>, pub |-> <<>>, gm |-> FALSE, uid |-> <<>>, msg |-> <<>>, e |-> <<>>,
           bytes |-> <<>>, ints |-> FALSE, parsed |-> FALSE, rneg |-> FALSE, r |-> <<>>, sneg |-> FALSE, s |-> <<>>]
NoReply == [op |-> "none", err |-> FALSE, acc |-> FALSE, r |-> <<>>, s |-> <<>>, sig |-> <<>>, tries |-> 0]

KInit == /\ d = <<>> /\ pub = <<>> /\ cache = "Unset" /\ cur = 0 /\ cand = NoCand /\ reply = NoReply

(* a key object comes into existence holding scalar dd and public key q *)
KeyNew(dd, q) ==
  /\ d' = BN!Norm(dd) /\ pub' = q /\ cache' = "Unset" /\ cur' = 0 /\ cand' = NoCand
  /\ reply' = [NoReply EXCEPT !.op = "new"]

(* ------------------------------------------------------------- signing *)
NoDraw == [ok |-> FALSE, r |-> <<>>, s |-> <<>>, cur |-> 0, tries |-> 0]
(* rejection sampling (FIPS 186-4 B.5.2 as in sm2_dsa.go randomPoint) + the retry conditions of 6.1 *)
RECURSIVE Draw(_, _, _, _, _)
Draw(dd, e, stream, c, t) ==
  IF c + 32 > Len(stream) THEN NoDraw
  ELSE LET k == BN!Norm(SubSeq(stream, c + 1, c + 32))
       IN IF BN!IsZero(k) THEN Draw(dd, e, stream, c + 32, t + 1)
          ELSE IF ~BN!Lt(k, S!N) THEN Draw(dd, e, stream, c + 32, t + 1)
          ELSE LET sg == S!SignWithK(dd, k, e)
               IN IF sg.ok THEN [ok |-> TRUE, r |-> sg.r, s |-> sg.s, cur |-> c + 32, tries |-> t + 1]
                  ELSE Draw(dd, e, stream, c + 32, t + 1)

(* the candidate that is an honest signature *)
Honest(q, gm, uid, msg, e, r, s) ==
  [kind |-> <<"none", "", 0, 0>>, pub |-> q, gm |-> gm, uid |-> uid, msg |-> msg, e |-> e,
   bytes |-> D!EncSig(r, s), ints |-> TRUE, parsed |-> TRUE, rneg |-> FALSE, r |-> r, sneg |-> FALSE, s |-> s]

(* Sign through entry point en.  (uid, msg) is the message context; for digest entry points dig is the  *)
(* 32-byte digest handed in and prov says that dig = Digest(EffUid(uid), pub, msg) (precomputed by the   *)
(* caller), otherwise the context is unknown.  stream is the scripted random source, skew the            *)
(* MaybeReadByte outcome.                                                                               *)
Sign(en, uid, msg, dig, prov, stream, skew) ==
  LET own == EntryOwn(en)
      st0 == IF own THEN cache ELSE "Unset"
      st1 == IF st0 = "Unset" THEN (IF BadScalar(d) THEN "Failed" ELSE "Ok") ELSE st0
  IN /\ cache' = IF own THEN st1 ELSE cache
     /\ UNCHANGED <<d, pub>>
     /\ IF st1 = "Failed"
        THEN /\ reply' = [NoReply EXCEPT !.op = "sign", !.err = TRUE]
             /\ cur' = cur + skew
             /\ UNCHANGED cand
        ELSE \E e \in {IF EntryGm(en) THEN DigestOf(EffUid(uid), pub, msg) ELSE dig} :       \* (singleton \E: evaluate once, bind the value)
             \E dr \in {Draw(d, e, stream, cur + skew, 0)} :
                /\ dr.ok
                /\ cur' = dr.cur
                /\ cand' = Honest(pub, EntryGm(en) \/ prov, uid, msg, e, dr.r, dr.s)
                /\ reply' = [NoReply EXCEPT !.op = "sign", !.r = dr.r, !.s = dr.s, !.sig = D!EncSig(dr.r, dr.s), !.tries = dr.tries]

(* Sign as seen from outside when the random source is not known (recorded executions): the reply     *)
(* (err, or a signature as bytes / as integers) is one that Sign above can give for SOME stream.       *)
(* For a valid d and r, s in [1, n-1] with r + s # 0 (mod n), k = s + (r + s) d is the only nonce that  *)
(* can have produced (r, s), and SignWithK(d, k, e) = (r, s) iff x([k]G) + e = r (mod n), which is      *)
(* VerifyEq(pub, e, r, s) for pub = [d]G; k = n - r would mean r + s = 0.  So "possible reply" is        *)
(* exactly Accept under the object's public key.                                                        *)
SignObserved(en, uid, msg, dig, err, asInts, bytes, r, s) ==
  LET own == EntryOwn(en)
      st0 == IF own THEN cache ELSE "Unset"
      st1 == IF st0 = "Unset" THEN (IF BadScalar(d) THEN "Failed" ELSE "Ok") ELSE st0
  IN /\ cache' = IF own THEN st1 ELSE cache
     /\ UNCHANGED <<d, pub, cur>>
     /\ IF st1 = "Failed"
        THEN /\ err
             /\ reply' = [NoReply EXCEPT !.op = "sign", !.err = TRUE]
             /\ UNCHANGED cand
        ELSE \E e \in {IF EntryGm(en) THEN DigestOf(EffUid(uid), pub, msg) ELSE dig} :
             \E p \in {IF asInts THEN [ok |-> TRUE, r |-> BN!Norm(r), s |-> BN!Norm(s)] ELSE D!StrictSig(bytes)} :
                /\ ~err
                /\ p.ok
                /\ S!VerifyEq(pub, e, p.r, p.s)
                /\ cand' = Honest(pub, EntryGm(en), uid, msg, e, p.r, p.s)
                /\ reply' = [NoReply EXCEPT !.op = "sign", !.r = p.r, !.s = p.s, !.sig = D!EncSig(p.r, p.s)]

(* ---------------------------------------------------------- candidates *)
Max256 == SubSeq([i \in 1..32 |-> 255], 1, 32)
EncI(neg, v) == IF neg THEN D!EncNegInt(v) ELSE D!EncUInt(v)
(* candidate given as integers (sign, magnitude); its DER form is the encoding of exactly these integers *)
WithInts(c, kind, rneg, r, sneg, s) ==
  [c EXCEPT !.kind = kind, !.ints = TRUE, !.parsed = FALSE, !.rneg = rneg, !.r = BN!Norm(r), !.sneg = sneg, !.s = BN!Norm(s),
            !.bytes = D!EncSeq(<<EncI(rneg, r), EncI(sneg, s)>>)]
(* candidate given as bytes; integers are available iff the bytes are a strict signature value *)
WithBytes(c, kind, b) ==
  LET p == D!StrictSig(b)
  IN [c EXCEPT !.kind = kind, !.bytes = b, !.ints = p.ok, !.parsed = TRUE, !.rneg = FALSE, !.r = p.r, !.sneg = FALSE, !.s = p.s]
(* candidate whose message context changed: e follows the context when it is known *)
WithCtx(c, kind, q, uid, msg) ==
  [c EXCEPT !.kind = kind, !.pub = q, !.uid = uid, !.msg = msg,
            !.e = IF c.gm THEN DigestOf(EffUid(uid), q, msg) ELSE c.e]

IntKinds == {"zero", "one", "n", "nm1", "plusn", "max", "neg", "nminus"}
IntMut(v, x) ==            \* <<negative, magnitude>>
  IF x = "zero" THEN <<FALSE, <<>>>>
  ELSE IF x = "one" THEN <<FALSE, <<1>>>>
  ELSE IF x = "n" THEN <<FALSE, S!N>>
  ELSE IF x = "nm1" THEN <<FALSE, S!NMinus1>>
  ELSE IF x = "plusn" THEN <<FALSE, BN!Add(v, S!N)>>
  ELSE IF x = "max" THEN <<FALSE, Max256>>
  ELSE IF x = "neg" THEN <<TRUE, v>>
  ELSE <<FALSE, BN!Sub(S!N, v)>>                     \* "nminus": n - v

EncKinds == {"r_lead00", "s_lead00", "r_nolead", "s_nolead", "seq_long81", "seq_long82", "r_long81", "s_long81",
             "seq_indef", "trail_out", "trail_in", "trail_null", "three_ints", "one_int", "empty", "only_seq",
             "trunc1", "trunc_fix", "swap", "nested", "prefix00", "raw64"}
(* re-encodings of the candidate's (r, s): each is a byte string that is NOT the DER of (r, s) *)
ReEnc(r, s, name) ==
  LET ri == D!UIntContent(r)
      si == D!UIntContent(s)
      rt == D!TLV(2, ri)
      st == D!TLV(2, si)
      body == rt \o st
      sig == D!TLV(48, body)
  IN IF name = "r_lead00" THEN D!TLV(48, D!TLV(2, <<0>> \o ri) \o st)
     ELSE IF name = "s_lead00" THEN D!TLV(48, rt \o D!TLV(2, <<0>> \o si))
     ELSE IF name = "r_nolead" THEN D!TLV(48, D!TLV(2, Tail(ri)) \o st)           \* only when ri starts with 00: becomes negative
     ELSE IF name = "s_nolead" THEN D!TLV(48, rt \o D!TLV(2, Tail(si)))
     ELSE IF name = "seq_long81" THEN <<48, 129, Len(body)>> \o body
     ELSE IF name = "seq_long82" THEN <<48, 130, 0, Len(body)>> \o body
     ELSE IF name = "r_long81" THEN D!TLV(48, <<2, 129, Len(ri)>> \o ri \o st)
     ELSE IF name = "s_long81" THEN D!TLV(48, rt \o <<2, 129, Len(si)>> \o si)
     ELSE IF name = "seq_indef" THEN <<48, 128>> \o body \o <<0, 0>>
     ELSE IF name = "trail_out" THEN sig \o <<0>>
     ELSE IF name = "trail_in" THEN D!TLV(48, body \o <<0>>)
     ELSE IF name = "trail_null" THEN D!TLV(48, body \o <<5, 0>>)
     ELSE IF name = "three_ints" THEN D!TLV(48, body \o st)
     ELSE IF name = "one_int" THEN D!TLV(48, rt)
     ELSE IF name = "empty" THEN <<>>
     ELSE IF name = "only_seq" THEN <<48, 0>>
     ELSE IF name = "trunc1" THEN SubSeq(sig, 1, Len(sig) - 1)
     ELSE IF name = "trunc_fix" THEN D!TLV(48, rt \o D!TLV(2, SubSeq(si, 1, Len(si) - 1)))
     ELSE IF name = "swap" THEN D!EncSig(s, r)
     ELSE IF name = "nested" THEN D!TLV(48, sig)
     ELSE IF name = "prefix00" THEN <<0>> \o sig
     ELSE S!F32(r) \o S!F32(s)                                                     \* "raw64"
EncEnabled(r, s, name) ==
  IF name = "r_nolead" THEN Len(D!UIntContent(r)) > 1 /\ D!UIntContent(r)[1] = 0
  ELSE IF name = "s_nolead" THEN Len(D!UIntContent(s)) > 1 /\ D!UIntContent(s)[1] = 0
  ELSE IF name = "trunc_fix" THEN Len(D!UIntContent(s)) > 1
  ELSE TRUE

(* positions of the identifier and length octets in an honest signature (all lengths < 128) *)
HdrPos(b, w, what) ==
  LET lr == b[4]
      base == IF w = "seq" THEN 1 ELSE IF w = "r" THEN 3 ELSE 5 + lr
  IN IF what = "tag" THEN base ELSE base + 1

(* adversarial candidates: integers and a digest constructed so that EVERY test of 32918.2 7.1 passes except one - the    *)
(* range of r (r = 0, r = n), the range of s (s = 0, s = n), or t = (r + s) mod n # 0 - by solving the final equation for  *)
(* the digest: e = r - x1, (x1, y1) = [s]G + [t]Q.  A verifier that lost that one test accepts them.                        *)
AdvKinds == {"t0", "r0", "rn", "s0", "sn", "xbig"}
(* "xbig": a VALID signature whose point (x1, y1) = [s]G + [t]Q has its abscissa in [n, p-1], so that R = (e + x1) mod n    *)
(* needs x1 reduced.  Honest signatures meet this with probability 2^-128; here R is chosen first (the first points at or     *)
(* above x = n, the last one below p) and the public key is solved for: Q = [t^-1](R - [s]G), r = t - s, e = r - x1 mod n.     *)
(* Every test of 7.1 passes, so the standard accepts; a verifier that does not reduce x1 refuses.                             *)
RECURSIVE ScanUp(_, _)
ScanUp(x, k) == LET dr == S!Ec!Decompress(x, 0)
                IN IF dr.ok THEN (IF k = 1 THEN dr.pt ELSE ScanUp(BN!Add(x, <<1>>), k - 1)) ELSE ScanUp(BN!Add(x, <<1>>), k)
RECURSIVE ScanDown(_)
ScanDown(x) == LET dr == S!Ec!Decompress(x, 1) IN IF dr.ok THEN dr.pt ELSE ScanDown(BN!Sub(x, <<1>>))
XBigCand(c, kind, aux) ==
  LET j == kind[3]
      R == IF j = 3 THEN ScanDown(BN!Sub(S!P, <<1>>)) ELSE ScanUp(S!N, j)
      s == IF j = 1 THEN <<1>> ELSE IF j = 2 THEN <<2>> ELSE aux.s
      t0 == aux.r
      t == IF t0 = s THEN BN!AddMod(t0, <<1>>, S!N) ELSE t0
      r == BN!SubMod(t, s, S!N)
      Q == S!Ec!Mul(BN!InvMod(t, S!N), S!Ec!Add(R, S!Ec!Neg(S!Ec!Mul(s, S!G))))
      e == S!F32(BN!SubMod(r, BN!Mod(R[1], S!N), S!N))
  IN [WithInts(c, kind, FALSE, r, FALSE, s) EXCEPT !.gm = FALSE, !.e = e, !.pub = Q]
AdvCand(c, kind, aux) ==
  IF kind[2] = "xbig" THEN XBigCand(c, kind, aux) ELSE
  LET nm == kind[2]
      v == IF kind[3] = 1 THEN <<1>> ELSE IF kind[3] = 2 THEN <<2>> ELSE aux.s          \* in 1..n-1
      r == IF nm = "t0" THEN BN!Sub(S!N, v) ELSE IF nm = "r0" THEN <<>> ELSE IF nm = "rn" THEN S!N ELSE v
      s == IF nm \in {"t0", "r0", "rn"} THEN v ELSE IF nm = "s0" THEN <<>> ELSE S!N
      t == BN!AddMod(r, s, S!N)
      pt == S!Ec!Add(S!Ec!Mul(BN!Mod(s, S!N), S!G), S!Ec!Mul(t, c.pub))
      e == IF pt = S!Ec!Inf THEN S!F32(<<>>) ELSE S!F32(BN!SubMod(r, pt[1], S!N))
  IN [WithInts(c, kind, FALSE, r, FALSE, s) EXCEPT !.gm = FALSE, !.e = e]

CtxKinds == {"otherkey", "negpub", "othermsg", "msgflip", "msgappend", "msgtrunc", "otheruid", "uid_explicit", "digflip"}
(* kinds after which the candidate is still the signer's own signature on the same (key, uid, msg) *)
(* ... or that is a valid signature by construction under the key it carries ("xbig")            *)
Benign(kind) == kind[1] = "none" \/ (kind[1] = "ctx" /\ kind[2] = "uid_explicit") \/ (kind[1] = "adv" /\ kind[2] = "xbig")

(* Mutate the honest candidate.  kind = <<class, name, i, j>>; aux supplies foreign material          *)
(* [pub, uid, msg, r, s] for the kinds that need it.                                                  *)
Mutated(c, kind, aux) ==
  LET cl == kind[1]
      nm == kind[2]
  IN IF cl = "none" THEN c
     ELSE IF cl = "flip" THEN WithBytes(c, kind, [c.bytes EXCEPT ![kind[3]] = IF (@ \div kind[4]) % 2 = 1 THEN @ - kind[4] ELSE @ + kind[4]])
     ELSE IF cl = "setlen" THEN WithBytes(c, kind, [c.bytes EXCEPT ![HdrPos(c.bytes, nm, "len")] = kind[3]])
     ELSE IF cl = "settag" THEN WithBytes(c, kind, [c.bytes EXCEPT ![HdrPos(c.bytes, nm, "tag")] = kind[3]])
     ELSE IF cl = "intr" THEN LET v == IntMut(c.r, nm) IN WithInts(c, kind, v[1], v[2], FALSE, c.s)
     ELSE IF cl = "ints" THEN LET v == IntMut(c.s, nm) IN WithInts(c, kind, FALSE, c.r, v[1], v[2])
     ELSE IF cl = "enc" THEN WithBytes(c, kind, ReEnc(c.r, c.s, nm))
     ELSE IF cl = "forge" THEN WithInts(c, kind, FALSE, aux.r, FALSE, aux.s)
     ELSE IF cl = "adv" THEN AdvCand(c, kind, aux)
     ELSE IF nm = "otherkey" THEN WithCtx(c, kind, aux.pub, c.uid, c.msg)
     ELSE IF nm = "negpub" THEN WithCtx(c, kind, S!Ec!Neg(c.pub), c.uid, c.msg)
     ELSE IF nm = "othermsg" THEN WithCtx(c, kind, c.pub, c.uid, aux.msg)
     ELSE IF nm = "msgflip" THEN WithCtx(c, kind, c.pub, c.uid, [c.msg EXCEPT ![kind[3]] = IF @ % 2 = 1 THEN @ - 1 ELSE @ + 1])
     ELSE IF nm = "msgappend" THEN WithCtx(c, kind, c.pub, c.uid, c.msg \o <<0>>)
     ELSE IF nm = "msgtrunc" THEN WithCtx(c, kind, c.pub, c.uid, SubSeq(c.msg, 1, Len(c.msg) - 1))
     ELSE IF nm = "otheruid" THEN WithCtx(c, kind, c.pub, aux.uid, c.msg)
     ELSE IF nm = "uid_explicit" THEN WithCtx(c, kind, c.pub, S!DefaultUid, c.msg)
     ELSE [c EXCEPT !.kind = kind, !.gm = FALSE,                                   \* "digflip": the digest itself is damaged
                    !.e = [c.e EXCEPT ![kind[3]] = IF (@ \div kind[4]) % 2 = 1 THEN @ - kind[4] ELSE @ + kind[4]]]
KindEnabled(c, kind) ==
  LET cl == kind[1]
      nm == kind[2]
  IN IF cl = "enc" THEN EncEnabled(c.r, c.s, nm)
     ELSE IF cl \in {"setlen", "settag"} THEN
            c.bytes[HdrPos(c.bytes, nm, IF cl = "setlen" THEN "len" ELSE "tag")] # kind[3]
     ELSE IF cl = "ctx" THEN
            (IF nm \in {"msgappend", "otheruid"} THEN c.gm
             ELSE IF nm \in {"othermsg", "msgflip", "msgtrunc"} THEN c.gm /\ Len(c.msg) > 0
             ELSE IF nm = "uid_explicit" THEN c.gm /\ c.uid = <<>>
             ELSE TRUE)
     ELSE TRUE

Mutate(kind, aux) ==
  /\ cand.kind[1] = "none" /\ kind[1] # "none"
  /\ KindEnabled(cand, kind)
  /\ \E m \in {Mutated(cand, kind, aux)} :
        /\ (Benign(kind) \/ m.bytes # cand.bytes \/ m.pub # cand.pub \/ m.e # cand.e)    \* a mutation changes something
        /\ cand' = m
  /\ reply' = [NoReply EXCEPT !.op = "mutate"]
  /\ UNCHANGED <<d, pub, cache, cur>>
(* a pair of integers that comes from nowhere, offered under the context of the last signature *)
Forge(kind, r, s) == Mutate(kind, [pub |-> <<>>, uid |-> <<>>, msg |-> <<>>, r |-> r, s |-> s])

(* -------------------------------------------------------- verification *)
AcceptDer(c) == LET p == D!StrictSig(c.bytes)
                IN IF p.ok THEN S!VerifyEq(c.pub, c.e, p.r, p.s) ELSE FALSE
AcceptInts(c) == IF c.rneg \/ c.sneg THEN FALSE ELSE S!VerifyEq(c.pub, c.e, c.r, c.s)
Accept(c, en) == IF VEntryInts(en) THEN AcceptInts(c) ELSE AcceptDer(c)
(* which entry points can be asked about candidate c *)
VApplicable(c, en) ==
  /\ (VEntryInts(en) => c.ints)
  /\ (VEntryGm(en) => c.gm)
  /\ (en = "x509" => c.uid = <<>>)               \* Certificate.CheckSignature always uses the default uid
Verify(en) ==
  /\ cand.kind[1] # "nocand" /\ VApplicable(cand, en)
  /\ reply' = [NoReply EXCEPT !.op = "verify", !.acc = Accept(cand, en)]
  /\ UNCHANGED <<d, pub, cache, cur, cand>>

(* ------------------------------------------- the property on the model *)
(* C06a: an honest signature is accepted by every entry point *)
Complete == [][(reply'.op = "verify" /\ Benign(cand.kind)) => reply'.acc]_kvars
(* C06b: the reply of every verification is Accept (costs a verification per step: small instances only) *)
Sound == [][reply'.op = "verify" => \A en \in VerifyEntries : VApplicable(cand, en) => (reply'.acc = Accept(cand, en))]_kvars
(* ... and nothing but the signer's own signature on the same context is accepted (cheap consequence) *)
OnlyHonestAccepted == [][(reply'.op = "verify" /\ reply'.acc) => Benign(cand.kind)]_kvars
(* C06c: a key object holding d >= n-1 replies Err to every Sign, whatever happened before *)
BadKeyAlwaysErr == [][(reply'.op = "sign" /\ BadScalar(d)) => reply'.err]_kvars
GoodKeyNeverErr == [][(reply'.op = "sign" /\ S!ValidPriv(d)) => ~reply'.err]_kvars
CacheSound == (cache = "Ok" => ~BadScalar(d)) /\ (cache = "Failed" => BadScalar(d))
=============================================================================
