---------------------------- MODULE Trace_ZucMac ----------------------------
(* code -> spec: events recorded from real 128-EIA3 / ZUC-256 MAC objects      *)
(* (harness cmd/record, families zucmac and zucmacw) must be a behaviour of    *)
(* ZucMacObj.  "new" starts the next recorded history (keystream of its        *)
(* algorithm, key and IV from prim/ZUC.tla, need = number of words); a logged  *)
(* tag must equal the reply the action of the same name defines.               *)
EXTENDS ZucMacObj, TLC, TLCExt, Json
CONSTANT TraceFile
Z  == INSTANCE ZUC
Hx == INSTANCE Hex
Tr == ndJsonDeserialize(TraceFile)
VARIABLE l
tvars == <<alg, msg, kw, reply, l>>
Ev == Tr[l]
IsEvent(op) == l <= Len(Tr) /\ Tr[l].op = op /\ l' = l + 1

KWOf(e) == CASE e.alg = "eia3" -> Z!Keystream128(Hx!ToBytes(e.key), Hx!ToBytes(e.iv), e.need)
             [] e.alg = "eia3cbd" -> Z!Keystream128(Hx!ToBytes(e.key), M!Eia3IV(Hx!ToBytes(e.count), e.bearer, e.direction), e.need)
             [] e.alg = "z256" -> Z!Keystream256Mac(Hx!ToBytes(e.key), Hx!ToBytes(e.iv), e.tag, e.need)
TNew    == /\ IsEvent("new")
           /\ alg' = [kind |-> IF Ev.alg = "z256" THEN "z256" ELSE "eia3", tag |-> Ev.tag]
           /\ msg' = <<>> /\ reply' = <<>>
           /\ kw' = KWOf(Ev)
TWrite  == IsEvent("write") /\ Write(Hx!ToBytes(Ev.data))
TSum    == IsEvent("sum") /\ Sum(Hx!ToBytes(Ev.prefix)) /\ reply' = Hx!ToBytes(Ev.out)
TFinish == IsEvent("finish") /\ Finish(Hx!ToBytes(Ev.data), Ev.nbits) /\ reply' = Hx!ToBytes(Ev.out)
TReset  == IsEvent("reset") /\ Reset

TraceInit == MInit([kind |-> "eia3", tag |-> 4], <<>>) /\ l = 1
TraceNext == TNew \/ TWrite \/ TSum \/ TFinish \/ TReset
TraceSpec == TraceInit /\ [][TraceNext]_tvars
TraceAccepted == TLCGet("stats").diameter = Len(Tr) + 1
=============================================================================
