--------------------------- MODULE Trace_LazyInit ---------------------------
(* code -> spec for C20: events recorded by harness/cmd/sched from the real   *)
(* code must be a behaviour of obj/LazyInit, variant Guarded.                  *)
(*                                                                            *)
(* One line per event, totally ordered by an atomic counter taken inside the  *)
(* gate (field seq; the file is sorted by (t, seq)):                          *)
(*   reset   a new trial: N goroutines, one fresh shared object; `fresh` is   *)
(*           the list of sites that get initialised during this trial (every  *)
(*           other site was initialised before the goroutines started, e.g.   *)
(*           package singletons in a process that has used them already).     *)
(*           The list cannot make a bad trace acceptable: an "init" of a site *)
(*           not in the list and a "done" of a listed site before its         *)
(*           "inited" are both disabled below.                                *)
(*   call    goroutine g issues public operation op           -> Call(g)      *)
(*   init    verifGate("init:<site>") on goroutine g          -> InitBegin    *)
(*   inited  verifGate("inited:<site>") on goroutine g        -> Publish      *)
(*   done    verifGate("done:<site>") on goroutine g          -> DoReturn     *)
(*   ret     operation op of g returned; res = digest of the result (or the   *)
(*           value of a deterministic predicate for randomised operations)    *)
(*                                                            -> Return(g)    *)
(*   seq     the same operation made afterwards on one goroutine: res must    *)
(*           equal the res of every concurrent call of op in this trial       *)
(*                                                                            *)
(* Each event enables exactly one LazyInit action with the logged goroutine   *)
(* and site, so the trace specification is deterministic and the diameter     *)
(* tells how many events were consumed.  InitBegin is enabled only when the   *)
(* Once of the site is new (at most one init per object and site), DoReturn   *)
(* only after Publish (no use before publication), Return only outside        *)
(* initialiser bodies.                                                        *)
EXTENDS LazyInit, TLCExt, Json
CONSTANT TraceFile
ASSUME Variant = "Guarded"
Tr == ndJsonDeserialize(TraceFile)
VARIABLES l,      \* next event
          rets    \* {<<op, res>>} returned by concurrent calls in the current trial
tvars == <<once, cache, inits, pc, at, got, calls, results, l, rets>>
Ev == Tr[l]
IsEvent(k) == l <= Len(Tr) /\ Tr[l].kind = k /\ l' = l + 1
Fresh(e) == {e.fresh[i] : i \in DOMAIN e.fresh}
Known == Ev.g \in Procs /\ Ev.site \in Sites

TReset  == IsEvent("reset")  /\ Fresh(Ev) \subseteq Sites /\ Reset(Fresh(Ev)) /\ rets' = {}
TCall   == IsEvent("call")   /\ Ev.g \in Procs /\ Call(Ev.g) /\ rets' = rets
TInit   == IsEvent("init")   /\ Known /\ InitBegin(Ev.g, Ev.site) /\ rets' = rets
TInited == IsEvent("inited") /\ Known /\ Publish(Ev.g, Ev.site) /\ rets' = rets
TDone   == IsEvent("done")   /\ Known /\ DoReturn(Ev.g, Ev.site) /\ rets' = rets
TRet    == IsEvent("ret")    /\ Ev.g \in Procs /\ Return(Ev.g) /\ rets' = rets \cup {<<Ev.op, Ev.res>>}
TSeq    == /\ IsEvent("seq")
           /\ \A x \in rets : x[1] = Ev.op => x[2] = Ev.res
           /\ \A p \in Procs : pc[p] = "idle"
           /\ UNCHANGED vars /\ rets' = rets

TraceInit == Init /\ l = 1 /\ rets = {}
TraceNext == TReset \/ TCall \/ TInit \/ TInited \/ TDone \/ TRet \/ TSeq
TraceSpec == TraceInit /\ [][TraceNext]_tvars
TraceAccepted == TLCGet("stats").diameter = Len(Tr) + 1
=============================================================================
