package rt

// hostile family (C13): one externally supplied byte string is fed to every entry point that
// consumes artefacts of its type, plus a set of "universal" parsers that must survive any bytes.
// The input sits in a guard-paged mapping (it ends exactly at an inaccessible page); every call runs
// under recover(). Outcome classes: value | error (both fine), panic / overrun (reported as a
// Mismatch of kind "panic" with the entry point and the repository frame in Note). A process that
// dies or stops making progress is attributed to the running trace by the driver (crash / hang).
// The adapter contains no cryptography: it decodes the step, builds the side inputs with the
// library's own constructors, and calls one exported function per table row (plus the obvious
// methods of the object that call returned).
//
// Contract panics (documented preconditions on lengths the CALLER controls: cipher.BlockMode with
// partial blocks, AEAD nonce sizes, padding block size 0) are never provoked: those arguments are
// always valid side inputs; only the externally supplied bytes are hostile.

import (
	"bytes"
	"crypto"
	"crypto/cipher"
	"crypto/x509"
	"crypto/x509/pkix"
	"encoding/asn1"
	"encoding/json"
	"encoding/pem"
	"errors"
	"fmt"
	"math/big"
	"runtime"
	"runtime/debug"
	"strings"
	"time"
	"unsafe"

	"github.com/emmansun/gmsm/cfca"
	gcipher "github.com/emmansun/gmsm/cipher"
	"github.com/emmansun/gmsm/ecdh"
	"github.com/emmansun/gmsm/padding"
	"github.com/emmansun/gmsm/pkcs"
	"github.com/emmansun/gmsm/pkcs7"
	"github.com/emmansun/gmsm/pkcs8"
	"github.com/emmansun/gmsm/sm2"
	"github.com/emmansun/gmsm/sm4"
	"github.com/emmansun/gmsm/sm9"
	"github.com/emmansun/gmsm/smx509"

	"gmsmverif/internal/guard"
)

// hin is what an entry point sees: the hostile bytes and the step with the side inputs.
type hin struct {
	d  []byte
	st Step
}

type hep struct {
	name  string
	types string // space separated artefact types; "*" = universal (every input)
	must  bool   // on the unmutated artefact this entry point must return a value (vacuity guard)
	fn    func(in *hin) error
}

var errNil = errors.New("nil result")

// relErr is returned by an entry point whose reply contradicts an expectation carried by the step
// (only the ber2der relations Accept => no error / output = ToDer, IsDer => identity).
type relErr struct{ got, exp, note string }

func (e *relErr) Error() string { return e.note }

// extraEPs is filled by files behind build tags (export hooks that may not exist in the repository).
var extraEPs []hep

// ---------------------------------------------------------------- side inputs (cached per hex string)
var hcache = map[string]interface{}{}

func cached(kind, hx string, mk func() interface{}) interface{} {
	k := kind + ":" + hx
	if v, ok := hcache[k]; ok {
		return v
	}
	if len(hcache) > 4096 {
		hcache = map[string]interface{}{}
	}
	v := mk()
	hcache[k] = v
	return v
}

func hside(msg string, err error) {
	if err != nil {
		panic("harness: hostile: side input " + msg + ": " + err.Error())
	}
}

func sm2Priv(in *hin, f string) *sm2.PrivateKey {
	return cached("sm2priv", in.st.Str(f), func() interface{} {
		k, err := sm2.NewPrivateKey(in.st.Hex(f))
		hside(f, err)
		return k
	}).(*sm2.PrivateKey)
}

func certOf(in *hin, f string) *smx509.Certificate {
	return cached("cert", in.st.Str(f), func() interface{} {
		c, err := smx509.ParseCertificate(in.st.Hex(f))
		hside(f, err)
		return c
	}).(*smx509.Certificate)
}

func poolOf(in *hin, f string) *smx509.CertPool {
	return cached("pool", in.st.Str(f), func() interface{} {
		p := smx509.NewCertPool()
		p.AddCert(certOf(in, f))
		return p
	}).(*smx509.CertPool)
}

func sm9EncPriv(in *hin, f string) *sm9.EncryptPrivateKey {
	return cached("sm9euk", in.st.Str(f), func() interface{} {
		k, err := smx509.ParsePKCS8PrivateKey(in.st.Hex(f))
		hside(f, err)
		return k.(*sm9.EncryptPrivateKey)
	}).(*sm9.EncryptPrivateKey)
}

func sm9SignMPub(in *hin, f string) *sm9.SignMasterPublicKey {
	return cached("sm9smpub", in.st.Str(f), func() interface{} {
		k, err := sm9.UnmarshalSignMasterPublicKeyRaw(in.st.Hex(f))
		hside(f, err)
		return k
	}).(*sm9.SignMasterPublicKey)
}

func sm9Mode(m string) sm9.EncrypterOpts {
	switch m {
	case "xor":
		return sm9.DefaultEncrypterOpts
	case "ecb":
		return sm9.SM4ECBEncrypterOpts
	case "cbc":
		return sm9.SM4CBCEncrypterOpts
	case "cfb":
		return sm9.SM4CFBEncrypterOpts
	case "ofb":
		return sm9.SM4OFBEncrypterOpts
	}
	panic("harness: hostile: unknown sm9 mode " + m)
}

func sm2Order(o string) (from, to byte) {
	if o == "c1c2c3" {
		return 1, 0
	}
	return 0, 1
}

// fixed keys of the universal entry points: built by the library from constant scalars
var (
	uSM2    *sm2.PrivateKey
	uSM9Enc *sm9.EncryptPrivateKey
	uSM9Pub *sm9.SignMasterPublicKey
	uGCM    cipher.AEAD
	uCCM    cipher.AEAD
	uPool   *smx509.CertPool
	uCert   *smx509.Certificate
	uUID    = []byte("1234567812345678")
	uPass   = []byte("c13-password")
	uHash   = bytes.Repeat([]byte{0x3c}, 32)
	uNonce  = bytes.Repeat([]byte{0x11}, 12)
	uTime   = time.Date(2030, 1, 1, 0, 0, 0, 0, time.UTC)
)

func hostileInit() {
	if uSM2 != nil {
		return
	}
	sc := append(bytes.Repeat([]byte{0x17}, 31), 0x01)
	var err error
	uSM2, err = sm2.NewPrivateKey(sc)
	hside("universal sm2 key", err)
	d, err := asn1.Marshal(new(big.Int).SetBytes(sc))
	hside("universal scalar", err)
	emk, err := sm9.UnmarshalEncryptMasterPrivateKeyASN1(d)
	hside("universal sm9 enc master key", err)
	uSM9Enc, err = emk.GenerateUserKey(uUID, 3)
	hside("universal sm9 enc user key", err)
	smk, err := sm9.UnmarshalSignMasterPrivateKeyASN1(d)
	hside("universal sm9 sign master key", err)
	uSM9Pub = smk.PublicKey()
	blk, err := sm4.NewCipher(sc[:16])
	hside("universal sm4", err)
	uGCM, err = cipher.NewGCM(blk)
	hside("universal gcm", err)
	uCCM, err = gcipher.NewCCM(blk)
	hside("universal ccm", err)
	tpl := &x509.Certificate{SerialNumber: big.NewInt(13), Subject: pkix.Name{CommonName: "C13 universal"}, NotBefore: uTime.AddDate(-10, 0, 0), NotAfter: uTime.AddDate(10, 0, 0),
		KeyUsage: x509.KeyUsageKeyEncipherment | x509.KeyUsageDigitalSignature | x509.KeyUsageCertSign, IsCA: true, BasicConstraintsValid: true, SubjectKeyId: []byte{1, 3}}
	der, err := smx509.CreateCertificate(zeroReader{}, tpl, tpl, &uSM2.PublicKey, uSM2)
	hside("universal certificate", err)
	uCert, err = smx509.ParseCertificate(der)
	hside("universal certificate", err)
	uPool = smx509.NewCertPool()
	uPool.AddCert(uCert)
}

func newPad(s string, bs int) padding.Padding { return newPadding(s, bs) }

func nn(v interface{}, err error) error {
	if err != nil {
		return err
	}
	if v == nil {
		return errNil
	}
	return nil
}

func boolErr(ok bool) error {
	if ok {
		return nil
	}
	return errors.New("false")
}

// ---- follow-ups on parsed objects (the obvious consumers of the parsed data)
func useCert(c *smx509.Certificate, parent *smx509.Certificate, roots *smx509.CertPool) {
	if parent != nil {
		_ = c.CheckSignatureFrom(parent)
		_ = parent.CheckSignature(c.SignatureAlgorithm, c.RawTBSCertificate, c.Signature)
	}
	_ = c.CheckSignatureFrom(c)
	_, _ = c.Verify(smx509.VerifyOptions{Roots: roots, CurrentTime: uTime, KeyUsages: []smx509.ExtKeyUsage{smx509.ExtKeyUsageAny}})
	_, _ = c.Verify(smx509.VerifyOptions{Roots: roots, CurrentTime: uTime, DNSName: "c13.example.org"})
	// the parsed certificate in the other roles of a chain verification: offered as an intermediate and as a root,
	// to its own verification and to the verification of a well-formed certificate
	own := smx509.NewCertPool()
	own.AddCert(c)
	_, _ = c.Verify(smx509.VerifyOptions{Roots: roots, Intermediates: own, CurrentTime: uTime, KeyUsages: []smx509.ExtKeyUsage{smx509.ExtKeyUsageAny}})
	_, _ = c.Verify(smx509.VerifyOptions{Roots: own, CurrentTime: uTime, KeyUsages: []smx509.ExtKeyUsage{smx509.ExtKeyUsageAny}})
	if parent != nil {
		_, _ = parent.Verify(smx509.VerifyOptions{Roots: roots, Intermediates: own, CurrentTime: uTime, KeyUsages: []smx509.ExtKeyUsage{smx509.ExtKeyUsageAny}})
		_, _ = parent.Verify(smx509.VerifyOptions{Roots: own, CurrentTime: uTime, KeyUsages: []smx509.ExtKeyUsage{smx509.ExtKeyUsageAny}})
	}
	_ = c.VerifyHostname("c13.example.org")
	_ = c.Equal(c)
	_ = c.ToX509()
	if pk, ok := c.PublicKey.(crypto.PublicKey); ok && pk != nil {
		_, _ = smx509.MarshalPKIXPublicKey(pk)
	}
}

func useP7Signed(p7 *pkcs7.PKCS7, in *hin, roots *smx509.CertPool) {
	if len(p7.Content) == 0 && in.st.Has("content") {
		p7.Content = in.st.Hex("content")
	}
	_ = p7.Verify()
	_ = p7.VerifyWithChain(roots)
	_ = p7.VerifyWithChainAtTime(roots, &uTime)
	_ = p7.GetOnlySigner()
	var t time.Time
	_ = p7.UnmarshalSignedAttribute(pkcs7.OIDAttributeSigningTime, &t)
	var md []byte
	_ = p7.UnmarshalSignedAttribute(pkcs7.OIDAttributeMessageDigest, &md)
	if in.st.Has("digest") {
		p7.Content = in.st.Hex("digest")
	}
	_ = p7.VerifyAsDigest()
	_ = p7.VerifyAsDigestWithChain(roots)
}

type marshaler interface {
	MarshalASN1() ([]byte, error)
}

func useSM9Key(k interface{}) {
	if m, ok := k.(marshaler); ok {
		_, _ = m.MarshalASN1()
	}
	switch x := k.(type) {
	case *sm9.SignMasterPrivateKey:
		_ = x.Equal(x)
		_ = x.Bytes()
		_ = x.Public()
		_, _ = x.GenerateUserKey(uUID, 1)
	case *sm9.EncryptMasterPrivateKey:
		_ = x.Equal(x)
		_ = x.Bytes()
		_ = x.Public()
		_, _ = x.GenerateUserKey(uUID, 3)
	case *sm9.SignMasterPublicKey:
		_ = x.Equal(x)
		_ = x.Bytes()
		_, _ = x.MarshalCompressedASN1()
		_ = x.Verify(uUID, 1, uHash, []byte{0x30, 0x00})
	case *sm9.EncryptMasterPublicKey:
		_ = x.Equal(x)
		_ = x.Bytes()
		_, _ = x.MarshalCompressedASN1()
	case *sm9.SignPrivateKey:
		_ = x.Equal(x)
		_ = x.Bytes()
		_, _ = x.MarshalCompressedASN1()
	case *sm9.EncryptPrivateKey:
		_ = x.Equal(x)
		_ = x.Bytes()
		_, _ = x.MarshalCompressedASN1()
	}
}

func usePrivKey(k interface{}) {
	switch x := k.(type) {
	case *sm2.PrivateKey:
		_ = x.Equal(x)
		_, _ = smx509.MarshalPKCS8PrivateKey(x)
		_, _ = smx509.MarshalSM2PrivateKey(x)
		_, _ = x.ECDH()
	case *ecdh.PrivateKey:
		_ = x.Equal(x)
		_ = x.Bytes()
		_ = x.PublicKey().Bytes()
		_, _ = smx509.MarshalPKCS8PrivateKey(x)
	case nil:
	default:
		useSM9Key(k)
		_, _ = smx509.MarshalPKCS8PrivateKey(k)
	}
}

// ---------------------------------------------------------------- the table
var hostileTable []hep

func hostileEPs() []hep {
	return []hep{
		// ---- sm2
		{"sm2.VerifyASN1", "sm2-sig", true, func(in *hin) error {
			pub, err := sm2.NewPublicKey(in.st.Hex("pub"))
			hside("pub", err)
			return boolErr(sm2.VerifyASN1(pub, in.st.Hex("hash"), in.d))
		}},
		{"sm2.VerifyASN1WithSM2", "sm2-sig", true, func(in *hin) error {
			pub, err := sm2.NewPublicKey(in.st.Hex("pub"))
			hside("pub", err)
			return boolErr(sm2.VerifyASN1WithSM2(pub, in.st.Hex("uid"), in.st.Hex("msg"), in.d))
		}},
		{"sm2.RecoverPublicKeysFromSM2Signature", "sm2-sig", true, func(in *hin) error {
			_, err := sm2.RecoverPublicKeysFromSM2Signature(in.st.Hex("hash"), in.d)
			return err
		}},
		{"sm2.Decrypt", "sm2-ct", false, func(in *hin) error {
			_, err := sm2.Decrypt(sm2Priv(in, "key"), in.d)
			return err
		}},
		{"sm2.PrivateKey.Decrypt(plain)", "sm2-ct", true, func(in *hin) error {
			o := sm2.C1C3C2
			if in.st.Str("order") == "c1c2c3" {
				o = sm2.C1C2C3
			}
			_, err := sm2Priv(in, "key").Decrypt(nil, in.d, sm2.NewPlainDecrypterOpts(o))
			return err
		}},
		{"sm2.AdjustCiphertextSplicingOrder", "sm2-ct", true, func(in *hin) error {
			var err error
			if in.st.Str("order") == "c1c2c3" {
				_, err = sm2.AdjustCiphertextSplicingOrder(in.d, sm2.C1C2C3, sm2.C1C3C2)
			} else {
				_, err = sm2.AdjustCiphertextSplicingOrder(in.d, sm2.C1C3C2, sm2.C1C2C3)
			}
			return err
		}},
		{"sm2.PlainCiphertext2ASN1", "sm2-ct", true, func(in *hin) error {
			o := sm2.C1C3C2
			if in.st.Str("order") == "c1c2c3" {
				o = sm2.C1C2C3
			}
			_, err := sm2.PlainCiphertext2ASN1(in.d, o)
			return err
		}},
		{"sm2.PrivateKey.Decrypt(asn1)", "sm2-ct-asn1", true, func(in *hin) error {
			_, err := sm2Priv(in, "key").Decrypt(nil, in.d, sm2.ASN1DecrypterOpts)
			return err
		}},
		{"sm2.ASN1Ciphertext2Plain", "sm2-ct-asn1", true, func(in *hin) error {
			_, err := sm2.ASN1Ciphertext2Plain(in.d, nil)
			if err == nil {
				_, err = sm2.ASN1Ciphertext2Plain(in.d, sm2.NewPlainEncrypterOpts(sm2.MarshalCompressed, sm2.C1C2C3))
			}
			return err
		}},
		{"sm2.ParseEnvelopedPrivateKey", "sm2-envkey", true, func(in *hin) error {
			k, err := sm2.ParseEnvelopedPrivateKey(sm2Priv(in, "key"), in.d)
			if err == nil {
				usePrivKey(k)
			}
			return err
		}},
		{"sm2.NewPublicKey", "sm2-pub-raw ecdh-pub", true, func(in *hin) error {
			k, err := sm2.NewPublicKey(in.d)
			if err == nil {
				_, _ = sm2.PublicKeyToECDH(k)
				_, _ = smx509.MarshalPKIXPublicKey(k)
				_, _ = sm2.CalculateZA(k, uUID)
			}
			return err
		}},
		{"ecdh.P256.NewPublicKey", "sm2-pub-raw ecdh-pub", false, func(in *hin) error {
			k, err := ecdh.P256().NewPublicKey(in.d)
			if err == nil {
				_ = k.Bytes()
				_ = k.Equal(k)
				_, _ = smx509.MarshalPKIXPublicKey(k)
			}
			return err
		}},
		{"sm2.NewPrivateKey", "sm2-priv-raw ecdh-priv", true, func(in *hin) error {
			k, err := sm2.NewPrivateKey(in.d)
			if err == nil {
				usePrivKey(k)
			}
			return err
		}},
		{"ecdh.P256.NewPrivateKey", "sm2-priv-raw ecdh-priv", true, func(in *hin) error {
			k, err := ecdh.P256().NewPrivateKey(in.d)
			if err == nil {
				usePrivKey(k)
			}
			return err
		}},
		// ---- key containers
		{"smx509.ParsePKCS8PrivateKey", "pkcs8", true, func(in *hin) error {
			k, err := smx509.ParsePKCS8PrivateKey(in.d)
			if err == nil {
				usePrivKey(k)
			}
			return err
		}},
		{"pkcs8.ParsePKCS8PrivateKey", "pkcs8", true, func(in *hin) error {
			_, err := pkcs8.ParsePKCS8PrivateKey(in.d)
			return err
		}},
		{"pkcs8.ParsePrivateKey", "pkcs8", true, func(in *hin) error {
			_, _, err := pkcs8.ParsePrivateKey(in.d, nil)
			return err
		}},
		{"pkcs8.ParsePKCS8PrivateKey{SM2,ECDSA,RSA}", "pkcs8", false, func(in *hin) error {
			_, e1 := pkcs8.ParsePKCS8PrivateKeySM2(in.d)
			_, e2 := pkcs8.ParsePKCS8PrivateKeyECDSA(in.d)
			_, e3 := pkcs8.ParsePKCS8PrivateKeyRSA(in.d)
			if e1 == nil || e2 == nil || e3 == nil {
				return nil
			}
			return e1
		}},
		{"pkcs8.ParseSM9*PrivateKey", "pkcs8", false, func(in *hin) error {
			_, e1 := pkcs8.ParseSM9SignMasterPrivateKey(in.d)
			_, e2 := pkcs8.ParseSM9SignPrivateKey(in.d)
			_, e3 := pkcs8.ParseSM9EncryptMasterPrivateKey(in.d)
			_, e4 := pkcs8.ParseSM9EncryptPrivateKey(in.d)
			if e1 == nil || e2 == nil || e3 == nil || e4 == nil {
				return nil
			}
			return e1
		}},
		{"pkcs8.ParsePKCS8PrivateKey(password)", "pkcs8-enc", true, func(in *hin) error {
			k, err := pkcs8.ParsePKCS8PrivateKey(in.d, in.st.Hex("password"))
			if err == nil {
				usePrivKey(k)
			}
			return err
		}},
		{"pkcs8.ParsePrivateKey(password)", "pkcs8-enc", true, func(in *hin) error {
			_, _, err := pkcs8.ParsePrivateKey(in.d, in.st.Hex("password"))
			return err
		}},
		{"pkcs8.ParsePKCS8PrivateKeySM2(wrong password)", "pkcs8-enc", false, func(in *hin) error {
			_, err := pkcs8.ParsePKCS8PrivateKeySM2(in.d, []byte("wrong"))
			return err
		}},
		{"smx509.ParseSM2PrivateKey", "sec1", false, func(in *hin) error {
			k, err := smx509.ParseSM2PrivateKey(in.d)
			if err == nil {
				usePrivKey(k)
			}
			return err
		}},
		{"smx509.ParseECPrivateKey", "sec1", true, func(in *hin) error {
			_, err := smx509.ParseECPrivateKey(in.d)
			return err
		}},
		{"smx509.ParseTypedECPrivateKey", "sec1", true, func(in *hin) error {
			k, err := smx509.ParseTypedECPrivateKey(in.d)
			if err == nil {
				usePrivKey(k)
			}
			return err
		}},
		{"smx509.ParsePKIXPublicKey", "pkix", true, func(in *hin) error {
			k, err := smx509.ParsePKIXPublicKey(in.d)
			if err == nil {
				_, _ = smx509.MarshalPKIXPublicKey(k)
			}
			return err
		}},
		{"smx509.DecryptPEMBlock", "pem-legacy-enc", true, func(in *hin) error {
			b, _ := pem.Decode(in.d)
			if b == nil {
				return errors.New("no PEM block")
			}
			_ = smx509.IsEncryptedPEMBlock(b)
			_, err := smx509.DecryptPEMBlock(b, in.st.Hex("password"))
			return err
		}},
		// ---- sm9
		{"sm9.VerifyASN1", "sm9-sig", true, func(in *hin) error {
			return boolErr(sm9.VerifyASN1(sm9SignMPub(in, "mpub"), in.st.Hex("uid"), byte(in.st.Int("hid")), in.st.Hex("hash"), in.d))
		}},
		{"sm9.SignMasterPublicKey.Verify", "sm9-sig", true, func(in *hin) error {
			return boolErr(sm9SignMPub(in, "mpub").Verify(in.st.Hex("uid"), byte(in.st.Int("hid")), in.st.Hex("hash"), in.d))
		}},
		{"sm9.UnwrapKey", "sm9-wrapped-raw", true, func(in *hin) error {
			_, err := sm9.UnwrapKey(sm9EncPriv(in, "upriv"), in.st.Hex("uid"), in.d, in.st.Int("klen"))
			return err
		}},
		{"sm9.EncryptPrivateKey.UnwrapKey", "sm9-wrapped-asn1", true, func(in *hin) error {
			_, err := sm9EncPriv(in, "upriv").UnwrapKey(in.st.Hex("uid"), in.d, in.st.Int("klen"))
			return err
		}},
		{"sm9.UnmarshalSM9KeyPackage", "sm9-keypackage", true, func(in *hin) error {
			_, c, err := sm9.UnmarshalSM9KeyPackage(in.d)
			if err == nil {
				_, err = sm9.UnwrapKey(sm9EncPriv(in, "upriv"), in.st.Hex("uid"), c, in.st.Int("klen"))
			}
			return err
		}},
		{"sm9.Decrypt", "sm9-ct-raw", true, func(in *hin) error {
			_, err := sm9.Decrypt(sm9EncPriv(in, "upriv"), in.st.Hex("uid"), in.d, sm9Mode(in.st.Str("mode")))
			return err
		}},
		{"sm9.EncryptPrivateKey.Decrypt(DecrypterOptsWithUID)", "sm9-ct-raw sm9-ct-asn1", true, func(in *hin) error {
			o, err := sm9.NewDecrypterOptsWithUID(sm9Mode(in.st.Str("mode")), in.st.Hex("uid"))
			hside("uid", err)
			_, err = sm9EncPriv(in, "upriv").Decrypt(nil, in.d, o)
			return err
		}},
		{"sm9.DecryptASN1", "sm9-ct-asn1", true, func(in *hin) error {
			_, err := sm9.DecryptASN1(sm9EncPriv(in, "upriv"), in.st.Hex("uid"), in.d)
			return err
		}},
		{"sm9.EncryptPrivateKey.Decrypt(uid)", "sm9-ct-asn1", true, func(in *hin) error {
			_, err := sm9EncPriv(in, "upriv").Decrypt(nil, in.d, in.st.Hex("uid"))
			return err
		}},
		{"sm9.KeyExchange.RespondKeyExchange", "sm9-kx-ra", true, func(in *hin) error {
			ke := sm9EncPriv(in, "upriv").NewKeyExchange(in.st.Hex("uid"), in.st.Hex("peer"), 16, true)
			defer ke.Destroy()
			_, _, err := ke.RespondKeyExchange(zeroReader{}, byte(in.st.Int("hid")), in.d)
			return err
		}},
		{"sm9.KeyExchange.ConfirmResponder", "sm9-kx-ra", false, func(in *hin) error {
			ke := sm9EncPriv(in, "upriv").NewKeyExchange(in.st.Hex("uid"), in.st.Hex("peer"), 16, true)
			defer ke.Destroy()
			if _, err := ke.InitKeyExchange(zeroReader{}, byte(in.st.Int("hid"))); err != nil {
				return err
			}
			_, _, err := ke.ConfirmResponder(in.d, uHash)
			return err
		}},
		{"sm9.UnmarshalSignMasterPrivateKeyASN1", "sm9-sign-master-priv", true, func(in *hin) error {
			k, err := sm9.UnmarshalSignMasterPrivateKeyASN1(in.d)
			if err == nil {
				useSM9Key(k)
			}
			return err
		}},
		{"sm9.UnmarshalEncryptMasterPrivateKeyASN1", "sm9-enc-master-priv", true, func(in *hin) error {
			k, err := sm9.UnmarshalEncryptMasterPrivateKeyASN1(in.d)
			if err == nil {
				useSM9Key(k)
			}
			return err
		}},
		{"sm9.UnmarshalSignMasterPublicKey{Raw,ASN1,PEM}", "sm9-sign-master-pub", true, func(in *hin) error {
			var k *sm9.SignMasterPublicKey
			var err error
			switch in.st.Str("enc") {
			case "raw":
				k, err = sm9.UnmarshalSignMasterPublicKeyRaw(in.d)
			case "asn1":
				k, err = sm9.UnmarshalSignMasterPublicKeyASN1(in.d)
			default:
				k, err = sm9.ParseSignMasterPublicKeyPEM(in.d)
			}
			if err == nil {
				useSM9Key(k)
			}
			return err
		}},
		{"sm9.UnmarshalEncryptMasterPublicKey{Raw,ASN1,PEM}", "sm9-enc-master-pub", true, func(in *hin) error {
			var k *sm9.EncryptMasterPublicKey
			var err error
			switch in.st.Str("enc") {
			case "raw":
				k, err = sm9.UnmarshalEncryptMasterPublicKeyRaw(in.d)
			case "asn1":
				k, err = sm9.UnmarshalEncryptMasterPublicKeyASN1(in.d)
			default:
				k, err = sm9.ParseEncryptMasterPublicKeyPEM(in.d)
			}
			if err == nil {
				useSM9Key(k)
			}
			return err
		}},
		{"sm9.UnmarshalSignPrivateKey{Raw,ASN1}", "sm9-sign-priv", true, func(in *hin) error {
			var k *sm9.SignPrivateKey
			var err error
			if in.st.Str("enc") == "raw" {
				k, err = sm9.UnmarshalSignPrivateKeyRaw(in.d)
			} else {
				k, err = sm9.UnmarshalSignPrivateKeyASN1(in.d)
			}
			if err == nil {
				useSM9Key(k)
			}
			return err
		}},
		{"sm9.UnmarshalEncryptPrivateKey{Raw,ASN1}", "sm9-enc-priv", true, func(in *hin) error {
			var k *sm9.EncryptPrivateKey
			var err error
			if in.st.Str("enc") == "raw" {
				k, err = sm9.UnmarshalEncryptPrivateKeyRaw(in.d)
			} else {
				k, err = sm9.UnmarshalEncryptPrivateKeyASN1(in.d)
			}
			if err == nil {
				useSM9Key(k)
			}
			return err
		}},
		// ---- X.509 family
		{"smx509.ParseCertificate", "x509-cert", true, func(in *hin) error {
			c, err := smx509.ParseCertificate(in.d)
			if err == nil {
				useCert(c, certOf(in, "parent"), poolOf(in, "parent"))
			}
			return err
		}},
		{"smx509.ParseCertificates", "x509-cert x509-certs", true, func(in *hin) error {
			cs, err := smx509.ParseCertificates(in.d)
			if err == nil {
				for _, c := range cs {
					useCert(c, certOf(in, "parent"), poolOf(in, "parent"))
				}
			}
			return err
		}},
		{"smx509.ParseCertificatePEM", "x509-cert-pem", true, func(in *hin) error {
			c, err := smx509.ParseCertificatePEM(in.d)
			if err == nil {
				useCert(c, certOf(in, "parent"), poolOf(in, "parent"))
			}
			return err
		}},
		{"smx509.CertPool.AppendCertsFromPEM", "x509-cert-pem", true, func(in *hin) error {
			return boolErr(smx509.NewCertPool().AppendCertsFromPEM(in.d))
		}},
		{"smx509.ParseCertificateRequest", "x509-csr", true, func(in *hin) error {
			c, err := smx509.ParseCertificateRequest(in.d)
			if err == nil {
				_ = c.CheckSignature()
				_ = c.ToX509()
			}
			return err
		}},
		{"smx509.ParseCertificateRequestPEM", "x509-csr-pem", true, func(in *hin) error {
			c, err := smx509.ParseCertificateRequestPEM(in.d)
			if err == nil {
				_ = c.CheckSignature()
			}
			return err
		}},
		{"smx509.ParseRevocationList", "x509-crl", true, func(in *hin) error {
			rl, err := smx509.ParseRevocationList(in.d)
			if err == nil {
				_ = rl.CheckSignatureFrom(certOf(in, "parent"))
			}
			return err
		}},
		{"smx509.ParseCRL", "x509-crl x509-crl-pem", true, func(in *hin) error {
			cl, err := smx509.ParseCRL(in.d)
			if err == nil {
				_ = certOf(in, "parent").CheckCRLSignature(cl)
			}
			return err
		}},
		{"smx509.ParseDERCRL", "x509-crl", true, func(in *hin) error {
			_, err := smx509.ParseDERCRL(in.d)
			return err
		}},
		{"cfca.ParseCertificateRequest", "cfca-csr", true, func(in *hin) error {
			c, err := cfca.ParseCertificateRequest(in.d)
			if err == nil {
				_ = c.CheckSignature()
			}
			return err
		}},
		{"smx509.ParseCFCACertificateRequest", "cfca-csr x509-csr", true, func(in *hin) error {
			c, err := smx509.ParseCFCACertificateRequest(in.d)
			if err == nil {
				_ = c.CheckSignature()
			}
			return err
		}},
		{"smx509.ParseCSRResponse", "csr-response", true, func(in *hin) error {
			r, err := smx509.ParseCSRResponse(sm2Priv(in, "key"), in.d)
			if err == nil && r.EncryptPrivateKey != nil {
				usePrivKey(r.EncryptPrivateKey)
			}
			return err
		}},
		{"cfca.ParseEscrowPrivateKey", "cfca-escrow", true, func(in *hin) error {
			k, err := cfca.ParseEscrowPrivateKey(sm2Priv(in, "key"), in.d)
			if err == nil {
				usePrivKey(k)
			}
			return err
		}},
		{"cfca.ParseSM2", "cfca-sm2", true, func(in *hin) error {
			k, c, err := cfca.ParseSM2(in.st.Hex("password"), in.d)
			if err == nil {
				usePrivKey(k)
				_ = c.Equal(c)
			}
			return err
		}},
		{"cfca.DecryptBySM4CBC", "cfca-sm4cbc", true, func(in *hin) error {
			_, err := cfca.DecryptBySM4CBC(in.d, in.st.Hex("password"))
			return err
		}},
		// ---- PKCS#7
		{"pkcs7.Parse+Verify", "pkcs7-signed", true, func(in *hin) error {
			p7, err := pkcs7.Parse(in.d)
			if err == nil {
				useP7Signed(p7, in, poolOf(in, "root"))
			}
			return err
		}},
		{"cfca.VerifyMessageAttach", "pkcs7-signed", false, func(in *hin) error { return cfca.VerifyMessageAttach(in.d) }},
		{"cfca.VerifyMessageDetach", "pkcs7-signed", false, func(in *hin) error { return cfca.VerifyMessageDetach(in.d, in.st.Hex("content")) }},
		{"cfca.VerifyDigestDetach", "pkcs7-signed", false, func(in *hin) error {
			dg := uHash
			if in.st.Has("digest") {
				dg = in.st.Hex("digest")
			}
			return cfca.VerifyDigestDetach(in.d, dg)
		}},
		{"pkcs7.Parse+Decrypt", "pkcs7-enveloped", true, func(in *hin) error {
			p7, err := pkcs7.Parse(in.d)
			if err != nil {
				return err
			}
			_, _ = p7.GetRecipients()
			_, e1 := p7.Decrypt(certOf(in, "cert"), sm2Priv(in, "key"))
			_, e2 := p7.DecryptCFCA(certOf(in, "cert"), sm2Priv(in, "key"))
			_, _ = p7.DecryptUsingPSK(uHash[:16])
			_ = p7.Verify()
			if e1 == nil || e2 == nil {
				return nil
			}
			return e1
		}},
		{"cfca.OpenEnvelopedMessage", "pkcs7-enveloped", true, func(in *hin) error {
			_, e1 := cfca.OpenEnvelopedMessage(in.d, certOf(in, "cert"), sm2Priv(in, "key"))
			_, e2 := cfca.OpenEnvelopedMessageLegacy(in.d, certOf(in, "cert"), sm2Priv(in, "key"))
			if e1 == nil || e2 == nil {
				return nil
			}
			return e1
		}},
		{"pkcs7.Parse+DecryptUsingPSK", "pkcs7-encrypted", true, func(in *hin) error {
			p7, err := pkcs7.Parse(in.d)
			if err != nil {
				return err
			}
			_, err = p7.DecryptUsingPSK(in.st.Hex("psk"))
			_, _ = p7.Decrypt(uCert, uSM2)
			_, _ = p7.GetRecipients()
			return err
		}},
		{"pkcs7.Parse+DecryptAndVerify", "pkcs7-signed-enveloped", true, func(in *hin) error {
			p7, err := pkcs7.Parse(in.d)
			if err != nil {
				return err
			}
			_, _ = p7.GetRecipients()
			_, err = p7.DecryptAndVerify(certOf(in, "cert"), sm2Priv(in, "key"), func() error { return p7.Verify() })
			_, _ = p7.DecryptAndVerifyOnlyOne(sm2Priv(in, "key"), func() error { return p7.Verify() })
			_, _ = p7.Decrypt(certOf(in, "cert"), sm2Priv(in, "key"))
			return err
		}},
		// ---- every short string over the BER alphabet (MC_C13ber): the BER front end of pkcs7
		{"pkcs7.Parse(ber)", "ber", false, func(in *hin) error {
			_, err := pkcs7.Parse(in.d)
			return err
		}},
		// ---- pkcs ciphers (content-encryption payloads and their ASN.1 parameters)
		{"pkcs.Cipher.Decrypt(ciphertext)", "pkcs-cipher-ct", true, func(in *hin) error {
			var alg pkix.AlgorithmIdentifier
			_, err := asn1.Unmarshal(in.st.Hex("alg"), &alg)
			hside("alg", err)
			c, err := pkcs.GetCipher(alg)
			hside("alg cipher", err)
			_, err = c.Decrypt(in.st.Hex("key"), &alg.Parameters, in.d)
			return err
		}},
		{"pkcs.GetCipher+Decrypt(parameters)", "pkcs-cipher-alg", true, func(in *hin) error {
			var alg pkix.AlgorithmIdentifier
			if _, err := asn1.Unmarshal(in.d, &alg); err != nil {
				return err
			}
			_ = pkcs.IsPBES1(alg)
			_ = pkcs.IsPBES2(alg)
			_ = pkcs.IsSMPBES(alg)
			c, err := pkcs.GetCipher(alg)
			if err != nil {
				return err
			}
			_, err = c.Decrypt(in.st.Hex("key"), &alg.Parameters, in.st.Hex("ct"))
			return err
		}},
		// ---- padding, AEAD
		{"padding.Unpad", "padded", true, func(in *hin) error {
			_, err := newPad(in.st.Str("scheme"), in.st.Int("bs")).Unpad(in.d)
			return err
		}},
		{"cipher.AEAD.Open", "aead", true, func(in *hin) error {
			blk, err := sm4.NewCipher(in.st.Hex("key"))
			hside("key", err)
			var a cipher.AEAD
			if in.st.Str("alg") == "gcm" {
				a, err = cipher.NewGCM(blk)
			} else {
				a, err = gcipher.NewCCM(blk)
			}
			hside("aead", err)
			_, err = a.Open(nil, in.st.Hex("nonce"), in.d, in.st.Hex("aad"))
			return err
		}},

		// ================================================================ universal parsers (every input)
		{"u:pkcs7.Parse", "*", false, func(in *hin) error {
			p7, err := pkcs7.Parse(in.d)
			if err == nil {
				_ = p7.Verify()
				_, _ = p7.GetRecipients()
				_, _ = p7.Decrypt(uCert, uSM2)
				_, _ = p7.DecryptUsingPSK(uHash[:16])
			}
			return err
		}},
		{"u:smx509.ParseCertificate", "*", false, func(in *hin) error {
			c, err := smx509.ParseCertificate(in.d)
			if err == nil {
				useCert(c, nil, uPool)
			}
			return err
		}},
		{"u:smx509.ParseCertificateRequest", "*", false, func(in *hin) error {
			c, err := smx509.ParseCertificateRequest(in.d)
			if err == nil {
				_ = c.CheckSignature()
			}
			return err
		}},
		{"u:smx509.ParseCFCACertificateRequest", "*", false, func(in *hin) error {
			_, err := smx509.ParseCFCACertificateRequest(in.d)
			return err
		}},
		{"u:smx509.ParseRevocationList", "*", false, func(in *hin) error {
			_, err := smx509.ParseRevocationList(in.d)
			return err
		}},
		{"u:smx509.ParsePKCS8PrivateKey", "*", false, func(in *hin) error {
			k, err := smx509.ParsePKCS8PrivateKey(in.d)
			if err == nil {
				usePrivKey(k)
			}
			return err
		}},
		{"u:pkcs8.ParsePKCS8PrivateKey(password)", "*", false, func(in *hin) error {
			_, err := pkcs8.ParsePKCS8PrivateKey(in.d, uPass)
			return err
		}},
		{"u:smx509.ParsePKIXPublicKey", "*", false, func(in *hin) error { return nn(smx509.ParsePKIXPublicKey(in.d)) }},
		{"u:smx509.ParseSM2PrivateKey", "*", false, func(in *hin) error { _, err := smx509.ParseSM2PrivateKey(in.d); return err }},
		{"u:smx509.ParseTypedECPrivateKey", "*", false, func(in *hin) error { return nn(smx509.ParseTypedECPrivateKey(in.d)) }},
		{"u:smx509.ParsePKCS1", "*", false, func(in *hin) error {
			_, e1 := smx509.ParsePKCS1PrivateKey(in.d)
			_, e2 := smx509.ParsePKCS1PublicKey(in.d)
			if e2 == nil {
				return nil
			}
			return e1
		}},
		{"u:smx509.ParseCSRResponse", "*", false, func(in *hin) error { _, err := smx509.ParseCSRResponse(uSM2, in.d); return err }},
		{"u:sm2.ParseEnvelopedPrivateKey", "*", false, func(in *hin) error { _, err := sm2.ParseEnvelopedPrivateKey(uSM2, in.d); return err }},
		{"u:sm2.Decrypt", "*", false, func(in *hin) error {
			_, e1 := sm2.Decrypt(uSM2, in.d)
			_, e2 := uSM2.Decrypt(nil, in.d, sm2.NewPlainDecrypterOpts(sm2.C1C2C3))
			_, e3 := uSM2.Decrypt(nil, in.d, sm2.ASN1DecrypterOpts)
			if e1 == nil || e2 == nil || e3 == nil {
				return nil
			}
			return e1
		}},
		{"u:sm2.ciphertext-transcoders", "*", false, func(in *hin) error {
			_, e1 := sm2.ASN1Ciphertext2Plain(in.d, nil)
			_, e2 := sm2.PlainCiphertext2ASN1(in.d, sm2.C1C3C2)
			_, e3 := sm2.AdjustCiphertextSplicingOrder(in.d, sm2.C1C3C2, sm2.C1C2C3)
			if e1 == nil || e2 == nil || e3 == nil {
				return nil
			}
			return e1
		}},
		{"u:sm2.VerifyASN1", "*", false, func(in *hin) error {
			_, _ = sm2.RecoverPublicKeysFromSM2Signature(uHash, in.d)
			return boolErr(sm2.VerifyASN1(&uSM2.PublicKey, uHash, in.d))
		}},
		{"u:sm2/ecdh.New{Public,Private}Key", "*", false, func(in *hin) error {
			_, e1 := sm2.NewPublicKey(in.d)
			_, e2 := sm2.NewPrivateKey(in.d)
			_, e3 := ecdh.P256().NewPublicKey(in.d)
			_, e4 := ecdh.P256().NewPrivateKey(in.d)
			if e1 == nil || e2 == nil || e3 == nil || e4 == nil {
				return nil
			}
			return e1
		}},
		{"u:sm9.Unmarshal*PrivateKeyASN1", "*", false, func(in *hin) error {
			_, e1 := sm9.UnmarshalSignMasterPrivateKeyASN1(in.d)
			_, e2 := sm9.UnmarshalSignPrivateKeyASN1(in.d)
			_, e3 := sm9.UnmarshalEncryptMasterPrivateKeyASN1(in.d)
			_, e4 := sm9.UnmarshalEncryptPrivateKeyASN1(in.d)
			if e1 == nil || e2 == nil || e3 == nil || e4 == nil {
				return nil
			}
			return e1
		}},
		{"u:sm9.Unmarshal*PublicKeyASN1/PEM", "*", false, func(in *hin) error {
			_, e1 := sm9.UnmarshalSignMasterPublicKeyASN1(in.d)
			_, e2 := sm9.UnmarshalEncryptMasterPublicKeyASN1(in.d)
			_, _ = sm9.ParseSignMasterPublicKeyPEM(in.d)
			_, _ = sm9.ParseEncryptMasterPublicKeyPEM(in.d)
			if e1 == nil || e2 == nil {
				return nil
			}
			return e1
		}},
		{"u:sm9.Unmarshal*Raw", "*", false, func(in *hin) error {
			_, e1 := sm9.UnmarshalSignMasterPublicKeyRaw(in.d)
			_, e2 := sm9.UnmarshalEncryptMasterPublicKeyRaw(in.d)
			_, e3 := sm9.UnmarshalSignPrivateKeyRaw(in.d)
			_, e4 := sm9.UnmarshalEncryptPrivateKeyRaw(in.d)
			if e1 == nil || e2 == nil || e3 == nil || e4 == nil {
				return nil
			}
			return e1
		}},
		{"u:sm9.VerifyASN1", "*", false, func(in *hin) error { return boolErr(sm9.VerifyASN1(uSM9Pub, uUID, 1, uHash, in.d)) }},
		{"u:sm9.DecryptASN1", "*", false, func(in *hin) error { _, err := sm9.DecryptASN1(uSM9Enc, uUID, in.d); return err }},
		{"u:sm9.Decrypt", "*", false, func(in *hin) error {
			_, e1 := sm9.Decrypt(uSM9Enc, uUID, in.d, nil)
			_, e2 := sm9.Decrypt(uSM9Enc, uUID, in.d, sm9.SM4CBCEncrypterOpts)
			if e2 == nil {
				return nil
			}
			return e1
		}},
		{"u:sm9.UnwrapKey", "*", false, func(in *hin) error {
			_, e1 := sm9.UnwrapKey(uSM9Enc, uUID, in.d, 16)
			_, e2 := uSM9Enc.UnwrapKey(uUID, in.d, 16)
			_, _, e3 := sm9.UnmarshalSM9KeyPackage(in.d)
			if e1 == nil || e2 == nil || e3 == nil {
				return nil
			}
			return e1
		}},
		{"u:cfca.ParseSM2", "*", false, func(in *hin) error { _, _, err := cfca.ParseSM2(uPass, in.d); return err }},
		{"u:cfca.ParseEscrowPrivateKey", "*", false, func(in *hin) error { _, err := cfca.ParseEscrowPrivateKey(uSM2, in.d); return err }},
		{"u:cfca.DecryptBySM4CBC", "*", false, func(in *hin) error { _, err := cfca.DecryptBySM4CBC(in.d, uPass); return err }},
		{"u:cfca.Verify*", "*", false, func(in *hin) error {
			e1 := cfca.VerifyMessageAttach(in.d)
			_ = cfca.VerifyMessageDetach(in.d, uHash)
			_ = cfca.VerifyDigestDetach(in.d, uHash)
			return e1
		}},
		{"u:padding.Unpad", "*", false, func(in *hin) error {
			var err error
			for _, s := range []string{"pkcs7", "x923", "m2", "m3"} {
				_, err = newPad(s, 16).Unpad(in.d)
			}
			_, _ = newPad("pkcs7", 8).Unpad(in.d)
			return err
		}},
		{"u:cipher.AEAD.Open", "*", false, func(in *hin) error {
			_, e1 := uGCM.Open(nil, uNonce, in.d, nil)
			_, e2 := uCCM.Open(nil, uNonce, in.d, nil)
			if e2 == nil {
				return nil
			}
			return e1
		}},
		{"u:PEM parsers", "*", false, func(in *hin) error {
			_, e1 := smx509.ParseCertificatePEM(in.d)
			_, _ = smx509.ParseCertificateRequestPEM(in.d)
			_, _ = smx509.ParseCRL(in.d)
			if b, _ := pem.Decode(in.d); b != nil {
				_ = smx509.IsEncryptedPEMBlock(b)
				_, _ = smx509.DecryptPEMBlock(b, uPass)
			}
			return e1
		}},

		// ================================================================ harness self tests (binding guard)
		{"selftest.panic", "selftest-panic", false, func(in *hin) error {
			var a []byte
			_ = a[len(in.d)] // deliberate: index out of range
			return nil
		}},
		{"selftest.overrun", "selftest-overrun", false, func(in *hin) error {
			p := unsafe.Pointer(unsafe.SliceData(in.d))
			b := *(*byte)(unsafe.Add(p, len(in.d))) // deliberate: one byte past the guarded input
			return fmt.Errorf("read %d", b)
		}},
		{"selftest.hang", "selftest-hang", false, func(in *hin) error {
			for {
				time.Sleep(time.Second)
			}
		}},
	}
}

type zeroReader struct{}

func (zeroReader) Read(p []byte) (int, error) {
	for i := range p {
		p[i] = 0x5a
	}
	return len(p), nil
}

// ---------------------------------------------------------------- runner
type hpanic struct {
	ep, msg, site, stack string
	fault                bool
}

// repoSite extracts "<pkg>/<file>:<line>" of the innermost frame of the library under test.
func repoSite(stack string, contract bool) string {
	lines := strings.Split(stack, "\n")
	first := ""
	for i := 0; i+1 < len(lines); i++ {
		fn := lines[i]
		if !strings.HasPrefix(fn, "github.com/emmansun/gmsm/") {
			continue
		}
		rest := strings.TrimPrefix(fn, "github.com/emmansun/gmsm/")
		// rest = pkg/path.Func(...) or pkg/path.(*T).Method(...)
		slash := strings.LastIndex(rest, "/")
		dot := strings.Index(rest[slash+1:], ".")
		if dot < 0 {
			continue
		}
		pkg := rest[:slash+1+dot]
		file := strings.TrimSpace(lines[i+1])
		if sp := strings.Index(file, " "); sp >= 0 {
			file = file[:sp]
		}
		if s := strings.LastIndex(file, "/"); s >= 0 {
			file = file[s+1:]
		}
		site := pkg + "/" + file
		if first == "" {
			first = site
		}
		// a callee that enforces a documented length contract by an explicit panic (BlockMode,
		// AEAD, padding constructors, alias checks) is not the defect: the caller that handed it
		// attacker-controlled lengths is
		if contract && (strings.HasPrefix(pkg, "internal/") || pkg == "cipher" || pkg == "padding" || pkg == "sm4" || pkg == "sm3") {
			continue
		}
		return site
	}
	if first != "" {
		return first
	}
	return "?"
}

func runEP(ep *hep, in *hin) (err error, p *hpanic) {
	defer func() {
		if r := recover(); r != nil {
			msg := fmt.Sprint(r)
			if strings.HasPrefix(msg, "harness:") {
				panic(r)
			}
			st := string(debug.Stack())
			// drop the frames of recover/debug.Stack/panic up to the first non-runtime frame
			if i := strings.Index(st, "panic("); i >= 0 {
				st = st[i:]
			}
			fault := false
			if re, ok := r.(interface{ Addr() uintptr }); ok {
				_ = re
				fault = true
			}
			_, isRuntime := r.(runtime.Error)
			p = &hpanic{ep: ep.name, msg: msg, site: repoSite(st, !isRuntime), stack: st, fault: fault}
		}
	}()
	return ep.fn(in), nil
}

var (
	hSeen     = map[string]int{}
	hMinLen   = map[string]int{}
	hGuard    *guard.Buf
	hGuardCap = 1 << 16
)

// guarded returns a copy of b that ends exactly at an inaccessible page (len == cap).
func hguarded(b []byte) []byte {
	if len(b) > hGuardCap || hGuard == nil {
		for len(b) > hGuardCap {
			hGuardCap *= 2
		}
		if hGuard != nil {
			hGuard.Free()
		}
		hGuard = guard.Alloc(hGuardCap, true)
	}
	n := len(b)
	d := hGuard.B[hGuardCap-n : hGuardCap : hGuardCap]
	copy(d, b)
	return d
}

func init() {
	Register("hostile", func(t *Trace, env *Env) *Mismatch {
		hostileInit()
		if hostileTable == nil {
			hostileTable = append(hostileEPs(), extraEPs...)
		}
		old := debug.SetPanicOnFault(true)
		defer debug.SetPanicOnFault(old)
		for i, st := range t.Steps {
			At(i)
			if st.Str("op") != "feed" {
				panic("harness: hostile: unknown op " + st.Str("op"))
			}
			typ := st.Str("type")
			orig := st.Hex("data")
			in := &hin{d: hguarded(orig), st: st}
			valid := st.Has("mut") && st.Str("mut") == "none"
			only := ""
			if st.Has("only") {
				only = st.Str("only")
			}
			var pans []*hpanic
			ran := 0
			for k := range hostileTable {
				ep := &hostileTable[k]
				if ep.types != "*" && !hasWord(ep.types, typ) {
					continue
				}
				if only != "" && ep.name != only {
					continue
				}
				if ep.types == "*" && (strings.HasPrefix(typ, "selftest-") || st.BoolOr("nouniversal", false)) {
					continue
				}
				ran++
				err, p := runEP(ep, in)
				if re, ok := err.(*relErr); ok && p == nil {
					return &Mismatch{Step: i, Kind: "mismatch", Got: re.got, Exp: re.exp, Note: "ep=" + ep.name + " " + re.note}
				}
				if p != nil {
					pans = append(pans, p)
				} else if valid && ep.must && err != nil && !st.BoolOr("fixture", false) && !st.BoolOr("nomust", false) {
					return &Mismatch{Step: i, Kind: "harness", Got: "error: " + err.Error(), Exp: "value",
						Note: "vacuity guard: the unmutated artefact " + st.Str("name") + " was refused by its primary entry point " + ep.name}
				}
				if !bytes.Equal(in.d, orig) {
					copy(in.d, orig) // an entry point wrote into its input; restore for the next one
				}
			}
			if ran == 0 {
				panic("harness: hostile: no entry point for artefact type " + typ)
			}
			if len(pans) > 0 {
				// Note: first line = JSON list of the distinct (entry point, repository frame, message); then the first stack
				type site struct {
					Ep   string `json:"ep"`
					Site string `json:"site"`
					Msg  string `json:"msg"`
				}
				var sites []site
				seen := map[string]bool{}
				for _, p := range pans {
					k := p.ep + "\x00" + p.site
					// flood control: a defect hit by (nearly) every input would bury the result file; after
					// 25 reports per (entry point, site) and process only shorter inputs are reported
					hSeen[k]++
					if ml, ok := hMinLen[k]; !ok || len(orig) < ml {
						hMinLen[k] = len(orig)
					} else if hSeen[k] > 25 && typ != "ber" { // (ber: every string is reported, the model's prediction is compared with the code)
						continue
					}
					if !seen[k] {
						seen[k] = true
						m := p.msg
						if p.fault {
							m = "FAULT (memory access outside the input): " + m
						}
						if len(m) > 200 {
							m = m[:200]
						}
						sites = append(sites, site{p.ep, p.site, m})
					}
				}
				if len(sites) == 0 {
					continue
				}
				js, _ := json.Marshal(sites)
				s := pans[0].stack
				if len(s) > 2500 {
					s = s[:2500]
				}
				if hSeen[sites[0].Ep+"\x00"+sites[0].Site] > 25 {
					s = "" // the stack of this site was already reported 25 times
				}
				return &Mismatch{Step: i, Kind: "panic", Got: sites[0].Msg, Exp: "value or error", Note: string(js) + "\n" + s}
			}
		}
		return nil
	})
}

// HostileTable lists (entry point, artefact types, must-accept-valid) for the evidence.
func HostileTable() [][3]string {
	var out [][3]string
	for _, e := range hostileEPs() {
		m := ""
		if e.must {
			m = "must"
		}
		out = append(out, [3]string{e.name, e.types, m})
	}
	return out
}

func hasWord(list, w string) bool {
	for _, x := range strings.Fields(list) {
		if x == w {
			return true
		}
	}
	return false
}
