package verifov;

import java.io.BufferedWriter;
import java.io.FileWriter;
import java.io.IOException;
import java.util.HashMap;
import java.util.Map;

import tlc2.overrides.TLAPlusOperator;
import tlc2.value.impl.BoolValue;
import tlc2.value.impl.StringValue;
import tlc2.value.impl.Value;

/**
 * Emit!Line(file, str): append one line to a file; TRUE. Safe with several TLC workers (one lock,
 * one writer per file, flushed per line so that a killed TLC leaves whole lines).
 */
public final class Emit {
  private Emit() {}
  private static final Map<String, BufferedWriter> W = new HashMap<>();

  @TLAPlusOperator(identifier = "Line", module = "Emit", warn = false)
  public static Value line(final Value file, final Value str) throws IOException {
    final String f = ((StringValue) file).val.toString();
    final String s = ((StringValue) str).val.toString();
    synchronized (W) {
      BufferedWriter w = W.get(f);
      if (w == null) {
        w = new BufferedWriter(new FileWriter(f, true), 1 << 16);
        W.put(f, w);
      }
      w.write(s);
      w.write('\n');
      w.flush();
    }
    return BoolValue.ValTrue;
  }
}
