---------------------------- MODULE KeyContainer ----------------------------
(* C14: a key that is put into a container and taken out again.               *)
(*                                                                            *)
(* The model is symbolic (Dolev-Yao style): a key is a term [kind, cls], a    *)
(* container a term [fmt, pbes, cipher, kdf, ...]; the blob the library makes  *)
(* is not modelled byte by byte - only its STATUS is:                          *)
(*   intact | tampered(region, idx, mask) | wrongPassword | wrongUnwrapKey     *)
(*   | injected(bad scalar class)                                              *)
(* and the result of Parse is an element of the outcome algebra                *)
(*   Same (a key equal to the original) | Err | Different (some other key).    *)
(* Allowed(key, cont, status) is the set of outcomes property C14 permits for  *)
(* that transition; Parse picks any of them, and the invariants below restate  *)
(* the clauses of C14 on the reachable states.  The replayer runs the same     *)
(* (key, container, alteration) against the library and requires the observed  *)
(* outcome to lie in Allowed.                                                  *)
(*                                                                            *)
(* Which bytes of an authenticated container are PROTECTED is part of the      *)
(* model (Regions / Protected); the replayer maps a region name to byte        *)
(* offsets by walking the DER structure:                                       *)
(*  PKCS8enc with a GCM cipher (PBES2):                                        *)
(*    salt    KDF salt (content octets)          - changes the derived key     *)
(*    work    iteration count / scrypt N, r, p   - changes the derived key     *)
(*    nonce   GCM nonce                          - tag fails                   *)
(*    icvlen  GCM tag length parameter           - checked against 16          *)
(*    ct      ciphertext || tag                  - tag fails                   *)
(*    struct  everything else (tags, lengths, OIDs, keyLength, NULLs):         *)
(*            NOT protected - an alteration is either a decoding error or is    *)
(*            ignored (then the authenticated plaintext is unchanged): {Err,Same}*)
(*  SM2 enveloped key (GB/T 35276):                                            *)
(*    c1 c3 c2  x, y, hash, ciphertext of the SM2-encrypted SM4 key             *)
(*    pub       the enveloped key's public point (BIT STRING content)          *)
(*    encpriv   the SM4-ECB encrypted scalar (BIT STRING content)              *)
(*    struct    tags, lengths, algorithm identifier, unused-bits octets        *)
(*  CFCA key blob:                                                             *)
(*    ct        SM4-CBC encrypted scalar (OCTET STRING content)                *)
(*    certpub   the subject public key point inside the certificate            *)
(*    struct    everything else, including the rest of the certificate (the    *)
(*              blob's parser does not verify the certificate's signature)     *)
(* For an authenticated container no alteration at all may yield Different:    *)
(* the key is bound to the public key / tag it carries.                        *)
(* Unauthenticated containers (plain PKCS#8, SEC1, PKIX, raw, CBC/ECB-encrypted *)
(* PKCS#8, PBES1, legacy PEM, SM9 encodings): region "any"; C14 does not ask    *)
(* that an altered byte be noticed, so all three outcomes are allowed and the   *)
(* run only shows that the parser neither panics nor hangs.                     *)
EXTENDS Integers, Sequences, FiniteSets

Kinds == {"sm2", "ecdh", "ecdsa", "ecdsa384", "ecdsa521", "rsa", "sm9sm", "sm9smp", "sm9su", "sm9em", "sm9emp", "sm9eu"}
(* ecdsa = P-256, ecdsa384 / ecdsa521 = P-384 / P-521 (48- and 66-byte scalars);                                    *)
(* sm9sm/sm9em: sign/encrypt master private key; sm9smp/sm9emp: master public key; sm9su/sm9eu: user private key *)
EcdsaKinds   == {"ecdsa", "ecdsa384", "ecdsa521"}
Sm9Kinds     == {"sm9sm", "sm9smp", "sm9su", "sm9em", "sm9emp", "sm9eu"}
Sm9Master    == {"sm9sm", "sm9em"}
Sm9Points    == {"sm9smp", "sm9su", "sm9emp", "sm9eu"}
Pkcs8Kinds   == {"sm2", "ecdh", "rsa", "sm9sm", "sm9su", "sm9em", "sm9eu"} \cup EcdsaKinds

(* scalar classes.  For SM9 public and user keys the class is that of the master scalar they derive from. *)
ScalarCls == {"one", "nMinus2", "hiByteZero", "loByteZero", "hiBitSet", "random1", "random2"}
ValidCls(kind) == IF kind = "rsa" THEN {"rsa2048", "rsa1024"}
                  ELSE ScalarCls \cup (IF kind \in EcdsaKinds THEN {"nMinus1"} ELSE {})      \* ECDSA: [1, n-1]; SM2/ECDH/SM9: [1, n-2]
BadCls(kind) == CASE kind \in {"sm2", "ecdh"} -> {"zero", "nMinus1", "n", "nPlus1", "max", "wide"}
                  [] kind \in EcdsaKinds      -> {"zero", "n", "nPlus1", "max"}
                  [] kind \in Sm9Master       -> {"zero", "nMinus1", "n", "nPlus1", "max", "negative"}
                  [] OTHER                    -> {}

Fmts == {"PKCS8", "PKCS8enc", "SEC1", "PKIX", "PEMenc", "SM2Enveloped", "CFCA", "RAW", "SM9raw", "SM9rawc", "SM9asn1", "SM9asn1c"}
Applicable(kind, fmt) ==
  CASE fmt \in {"PKCS8", "PKCS8enc", "PEMenc"} -> kind \in Pkcs8Kinds
    [] fmt = "SEC1"                            -> kind \in {"sm2"} \cup EcdsaKinds
    [] fmt = "PKIX"                            -> kind \in {"sm2", "ecdh", "rsa"} \cup EcdsaKinds   \* the public half
    [] fmt \in {"SM2Enveloped", "CFCA"}        -> kind = "sm2"
    [] fmt = "RAW"                             -> kind \in {"sm2", "ecdh"}
    [] fmt = "SM9asn1"                         -> kind \in Sm9Kinds
    [] fmt \in {"SM9raw", "SM9rawc", "SM9asn1c"} -> kind \in Sm9Points
    [] OTHER                                   -> FALSE

(* ciphers and KDFs registered in /repo/pkcs (cipher_sm4.go, cipher_aes.go, cipher_des.go, kdf_pbkdf2.go, kdf_scrypt.go, pkcs5_pbes1.go) *)
Pbes2Ciphers == <<"sm4ecb", "sm4cbc", "sm4gcm", "sm4", "aes128cbc", "aes128gcm", "aes192cbc", "aes192gcm", "aes256cbc", "aes256gcm", "descbc", "3descbc">>
GcmCiphers   == {"sm4gcm", "aes128gcm", "aes192gcm", "aes256gcm"}
Kdfs         == <<"pbkdf2-sha1", "pbkdf2-sha224", "pbkdf2-sha256", "pbkdf2-sha384", "pbkdf2-sha512", "pbkdf2-sha512_224", "pbkdf2-sha512_256", "pbkdf2-sm3", "smpbkdf2", "scrypt">>
Pbes1Variants == <<"md2des", "md2rc2", "md5des", "md5rc2", "sha1des", "sha1rc2">>
PemCiphers   == <<"des", "3des", "aes128", "aes192", "aes256", "sm4">>

(* a container term; "-" / 0 where a field does not apply, so that all terms have the same shape *)
C0 == [fmt |-> "-", pbes |-> "-", cipher |-> "-", kdf |-> "-", salt |-> 0, iter |-> 0, n |-> 0, r |-> 0, p |-> 0,
       pemc |-> "-", inner |-> "-", pwc |-> "-", papi |-> "-", sweep |-> 0]

Encrypted(c) == c.fmt \in {"PEMenc", "CFCA"} \/ (c.fmt = "PKCS8enc" /\ c.pwc # "empty")     \* PKCS8enc with the empty password IS the plain PKCS#8
Authenticated(c) == \/ c.fmt \in {"SM2Enveloped", "CFCA"}
                    \/ (c.fmt = "PKCS8enc" /\ c.pwc # "empty" /\ c.pbes = "pbes2" /\ c.cipher \in GcmCiphers)
Regions(c) == CASE c.fmt = "SM2Enveloped" -> {"c1", "c3", "c2", "pub", "encpriv", "struct"}
                [] c.fmt = "CFCA"         -> {"ct", "certpub", "struct"}
                [] Authenticated(c)       -> {"salt", "work", "nonce", "icvlen", "ct", "struct"}
                [] OTHER                  -> {"any"}
Protected(c) == IF Authenticated(c) THEN Regions(c) \ {"struct"} ELSE {}
(* a parse that takes a password: a wrong one can be tried (a plain PKCS#8 given a password must fail too) *)
TakesPassword(c) == c.fmt \in {"PKCS8", "PKCS8enc", "PEMenc", "CFCA"}
TakesUnwrapKey(c) == c.fmt = "SM2Enveloped"
(* containers around which an out-of-range scalar can be placed *)
InjectApplies(kind, c, bad) ==
  /\ bad \in BadCls(kind)
  /\ CASE c.fmt \in {"PKCS8", "SEC1"} -> /\ kind \in {"sm2", "ecdh"} \cup EcdsaKinds \/ (kind \in Sm9Master /\ c.fmt = "PKCS8" /\ bad \in {"nMinus1", "n", "nPlus1", "max"})
                                         /\ bad \notin {"wide", "negative"}                         \* edited in place: same length
       [] c.fmt = "RAW"               -> bad # "negative"
       [] c.fmt = "SM9asn1"           -> kind \in Sm9Master /\ bad # "wide"
       [] c.fmt \in {"SM2Enveloped", "CFCA"} -> TRUE
       [] OTHER                       -> FALSE

Outcomes == {"Same", "Err", "Different"}
S0 == [t |-> "none", region |-> "-", idx |-> 0, mask |-> 0, cls |-> "-"]
Allowed(k, c, s) ==
  CASE s.t = "intact"         -> {"Same"}
    [] s.t = "wrongPassword"  -> {"Err"}
    [] s.t = "wrongUnwrapKey" -> {"Err"}
    [] s.t \in {"rightAfterWrongPassword", "rightAfterWrongUnwrapKey"} -> {"Same"}     \* a refusal does not use the bytes up
    [] s.t = "injected"       -> {"Err"}
    [] s.t = "reencoded"      -> {"Same", "Err"}           \* a foreign encoding of the SAME key: the key or a refusal, never another key
    [] s.t = "tampered"       -> IF ~Authenticated(c) THEN Outcomes
                                 ELSE IF s.region \in Protected(c) THEN {"Err"} ELSE {"Err", "Same"}
    [] OTHER                  -> {}

VARIABLES key, cont, status, outcome
kcvars == <<key, cont, status, outcome>>

KInit == key = [kind |-> "-", cls |-> "-"] /\ cont = C0 /\ status = S0 /\ outcome = "-"
New(kind, cls) ==
  /\ key.kind = "-" /\ kind \in Kinds /\ cls \in ValidCls(kind)
  /\ key' = [kind |-> kind, cls |-> cls] /\ UNCHANGED <<cont, status, outcome>>
Marshal(c) ==
  /\ key.kind # "-" /\ status.t = "none" /\ Applicable(key.kind, c.fmt)
  /\ cont' = c /\ status' = [S0 EXCEPT !.t = "intact"] /\ UNCHANGED <<key, outcome>>
Tamper(region, idx, mask) ==
  /\ status.t = "intact" /\ outcome = "-" /\ region \in Regions(cont) /\ mask \in 1..255
  /\ status' = [S0 EXCEPT !.t = "tampered", !.region = region, !.idx = idx, !.mask = mask] /\ UNCHANGED <<key, cont, outcome>>
UseWrongPassword ==
  /\ status.t = "intact" /\ outcome = "-" /\ TakesPassword(cont)
  /\ status' = [S0 EXCEPT !.t = "wrongPassword"] /\ UNCHANGED <<key, cont, outcome>>
UseWrongUnwrapKey ==
  /\ status.t = "intact" /\ outcome = "-" /\ TakesUnwrapKey(cont)
  /\ status' = [S0 EXCEPT !.t = "wrongUnwrapKey"] /\ UNCHANGED <<key, cont, outcome>>
InjectScalar(bad) ==
  /\ status.t = "intact" /\ outcome = "-" /\ InjectApplies(key.kind, cont, bad)
  /\ status' = [S0 EXCEPT !.t = "injected", !.cls = bad] /\ UNCHANGED <<key, cont, outcome>>
(* The same key in an encoding other implementations write and parsers commonly tolerate: the SEC 1 privateKey    *)
(* OCTET STRING with its leading zero octets stripped (old OpenSSL).  Not produced by the library itself.           *)
Reencode ==
  /\ status.t = "intact" /\ outcome = "-" /\ cont.fmt \in {"SEC1", "PKCS8"} /\ key.cls \in {"hiByteZero", "one"}
  /\ status' = [S0 EXCEPT !.t = "reencoded"] /\ UNCHANGED <<key, cont, outcome>>
(* after a refusal, the holder of the right secret decodes THE SAME BYTES (a parser that worked in place on its input, or kept   *)
(* state from the failed attempt, shows here)                                                                                  *)
RightSecretAfterwards ==
  /\ status.t \in {"wrongPassword", "wrongUnwrapKey"} /\ outcome = "Err"
  /\ status' = [status EXCEPT !.t = IF status.t = "wrongPassword" THEN "rightAfterWrongPassword" ELSE "rightAfterWrongUnwrapKey"]
  /\ outcome' = "-" /\ UNCHANGED <<key, cont>>
Parse(o) ==
  /\ status.t # "none" /\ outcome = "-" /\ o \in Allowed(key, cont, status)
  /\ outcome' = o /\ UNCHANGED <<key, cont, status>>

(* ---- C14 on the model ---- *)
RoundTrip           == (outcome # "-" /\ status.t \in {"intact", "rightAfterWrongPassword", "rightAfterWrongUnwrapKey"}) => outcome = "Same"
NeverDifferent      == outcome = "Different" => (status.t = "tampered" /\ ~Authenticated(cont))
AuthRejects         == (outcome # "-" /\ status.t = "tampered" /\ status.region \in Protected(cont)) => outcome = "Err"
WrongSecretNeverKey == (outcome # "-" /\ status.t \in {"wrongPassword", "wrongUnwrapKey"}) => outcome = "Err"
RangeRefused        == (outcome # "-" /\ status.t = "injected") => outcome = "Err"
KcTypeOK == /\ key.kind \in Kinds \cup {"-"}
            /\ cont.fmt \in Fmts \cup {"-"}
            /\ status.t \in {"none", "intact", "tampered", "wrongPassword", "wrongUnwrapKey", "injected", "reencoded", "rightAfterWrongPassword", "rightAfterWrongUnwrapKey"}
            /\ outcome \in Outcomes \cup {"-"}
            /\ (cont.fmt # "-" => Applicable(key.kind, cont.fmt))
=============================================================================
