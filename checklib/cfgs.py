"""Dispatch configurations (DESIGN.md section 4): the same replayer under GODEBUG=cpu.<feature>=off
(honoured by gmsm's vendored internal/deps/cpu) and a second binary built with -tags purego."""

def c(label, godebug=None, tags=("verif",), wrap="native", env=None):
    e = dict(env or {})
    if godebug:
        e["GODEBUG"] = godebug
    return {"label": label, "env": e, "tags": tags, "wrap": wrap}

PUREGO = ("verif", "purego")

K_SM3 = [c("avx2"), c("avx(no avx2)", "cpu.avx2=off"), c("ssse3(no avx)", "cpu.avx2=off,cpu.avx=off"),
         c("scalar-asm", "cpu.avx2=off,cpu.avx=off,cpu.ssse3=off"), c("purego", tags=PUREGO),
         # every switch the dispatch reads, off alone (combinations no CPU has, but GODEBUG selects them and two sites may disagree)
         c("bmi2-off-alone", "cpu.bmi2=off"), c("avx-off-alone", "cpu.avx=off"), c("ssse3-off-alone", "cpu.ssse3=off")]

def k_sm4(wrappers=("native",), full=True):
    base = [c("aesni+avx2"), c("aesni+avx", "cpu.avx2=off"), c("aesni+sse", "cpu.avx2=off,cpu.avx=off"),
            c("no-pclmul", "cpu.pclmulqdq=off"), c("no-aes(go tables)", "cpu.aes=off"),
            c("force-aesni-block", env={"FORCE_SM4BLOCK_AESNI": "1"}), c("purego", tags=PUREGO),
            # a switch combination no CPU has but GODEBUG can select: the Go side and the assembly test the two flags independently
            c("avx2-flag-without-avx", "cpu.avx=off")]
    if not full:
        base = [base[0], base[1], base[4], base[6], base[7]]
    out = []
    for w in wrappers:
        for b in base:
            d = dict(b)
            d["wrap"] = w
            if w != "native":
                d["label"] = b["label"] + "/" + w
            out.append(d)
    return out

# no-avx2 selects the SSE table-select paths of internal/sm2ec and internal/sm9/bn256 (appended last: plans index 0 and 3 by position)
K_EC = [c("adx+bmi2"), c("no-adx", "cpu.adx=off"), c("no-bmi2", "cpu.bmi2=off"), c("purego", tags=PUREGO), c("no-avx2", "cpu.avx2=off")]
K_ZUC = [c("aesni+avx+clmul"), c("no-avx", "cpu.avx=off"), c("no-aes", "cpu.aes=off"), c("no-pclmul", "cpu.pclmulqdq=off"), c("purego", tags=PUREGO)]
