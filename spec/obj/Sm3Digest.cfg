CONSTANTS Lens = {0,1,7,55,56,57,63,64,65,119,120,127,128,129,200}
 MaxLen = 400
 MaxOps = 4
SPECIFICATION Spec
INVARIANTS Refines Bookkeeping SumOk
CHECK_DEADLOCK FALSE
