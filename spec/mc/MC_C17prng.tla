----------------------------- MODULE MC_C17prng -----------------------------
(* C17, reader wrapper: bounded instances of PrngObj with emission (family     *)
(* "drbgprng").  One mechanism and mode per instance; TLC enumerates New shapes  *)
(* (requested strength * 1000 + personalisation length), Read sizes and, for    *)
(* every call, the environment's choice to make any one of the source reads of  *)
(* that call misbehave (FaultKinds: 1 one byte short, 2 error, 3 zero bytes) -   *)
(* i.e. a fault at every call index.  Window/MaxOps/LeavesOnly as in MC_C17:     *)
(* Window >= MaxOps explores every op sequence, a small Window gives a           *)
(* transition cover per (source reads made (capped), reseed_counter, last ops).  *)
EXTENDS PrngObj, TLC, Json
CONSTANTS OutFile, Mech, Gm, Algs, FaultKinds, NewOps, ReadOps, MaxOps, Window, LeavesOnly, SrcCap
Hx == INSTANCE Hex
Em == INSTANCE Emit
VARIABLES nops, win, hist
vars == <<inst, mech, gm, alg, st, lastReseed, now, reply, wrap, strength, srck, srclog, nops, win, hist>>
Alg == CHOOSE a \in Algs : TRUE
View == <<wrap, strength, IF srck > SrcCap THEN SrcCap ELSE srck, st.reseed_counter, win, IF Window >= MaxOps THEN nops ELSE 0>>

LastK(s) == IF Len(s) <= Window THEN s ELSE SubSeq(s, Len(s) - Window + 1, Len(s))
SrcJson(log) == [i \in 1..Len(log) |-> [kind |-> log[i].kind, want |-> log[i].want, data |-> Hx!FromBytes(log[i].data)]]

Init == /\ PInit /\ nops = 0 /\ win = <<>>
        /\ hist = <<[op |-> "cfg", mech |-> Mech, gm |-> Gm, algs |-> Algs, exact |-> Exact, interval |-> Interval]>>
(* fault choices for a call that makes up to k source reads from now on *)
Faults(k) == {0} \cup {(srck + r + 1) * 10 + kd : r \in 0..(k - 1), kd \in FaultKinds}
Step(desc, ev) ==
  /\ nops < MaxOps /\ nops' = nops + 1
  /\ win' = LastK(Append(win, desc))
  /\ hist' = Append(hist, ev)
  /\ IF LeavesOnly /\ nops' < MaxOps THEN TRUE
     ELSE Em!Line(OutFile, ToJson([fam |-> "drbgprng", steps |-> hist']))

NNew(c, f) ==
  LET req == c \div 1000
      p == RP!Bytes(Seed, 900 + nops, c % 1000)
  IN /\ New(Mech, Gm, Alg, req, p, f)
     /\ Step(<<"new", c, reply'.kind>>, [op |-> "new", strength |-> req, p |-> Hx!FromBytes(p), src |-> SrcJson(srclog'),
                            res |-> reply'.kind, calls |-> srck'])
NRead(n, f) ==
  /\ Read(n, f)
  /\ Step(<<"read", n, reply'.kind>>, [op |-> "read", n |-> n, src |-> SrcJson(srclog'), res |-> reply'.kind,
                          exp |-> Hx!FromBytes(reply'.out), calls |-> srck'])

Next == \/ \E c \in NewOps : \E f \in Faults(2) : NNew(c, f)
        \/ \E n \in ReadOps : wrap /\ \E f \in Faults(ReadCalls(n)) : NRead(n, f)
Spec == Init /\ [][Next]_vars

(* ReadExact: a successful Read(n) returned exactly n bytes *)
ReadExact == LET ev == hist[Len(hist)]
             IN (Exact /\ ev.op = "read" /\ ev.res = "ok") => Len(reply.out) = ev.n
TypeOK == nops <= MaxOps /\ srck >= 0 /\ (wrap => inst)
=============================================================================
