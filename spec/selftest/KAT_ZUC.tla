------------------------------ MODULE KAT_ZUC ------------------------------
(* Published vectors asserted on the TLA+ definitions of prim/ZUC.tla and     *)
(* algo/ZucMac.tla (which is what pins the S-box tables S0/S1, the constants  *)
(* d, the key/IV loading and the MAC definitions).                            *)
(*  - ZUC-128 keystream: GM/T 0001.1 Annex A / ETSI-SAGE "Document 3:          *)
(*    Implementor's Test Data" v1.1 section 3.3 (test vectors 1-3; for vector  *)
(*    1 also the values of R1, R2 after the first output word are not used).  *)
(*  - 128-EEA3: Document 3 section 4, test sets 1, 2 and 4 (193, 800 and 4019  *)
(*    bits; compared on the whole bytes of the message).  The hex strings are  *)
(*    copied from /repo/zuc/eea_test.go, which reproduces these test sets.     *)
(*  - 128-EIA3: Document 3 section 5, test sets 1, 3, 5 copied from            *)
(*    /repo/internal/zuc/eia_test.go (which reproduces them) and test set 2    *)
(*    (LENGTH = 90) written from the document.                                 *)
(*  - ZUC-256 keystream (all-zero and all-one key/IV, 20 words) and the four   *)
(*    ZUC-256 MAC examples with 32/64/128-bit tags: "The ZUC-256 Stream        *)
(*    Cipher" (2018) test vectors, copied from /repo/internal/zuc/core_test.go *)
(*    and eia256_test.go (zucEIA256Tests), which reproduce them.               *)
(* No value in this module was obtained by running gmsm; the repository's      *)
(* self-generated expectations ("emmansun ..." tests) are deliberately unused. *)
EXTENDS Integers, Sequences, TLC, Bitwise
LOCAL INSTANCE SequencesExt
Z == INSTANCE ZUC
M == INSTANCE ZucMac
B == INSTANCE Bytes
H == INSTANCE Hex
WB(ws) == H!FromBytes(Z!BytesOf(ws))
Rep(b, n) == SubSeq([i \in 1..n |-> b], 1, n)

(* ---- ZUC-128 keystream ---- *)
ASSUME WB(Z!Keystream128(Rep(0, 16), Rep(0, 16), 2)) = "27bede74018082da"
ASSUME WB(Z!Keystream128(Rep(255, 16), Rep(255, 16), 2)) = "0657cfa07096398b"
ASSUME WB(Z!Keystream128(H!ToBytes("3d4c4be96a82fdaeb58f641db17b455b"), H!ToBytes("84319aa8de6915ca1f6bda6bfbd8c766"), 2)) = "14f1c2723279c419"
(* the registers of vector 1 after initialisation + first word, as tabulated in Document 3 (R1 = c7ee7f13, R2 = 0c0fa817) *)
ASSUME LET st == Z!WorkStep(Z!Ready(Z!Load128(Rep(0, 16), Rep(0, 16)))).st
       IN  H!FromBytes(Z!WToBytes(st.r1) \o Z!WToBytes(st.r2)) = "c7ee7f130c0fa817"

(* ---- ZUC-256 keystream ---- *)
ASSUME WB(Z!Keystream(Rep(0, 32), Rep(0, 23), 20)) =
  "58d03ad62e032ce2dafc683a39bdcb0352a2bc67f1b7de74163ce3a101ef55589639d75b95fa681b7f090df756391ccc903b7612744d544c17bc3fad8b163b0821787c0b97775bb84943c6bbe8ad8afd"
ASSUME WB(Z!Keystream(Rep(255, 32), Rep(255, 23), 20)) =
  "3356cbaed1a1c18b6baa4ffe343f777c9e15128f251ab65b949f7b26ef7157f296dd2fa9df95e3ee7a5be02ec32ba585505af316c2f9ded27cdbd935e441ce1115fd0a80bb7aef6768989416b8fac8c2"

(* ---- 128-EEA3 ---- *)
Eea3(key, count, bearer, dir, in) ==
  H!FromBytes(B!BXor(H!ToBytes(in), Z!KeystreamBytes(H!ToBytes(key), M!Eea3IV(H!ToBytes(count), bearer, dir), Len(H!ToBytes(in)))))
ASSUME Eea3("173d14ba5003731d7a60049470f00a29", "66035492", 15, 0,
  "6cf65340735552ab0c9752fa6f9025fe0bd675d9005875b2") =
  "a6c85fc66afb8533aafc2518dfe784940ee1e4b030238cc8"
ASSUME Eea3("e5bd3ea0eb55ade866c6ac58bd54302a", "00056823", 24, 1,
  "14a8ef693d678507bbe7270a7f67ff5006c3525b9807e467c4e56000ba338f5d429559036751822246c80d3b38f07f4be2d8ff5805f5132229bde93bbbdcaf382bf1ee972fbf9977bada8945847a2a6c9ad34a667554e04d1f7fa2c33241bd8f01ba220d") =
  "131d43e0dea1be5c5a1bfd971d852cbf712d7b4f57961fea3208afa8bca433f456ad09c7417e58bc69cf8866d1353f74865e80781d202dfb3ecff7fcbc3b190fe82a204ed0e350fc0f6f2613b2f2bca6df5a473a57a4a00d985ebad880d6f23864a07b01"
ASSUME Eea3("e13fed21b46e4e7ec31253b2bb17b3e0", "2738cdaa", 26, 0,
  "8d74e20d54894e06d3cb13cb3933065e8674be62adb1c72b3a646965ab63cb7b7854dfdc27e84929f49c64b872a490b13f957b64827e71f41fbd4269a42c97f824537027f86e9f4ad82d1df451690fdd98b6d03f3a0ebe3a312d6b840ba5a1820b2a2c9709c090d245ed267cf845ae41fa975d3333ac3009fd40eba9eb5b885714b768b697138baf21380eca49f644d48689e4215760b906739f0d2b3f091133ca15d981cbe401baf72d05ace05cccb2d297f4ef6a5f58d91246cfa77215b892ab441d5278452795ccb7f5d79057a1c4f77f80d46db2033cb79bedf8e60551ce10c667f62a97abafabbcd6772018df96a282ea737ce2cb331211f60d5354ce78f9918d9c206ca042c9b62387dd709604a50af16d8d35a8906be484cf2e74a9289940364353249b27b4c9ae29eddfc7da6418791a4e7baa0660fa64511f2d685cc3a5ff70e0d2b74292e3b8a0cd6b04b1c790b8ead2703708540dea2fc09c3da770f65449c84d817a4f551055e19ab85018a0028b71a144d96791e9a3577933504eee0060340c69d274e1bf9d805dcbcc1a6faa976800b6ff2b671dc463652fa8a33ee50974c1c21be01eabb2167430269d72ee511c9dde30797c9a25d86ce74f5b961be5fdfb6807814039e7137636bd1d7fa9e09efd2007505906a5ac45dfdeed7757bbee745749c29633350bee0ea6f409df458016") =
  "94eaa4aa30a57137ddf09b97b25618a20a13e2f10fa5bf8161a879cc2ae797a6b4cf2d9df31debb9905ccfec97de605d21c61ab8531b7f3c9da5f03931f8a0642de48211f5f52ffea10f392a047669985da454a28f080961a6c2b62daa17f33cd60a4971f48d2d909394a55f48117ace43d708e6b77d3dc46d8bc017d4d1abb77b7428c042b06f2f99d8d07c9879d99600127a31985f1099bbd7d6c1519ede8f5eeb4a610b349ac01ea2350691756bd105c974a53eddb35d1d4100b012e522ab41f4c5f2fde76b59cb8b96d885cfe4080d1328a0d636cc0edc05800b76acca8fef672084d1f52a8bbd8e0993320992c7ffbae17c408441e0ee883fc8a8b05e22f5ff7f8d1b48c74c468c467a028f09fd7ce91109a570a2d5c4d5f4fa18c5dd3e4562afe24ef771901f59af645898acef088abae07e92d52eb2de55045bb1b7c4164ef2d7a6cac15eeb926d7ea2f08b66e1f759f3aee44614725aa3c7482b30844c143ff87b53f1e583c501257dddd096b81268daa303f17234c2333541f0bb8e190648c5807c866d7193228609adb948686f7de294a802cc38f7fe5208f5ea3196d0167b9bdd02f0d2a5221ca508f893af5c4b4bb9f4f520fd84289b3dbe7e61497a7e2a584037ea637b6981127174af57b471df4b2768fd79c1540fb3edf2ea22cb69bec0cf8d933d9c6fdd645e850591cca3d62c0c"

(* ---- 128-EIA3 ---- *)
Eia3(key, count, bearer, dir, msg, nbits) ==
  H!FromBytes(M!Eia3(H!ToBytes(key), M!Eia3IV(H!ToBytes(count), bearer, dir), H!ToBytes(msg), nbits))
ASSUME Eia3("47054125561eb2dda94059da05097850", "561eb2dd", 20, 0, "000000000000000000000000", 90) = "6719a088"   \* test set 2
ASSUME Eia3("00000000000000000000000000000000", "00000000", 0, 0,
  "00000000", 1) = "c8a9595e"
ASSUME Eia3("c9e6cec4607c72db000aefa88385ab0a", "a94059da", 10, 1,
  "983b41d47d780c9e1ad11d7eb70391b1de0b35da2dc62f83e7b78d6306ca0ea07e941b7be91348f9fcb170e2217fecd97f9f68adb16e5d7d21e569d280ed775cebde3f4093c5388100000000", 577) = "fae8ff0b"
ASSUME Eia3("6b8b08ee79e0b5982d6d128ea9f220cb", "561eb2dd", 28, 0,
  "5bad724710ba1c56d5a315f8d40f6e093780be8e8de07b6992432018e08ed96a5734af8bad8a575d3a1f162f85045cc770925571d9f5b94e454a77c16e72936bf016ae157499f0543b5d52caa6dbeab697d2bb73e41b8075dce79b4b86044f661d4485a543dd78606e0419e8059859d3cb2b67ce0977603f81ff839e331859544cfbc8d00fef1a4c8510fb547d6b06c611ef44f1bce107cfa45a06aab360152b28dc1ebe6f7fe09b0516f9a5b02a1bd84bb0181e2e89e19bd8125930d178682f3862dc51b636f04e720c47c3ce51ad70d94b9b2255fbae906549f499f8c6d39947ed5e5df8e2def113253e7b08d0a76b6bfc68c812f375c79b8fe5fd85976aa6d46b4a2339d8ae5147f680fbe70f978b38effd7b2f7866a22554e193a94e98a68b74bd25bb2b3f5fb0a5fd59887f9ab68159b7178d5b7b677cb546bf41eadca216fc10850128f8bdef5c8d89f96afa4fa8b54885565ed838a950fee5f1c3b0a4f6fb71e54dfd169e82cecc7266c850e67c5ef0ba960f5214060e71eb172a75fc1486835cbea6534465b055c96a72e4105224182325d830414b40214daa8091d2e0fb010ae15c6de90850973bdf1e423be148a237b87a0c9f34d4b47605b803d743a86a90399a4af396d3a1200a62f3d9507962e8e5bee6d3da2bb3f7237664ac7a292823900bc63503b29e80d63f6067bf8e1716ac25beba350deb62a99fe03185eb4f69937ecd387941fda544ba67db0911774938b01827bcc69c92b3f772a9d2859ef003398b1f6bbad7b574f7989a1d10b2df798e0dbf30d6587464d24878cd00c0eaee8a1a0cc753a27979e11b41db1de3d5038afaf49f5c682c3748d8a3a9ec54e6a371275f1683510f8e4f90938f9ab6e134c2cfdf4841cba88e0cff2b0bcc8e6adcb71109b5198fecf1bb7e5c531aca50a56a8a3b6de59862d41fa113d9cd957808f08571d9a4bb792af271f6cc6dbb8dc7ec36e36be1ed308164c31c7c0afc541c000000", 5670) = "0ca12792"

(* ---- ZUC-256 MAC: (key, iv) all-zero / all-one; message 400 zero bits / 4000 bits of 0x11 ---- *)
Mac256(kb, mb, mlen, tagBytes) == H!FromBytes(M!Mac256(Rep(kb, 32), Rep(kb, 23), tagBytes, Rep(mb, mlen), 8 * mlen))
ASSUME Mac256(0, 0, 50, 4) = "9b972a74"
ASSUME Mac256(0, 0, 50, 8) = "673e54990034d38c"
ASSUME Mac256(0, 0, 50, 16) = "d85e54bbcb9600967084c952a1654b26"
ASSUME Mac256(0, 17, 500, 4) = "8754f5cf"
ASSUME Mac256(0, 17, 500, 8) = "130dc225e72240cc"
ASSUME Mac256(0, 17, 500, 16) = "df1e8307b31cc62beca1ac6f8190c22f"
ASSUME Mac256(255, 0, 50, 4) = "1f3079b4"
ASSUME Mac256(255, 0, 50, 8) = "8c71394d39957725"
ASSUME Mac256(255, 0, 50, 16) = "a35bb274b567c48b28319f111af34fbd"
ASSUME Mac256(255, 17, 500, 4) = "5c7c8b88"
ASSUME Mac256(255, 17, 500, 8) = "ea1dee544bb6223b"
ASSUME Mac256(255, 17, 500, 16) = "3a83b554be408ca5494124ed9d473205"

(* ---- the window form used by ZucMac against the literal bit-string reading of the definitions ---- *)
(* keystream and message as sequences of bits; a window is a SubSeq; tags are bit strings             *)
KBits(ws) == SubSeq([i \in 1..(32 * Len(ws)) |-> LET h == ws[((i - 1) \div 32) + 1][(((i - 1) % 32) \div 16) + 1]
                                                 IN  (h \div Z!P2(15 - ((i - 1) % 16))) % 2], 1, 32 * Len(ws))
XorB(a, b) == SubSeq([i \in 1..Len(a) |-> (a[i] + b[i]) % 2], 1, Len(a))
FoldB(kb, msg, nbits, t, shift, base) ==
  FoldLeft(LAMBDA acc, k : IF M!Bit(msg, k - 1) = 1 THEN XorB(acc, SubSeq(kb, shift + k, shift + k - 1 + t)) ELSE acc,
           base, [k \in 1..nbits |-> k])
BitsToBytes(bs) == [k \in 1..(Len(bs) \div 8) |->
   bs[8*k-7] * 128 + bs[8*k-6] * 64 + bs[8*k-5] * 32 + bs[8*k-4] * 16 + bs[8*k-3] * 8 + bs[8*k-2] * 4 + bs[8*k-1] * 2 + bs[8*k]]
Eia3Lit(ws, msg, nbits) ==
  LET kb == KBits(ws)
      L  == ((nbits + 31) \div 32) + 2
      t  == FoldB(kb, msg, nbits, 32, 0, Rep(0, 32))
  IN  BitsToBytes(XorB(XorB(t, SubSeq(kb, nbits + 1, nbits + 32)), SubSeq(kb, (32 * (L - 1)) + 1, 32 * L)))
Mac256Lit(ws, msg, nbits, t) ==
  LET kb == KBits(ws)
      tg == FoldB(kb, msg, nbits, t, t, SubSeq(kb, 1, t))
  IN  BitsToBytes(XorB(tg, SubSeq(kb, t + nbits + 1, nbits + (2 * t))))
R == INSTANCE Prng
KS1 == Z!Keystream128(R!Bytes(5, 1, 16), R!Bytes(5, 2, 16), 16)
KS2 == Z!Keystream256Mac(R!Bytes(5, 3, 32), R!Bytes(5, 4, 23), 8, 16)
Msg == R!Bytes(5, 5, 32)
ASSUME \A n \in 0..200 : M!Eia3OnKS(KS1, Msg, n) = Eia3Lit(KS1, Msg, n)
ASSUME \A n \in 0..200 : \A t \in {32, 64, 128} : M!Mac256OnKS(KS2, Msg, n, t) = Mac256Lit(KS2, Msg, n, t)

(* ---- the 23-byte IV of ZUC-256 is read as the 184-bit string IV0..IV16 (8 bits each) || IV17..IV24 (6 bits each) ---- *)
(* bytes 17..22 = 04 20 c4 14 61 c8 are the 6-bit values 1, 2, 3, 4, 5, 6, 7, 8                                         *)
ASSUME LET iv == Rep(0, 17) \o <<4, 32, 196, 20, 97, 200>>
       IN  \A j \in 17..24 : Z!IV6(iv, j) = j - 16
ASSUME PrintT("KAT_ZUC ok")
VARIABLE x
Init == x = 0
Next == UNCHANGED x
=============================================================================
