CONSTANTS Seed = 1
 Keys = {1, 2, 3}
 Nonces = {1, 2, 3, 4}
 OutFile = "/tmp/c06rec.ndjson"
SPECIFICATION Spec
INVARIANTS TypeOK
CHECK_DEADLOCK FALSE
