package rt

import (
	"crypto/cipher"
	"hash"

	"github.com/emmansun/gmsm/cbcmac"
	"github.com/emmansun/gmsm/padding"
	"github.com/emmansun/gmsm/sm4"
)

type macObj interface {
	Size() int
	MAC(src []byte) []byte
}

func padFunc(s string) padding.NewPaddingFunc {
	switch s {
	case "m2":
		return padding.NewISO9797M2Padding
	case "m3":
		return padding.NewISO9797M3Padding
	case "pkcs7":
		return padding.NewPKCS7Padding
	case "x923":
		return padding.NewANSIX923Padding
	}
	panic("harness: unknown padding " + s)
}

func blockCreator(ciph string) func(key []byte) (cipher.Block, error) {
	switch ciph {
	case "sm4":
		return sm4.NewCipher
	case "toy8", "toy16", "toy":
		return func(key []byte) (cipher.Block, error) { return NewToy(key), nil }
	}
	panic("harness: unknown cipher " + ciph)
}

// cbcmac family (C19): one MAC object, a history of MAC / Write / Sum / Reset calls.
func init() {
	toySelfTest()
	Register("cbcmac", func(t *Trace, env *Env) *Mismatch {
		var m macObj
		var h hash.Hash
		size := 0
		for i, st := range t.Steps {
			At(i)
			switch st.Str("op") {
			case "new":
				cr := blockCreator(st.Str("ciph"))
				k1, k2 := st.Hex("key1"), st.Hex("key2")
				size = st.Int("size")
				pf := padFunc(st.Str("pad"))
				b1, err := cr(k1)
				if err != nil {
					panic("harness: cipher creation failed: " + err.Error())
				}
				switch st.Int("alg") {
				case 1:
					m = cbcmac.NewCBCMACWithPadding(b1, size, pf)
				case 2:
					m = cbcmac.NewEMACWithPadding(cr, k1, k2, size, pf)
				case 3:
					m = cbcmac.NewANSIRetailMACWithPadding(cr, k1, k2, size, pf)
				case 4:
					m = cbcmac.NewMACDESWithPadding(cr, k1, k2, size, pf)
				case 5:
					c := cbcmac.NewCMAC(b1, size)
					m = c
					h = hash.Hash(c)
				case 6:
					m = cbcmac.NewLMACWithPadding(cr, k1, size, pf)
				case 7:
					m = cbcmac.NewTRCBCMAC(b1, size)
				case 8:
					m = cbcmac.NewCBCRMAC(b1, size)
				default:
					panic("harness: unknown MAC algorithm")
				}
				if m.Size() != size {
					return &Mismatch{Step: i, Kind: "mismatch", Got: itoa(m.Size()), Exp: itoa(size), Note: "Size()"}
				}
			case "mac":
				raw := st.Hex("msg")
				// the message is a window of a larger caller-owned buffer with arbitrary contents behind it
				big := make([]byte, len(raw)+40)
				for j := range big {
					big[j] = 0xEE
				}
				msg := big[:len(raw)]
				copy(msg, raw)
				keep := append([]byte(nil), msg...)
				tag := m.MAC(msg)
				if mm := Diff(i, tag, st.Hex("exp")); mm != nil {
					return mm
				}
				// Observation, not a verdict: with padding method 3 and spare capacity behind the message,
				// MAC pads in place and overwrites the caller's message bytes (append semantics of Pad).
				// C19 does not speak about the input buffer, so this is not compared.
				_ = keep
				// the tag depends on (key, message) only - not on how much caller memory lies behind the message
				for _, bs := range []int{8, 16} {
					for _, w := range CapWindows(raw, bs) {
						if mm := Diff(i, m.MAC(w), st.Hex("exp")); mm != nil {
							mm.Note = "message handed over as a slice with capacity " + itoa(cap(w)) + " (length " + itoa(len(w)) + ")"
							return mm
						}
					}
				}
			case "write":
				d := st.HexMut("data")
				n, err := h.Write(d)
				if err != nil || n != len(d) {
					return &Mismatch{Step: i, Kind: "mismatch", Got: "short write", Exp: "full write"}
				}
				Reuse(d) // Write must not retain p
				// every transition is observed: the tag of what has been absorbed so far (Sum is pure)
				if st.Has("exp") {
					if mm := Diff(i, h.Sum(nil), st.Hex("exp")); mm != nil {
						mm.Note = "tag after this write"
						return mm
					}
				}
			case "sum":
				prefix := []byte{0xAA, 0xBB}
				out := h.Sum(prefix)
				if mm := Diff(i, out, append([]byte{0xAA, 0xBB}, st.Hex("exp")...)); mm != nil {
					return mm
				}
				if mm := SumRoomy(i, h, []byte{0xAA, 0xBB}, append([]byte{0xAA, 0xBB}, st.Hex("exp")...)); mm != nil {
					return mm
				}
			case "reset":
				h.Reset()
				if st.Has("exp") {
					if mm := Diff(i, h.Sum(nil), st.Hex("exp")); mm != nil {
						mm.Note = "tag after reset"
						return mm
					}
				}
			default:
				panic("harness: cbcmac: unknown op " + st.Str("op"))
			}
		}
		return nil
	})
}

func itoa(i int) string {
	if i == 0 {
		return "0"
	}
	neg := i < 0
	if neg {
		i = -i
	}
	var b []byte
	for i > 0 {
		b = append([]byte{byte('0' + i%10)}, b...)
		i /= 10
	}
	if neg {
		b = append([]byte{'-'}, b...)
	}
	return string(b)
}
