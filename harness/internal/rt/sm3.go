package rt

import (
	"encoding"
	"encoding/binary"
	"hash"

	"github.com/emmansun/gmsm/kdf"
	"github.com/emmansun/gmsm/sm3"
)

// sm3hash family (C01): histories on two running hash objects, one exported state.
func init() {
	Register("sm3hash", func(t *Trace, env *Env) *Mismatch {
		objs := map[int]hash.Hash{1: sm3.New(), 2: sm3.New()}
		var snap []byte
		for i, st := range t.Steps {
			At(i)
			switch st.Str("op") {
			case "new":
			case "write":
				d := st.HexMut("data")
				keep := append([]byte(nil), d...)
				n, err := objs[st.Int("o")].Write(d)
				if err != nil || n != len(d) {
					return &Mismatch{Step: i, Kind: "mismatch", Got: "short write or error", Exp: "full write"}
				}
				if mm := Diff(i, d, keep); mm != nil {
					mm.Note = "Write modified its argument"
					return mm
				}
				Reuse(d) // Write must not retain p
				if st.Has("exp") {
					if mm := Diff(i, objs[st.Int("o")].Sum(nil), st.Hex("exp")); mm != nil {
						mm.Note = "digest after this write"
						return mm
					}
				}
			case "sum":
				out := objs[st.Int("o")].Sum(st.HexMut("prefix"))
				if mm := Diff(i, out, st.Hex("exp")); mm != nil {
					return mm
				}
				if mm := SumRoomy(i, objs[st.Int("o")], st.Hex("prefix"), st.Hex("exp")); mm != nil {
					return mm
				}
			case "reset":
				objs[st.Int("o")].Reset()
				if st.Has("exp") {
					if mm := Diff(i, objs[st.Int("o")].Sum(nil), st.Hex("exp")); mm != nil {
						mm.Note = "digest after reset"
						return mm
					}
				}
			case "marshal":
				b, err := objs[st.Int("o")].(encoding.BinaryMarshaler).MarshalBinary()
				if err != nil {
					return &Mismatch{Step: i, Kind: "errmismatch", Got: "error: " + err.Error(), Exp: "ok"}
				}
				snap = b
			case "addlen":
				// the exported state ends with the 64-bit byte count: stand in for a stream that is `delta` bytes longer
				if len(snap) < 8 {
					panic("harness: sm3hash: addlen without a snapshot")
				}
				n := binary.BigEndian.Uint64(snap[len(snap)-8:]) + binary.BigEndian.Uint64(st.Hex("delta"))
				snap = append([]byte(nil), snap...)
				binary.BigEndian.PutUint64(snap[len(snap)-8:], n)
			case "unmarshal":
				if err := objs[st.Int("o")].(encoding.BinaryUnmarshaler).UnmarshalBinary(snap); err != nil {
					return &Mismatch{Step: i, Kind: "errmismatch", Got: "error: " + err.Error(), Exp: "ok"}
				}
				if st.Has("exp") {
					if mm := Diff(i, objs[st.Int("o")].Sum(nil), st.Hex("exp")); mm != nil {
						mm.Note = "digest after import"
						return mm
					}
				}
			case "oneshot":
				s := sm3.Sum(st.Hex("data"))
				if mm := Diff(i, s[:], st.Hex("exp")); mm != nil {
					return mm
				}
			default:
				panic("harness: sm3hash: unknown op " + st.Str("op"))
			}
		}
		return nil
	})
	Register("sm3kdf", func(t *Trace, env *Env) *Mismatch {
		for i, st := range t.Steps {
			At(i)
			z, n := st.Hex("z"), st.Int("n")
			var out []byte
			switch st.Str("via") {
			case "sm3":
				out = sm3.Kdf(z, n)
			case "pkg":
				out = kdf.Kdf(sm3.New, z, n)
			case "iface":
				out = sm3.New().(kdf.KdfInterface).Kdf(z, n)
			case "marsh":
				out = kdf.Kdf(func() hash.Hash { return &marshOnlyHash{sm3.New()} }, z, n)
			case "plain":
				out = kdf.Kdf(func() hash.Hash { return plainHash{sm3.New()} }, z, n)
			default:
				panic("harness: sm3kdf: unknown via")
			}
			if mm := Diff(i, out, st.Hex("exp")); mm != nil {
				return mm
			}
		}
		return nil
	})
}

// plainHash hides every optional interface of the wrapped hash (KdfInterface, state export): kdf.Kdf takes its plain loop.
type plainHash struct{ hash.Hash }

// marshOnlyHash hides KdfInterface but forwards the state export/import: kdf.Kdf takes its absorb-once branch.
type marshOnlyHash struct{ hash.Hash }

func (h *marshOnlyHash) MarshalBinary() ([]byte, error) {
	return h.Hash.(encoding.BinaryMarshaler).MarshalBinary()
}
func (h *marshOnlyHash) UnmarshalBinary(b []byte) error {
	return h.Hash.(encoding.BinaryUnmarshaler).UnmarshalBinary(b)
}
