package rt

import (
	"bytes"
	"crypto/cipher"

	gcipher "github.com/emmansun/gmsm/cipher"

	"gmsmverif/internal/guard"
)

// gslice returns a guard-paged copy of b that ends exactly at an inaccessible page (cap == len).
func gslice(b []byte, extraCap int, frees *[]*guard.Buf) []byte {
	g := guard.Alloc(len(b)+extraCap, true)
	*frees = append(*frees, g)
	copy(g.B, b)
	return g.B[:len(b):len(b)+extraCap]
}

// aead family (C04): seal -> (tamper) -> open on one AEAD. Destination arrangements: a prefix that
// must be preserved, a fresh destination, or in place (dst = input[:0]). After a refused Open the
// caller-owned output region must hold no plaintext (all zero, or never written).
func init() {
	Register("aead", func(t *Trace, env *Env) *Mismatch {
		var a cipher.AEAD
		var lastPT []byte
		for i, st := range t.Steps {
			At(i)
			switch st.Str("op") {
			case "new":
				b, err := wrappedCreator("sm4", env.Wrap)(st.Hex("key"))
				if err != nil {
					panic("harness: cipher creation failed: " + err.Error())
				}
				nlen, tlen := st.Int("nlen"), st.Int("tlen")
				switch st.Str("alg") {
				case "gcm":
					switch {
					case nlen == 12 && tlen == 16:
						a, err = cipher.NewGCM(b)
					case tlen == 16:
						a, err = cipher.NewGCMWithNonceSize(b, nlen)
					case nlen == 12:
						a, err = cipher.NewGCMWithTagSize(b, tlen)
					default:
						panic("harness: aead: GCM shape not constructible through crypto/cipher")
					}
				case "ccm":
					a, err = gcipher.NewCCMWithNonceAndTagSize(b, nlen, tlen)
				default:
					panic("harness: aead: unknown algorithm")
				}
				if err != nil {
					panic("harness: AEAD construction failed: " + err.Error())
				}
				// siblings: further AEADs of OTHER shapes made from the same Block afterwards (and dropped). Objects derived from one
				// parent are independent of each other: the one under test keeps its nonce and tag size and its behaviour
				for _, sh := range [][2]int{{12, 12}, {16, 16}, {12, 16}, {13, 14}} {
					if sh[0] == nlen && sh[1] == tlen {
						continue
					}
					switch {
					case st.Str("alg") == "ccm":
						if sh[0] <= 13 && sh[1]%2 == 0 {
							_, _ = gcipher.NewCCMWithNonceAndTagSize(b, sh[0], sh[1])
						}
					case sh[0] == 12:
						_, _ = cipher.NewGCMWithTagSize(b, sh[1])
					case sh[1] == 16:
						_, _ = cipher.NewGCMWithNonceSize(b, sh[0])
					}
				}
				if a.NonceSize() != nlen || a.Overhead() != tlen {
					return &Mismatch{Step: i, Kind: "mismatch", Got: itoa(a.NonceSize()) + "/" + itoa(a.Overhead()), Exp: itoa(nlen) + "/" + itoa(tlen), Note: "NonceSize/Overhead"}
				}
			case "seal":
				nonce, pt, aad, prefix := st.Hex("nonce"), st.Hex("pt"), st.Hex("aad"), st.Hex("prefix")
				lastPT = pt
				keepN, keepA := bytes.Clone(nonce), bytes.Clone(aad)
				var out []byte
				var frees []*guard.Buf
				nonce, aad = gslice(nonce, 0, &frees), gslice(aad, 0, &frees)
				if st.Bool("inplace") {
					buf := gslice(pt, a.Overhead(), &frees)
					out = a.Seal(buf[:0], nonce, buf, aad)
				} else {
					dst := gslice(prefix, len(pt)+a.Overhead(), &frees)
					keepP := bytes.Clone(pt)
					pt = gslice(pt, 0, &frees)
					out = a.Seal(dst, nonce, pt, aad)
					if !bytes.Equal(pt, keepP) {
						return &Mismatch{Step: i, Kind: "mismatch", Got: "plaintext argument modified", Exp: "unchanged"}
					}
				}
				mm := Diff(i, out, st.Hex("exp"))
				for _, g := range frees {
					if mm == nil && !g.CanaryIntact() {
						mm = &Mismatch{Step: i, Kind: "overrun", Got: "bytes outside the slices were written by Seal", Exp: "untouched"}
					}
				}
				if mm == nil {
					// the same call with a roomy destination (a frame buffer with bytes of the caller behind the place of the
					// result): Seal appends, so everything behind the slice it returns is still the caller's
					const room = 48
					var full, out2 []byte
					if st.Bool("inplace") {
						buf := gslice(keepPT(lastPT), a.Overhead()+room, &frees)
						full = buf[:cap(buf)]
						fillEE(full[len(buf):])
						out2 = a.Seal(buf[:0], nonce, buf, aad)
					} else {
						dst := gslice(prefix, len(lastPT)+a.Overhead()+room, &frees)
						full = dst[:cap(dst)]
						fillEE(full[len(dst):])
						out2 = a.Seal(dst, nonce, gslice(lastPT, 0, &frees), aad)
					}
					if mm = Diff(i, out2, st.Hex("exp")); mm != nil {
						mm.Note = "destination with spare capacity"
					} else if tail := full[len(out2):]; !allEE(tail) {
						mm = &Mismatch{Step: i, Kind: "overrun", Got: "bytes behind the returned slice (spare capacity of dst): " + hx(tail), Exp: "untouched (0xEE fill)", Note: "Seal only appends"}
					}
				}
				nonce, aad = bytes.Clone(nonce), bytes.Clone(aad)
				for _, g := range frees {
					g.Free()
				}
				if mm != nil {
					return mm
				}
				if !bytes.Equal(nonce, keepN) || !bytes.Equal(aad, keepA) {
					return &Mismatch{Step: i, Kind: "mismatch", Got: "nonce or AAD argument modified: nonce " + hx(nonce) + " aad " + hx(aad), Exp: "unchanged: nonce " + hx(keepN) + " aad " + hx(keepA)}
				}
			case "open":
				nonce, ct, aad, prefix := st.Hex("nonce"), st.Hex("ct"), st.Hex("aad"), st.Hex("prefix")
				ptLen := len(ct) - a.Overhead()
				if ptLen < 0 {
					ptLen = 0
				}
				var out, region []byte
				var err error
				var frees []*guard.Buf
				defer func() {
					for _, g := range frees {
						g.Free()
					}
				}()
				nonce, aad = gslice(nonce, 0, &frees), gslice(aad, 0, &frees)
				if st.Bool("inplace") {
					buf := gslice(ct, 0, &frees)
					out, err = a.Open(buf[:0], nonce, buf, aad)
					region = buf[:ptLen]
				} else {
					dst := gslice(prefix, ptLen, &frees)
					full := dst[:cap(dst)]
					for j := len(prefix); j < len(full); j++ {
						full[j] = 0xEE
					}
					ct = gslice(ct, 0, &frees)
					out, err = a.Open(dst, nonce, ct, aad)
					region = full[len(prefix) : len(prefix)+ptLen]
				}
				for _, g := range frees {
					if !g.CanaryIntact() {
						return &Mismatch{Step: i, Kind: "overrun", Got: "bytes outside the slices were written by Open", Exp: "untouched"}
					}
				}
				if out != nil {
					out = bytes.Clone(out)
				}
				region = bytes.Clone(region)
				if mm := DiffErr(i, err, !st.Bool("ok")); mm != nil {
					return mm
				}
				if err == nil {
					if mm := Diff(i, out, st.Hex("exp")); mm != nil {
						return mm
					}
				} else {
					if out != nil {
						return &Mismatch{Step: i, Kind: "mismatch", Got: "non-nil result with an error", Exp: "nil"}
					}
					// no plaintext released: the region is zeroed (or, for a fresh destination, never written)
					zero := true
					untouched := !st.Bool("inplace")
					for _, v := range region {
						if v != 0 {
							zero = false
						}
						if v != 0xEE {
							untouched = false
						}
					}
					if !zero && !untouched && len(region) > 0 {
						return &Mismatch{Step: i, Kind: "mismatch", Got: "output region after refused Open: " + hx(region), Exp: "zeroed", Note: "plaintext released: " + boolStr(len(lastPT) >= len(region) && bytes.Equal(region, lastPT[:len(region)]))}
					}
				}
			default:
				panic("harness: aead: unknown op " + st.Str("op"))
			}
		}
		return nil
	})
}

func keepPT(b []byte) []byte { return b }

func fillEE(b []byte) {
	for i := range b {
		b[i] = 0xEE
	}
}

func allEE(b []byte) bool {
	for _, v := range b {
		if v != 0xEE {
			return false
		}
	}
	return true
}

func boolStr(b bool) string {
	if b {
		return "true"
	}
	return "false"
}
