"""Development driver for the exact-GT fragment of C09 (checklib/gt.py) on its own: KAT_Pairing, MC_C09gt, replay under cfgs.K_EC.
Run with VERIF_EVIDENCE_DIR=<scratch> ./check c09gt_dev quick|thorough  (the evidence file is C09GT_DEV.json there).
Not a registered property: C09 proper is checklib/props/c09.py, which calls gt.jobs / gt.replay itself."""
import os
from .. import core, cfgs, gt


def run(ctx):
    if not os.environ.get("VERIF_EVIDENCE_DIR") and "VERIF_REPO" not in os.environ:
        raise core.Infra("c09gt_dev: set VERIF_EVIDENCE_DIR to a scratch directory (this driver must not write into evidence/)")
    ctx.kats(gt.KATS)
    jobs, outs = gt.jobs(ctx)
    ctx.tlc_many(jobs, parallel=6)
    gt.replay(ctx, outs, cfgs.K_EC)
    return ctx.finish(rule="one case per TLC transition of MC_C09gt: programs of G1/G2 base multiplications, pairings and GT operations with exact expected encodings; "
                           "GT decoder cases; each replayed under 5 field-arithmetic backends; distinct = distinct programs / decoder cases")
