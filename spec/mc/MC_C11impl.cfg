CONSTANTS R = 4
 Buckets = {0, 1, 4, 5, 8, 12}
 Lens = {0, 1, 3, 4, 5, 7, 8, 9, 13}
 Offs = {0, 1, 3, 4, 5, 7, 8, 9, 12, 16, 17}
 MaxOps = 4
 MaxPos = 60
SPECIFICATION Spec
VIEW View
INVARIANTS Coherent XAligned XLenRange UsedAligned Checkpoints NoBadIndex
PROPERTIES Refines
CHECK_DEADLOCK FALSE
