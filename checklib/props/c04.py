"""C04 SM4-GCM / SM4-CCM: MC_C04 (seal -> tamper -> open; every reply incl. each rejection computed by Aead.tla) + replay."""
import os
from .. import core, cfgs

S = core.tla_set


def q(xs):
    return S('"%s"' % x for x in xs)


def run(ctx):
    ctx.kats(["KAT_SM4", "KAT_Aead", "GF2Agree"], seed_const=("GF2Agree", "BigNatAgree"))
    out = os.path.join(ctx.scratch, "c04.ndjson")
    quick = ctx.tier == "quick"
    if quick:
        plens = [0, 1, 3, 15, 16, 17, 33, 65, 129]
        alens = [0, 1, 13, 16, 17, 33, 65]
        gn, gt = [1, 12, 16, 17], [12, 15]
        cn, ct = [7, 12, 13], [4, 16]
        pre = [0, 5, 99]
        wrap = [0, 1, 4]
        tam = 16
    else:
        plens = [0, 1, 15, 16, 17, 31, 32, 33, 47, 48, 63, 64, 65, 127, 128, 129, 255, 256, 257]
        alens = [0, 1, 13, 15, 16, 17, 31, 32, 33, 47, 48, 63, 64, 65, 127, 128, 129, 255, 256, 257]
        gn, gt = [1, 7, 8, 11, 12, 13, 16, 17, 32, 60], [12, 13, 14, 15]
        cn, ct = [7, 8, 9, 10, 11, 12, 13], [4, 6, 8, 10, 12, 14, 16]
        pre = [0, 5, 99]
        wrap = [0, 1, 2, 3, 4, 5]
        tam = 33
    jobs, outs = [], []

    def job(name, **kw):
        o = "%s.%s" % (out, name)
        outs.append(o)
        base = dict(Seed=ctx.seed, Algs=q([]), GcmNonceLens=S([]), GcmTagLens=S([]), CcmNonceLens=S([]), CcmTagLens=S([]), PLens=S(plens), ALens=S(alens),
                    Diagonal="TRUE" if quick else "FALSE", TamperAllMax=tam, WrapJs=S([]), Prefixes=S(pre), OutFile=core.tla_str(o))
        base.update(kw)
        jobs.append(dict(module="MC_C04", name="MC_C04_" + name, view="View", constants=base, invariants=("SealAppendsOnly",), workers=4, timeout=3300))
    # the fused GHASH+CTR bulk loops (96-bit nonce, 16-byte tag): every residue class of the 16/64/128-byte steps
    bulk = sorted(set(plens + [31, 47, 63, 79, 95, 111, 113, 127, 128, 241, 255, 256]))
    for i, n in enumerate(gn):
        job("gcm_n%d" % n, Algs=q(["gcm"]), GcmNonceLens=S([n]), WrapJs=S(wrap if n == 16 else []), Diagonal="TRUE" if (quick or n not in (12, 16)) else "FALSE",
            PLens=S(bulk if n == 12 else plens), TamperAllMax=(tam if n != 12 or not quick else 3))
    job("gcm_tags", Algs=q(["gcm"]), GcmTagLens=S(gt), Diagonal="TRUE")
    for n in cn:
        if quick:
            job("ccm_n%d" % n, Algs=q(["ccm"]), CcmNonceLens=S([n]), CcmTagLens=S(ct if n in (7, 13) else [ct[0], ct[-1]]), Diagonal="TRUE")
        else:
            # every tag size on the diagonal; the full length product (with every-byte tampering up to 33 bytes) for the extreme tag sizes of the extreme nonce sizes
            job("ccm_n%d" % n, Algs=q(["ccm"]), CcmNonceLens=S([n]), CcmTagLens=S(ct), Diagonal="TRUE", TamperAllMax=17)
            if n in (7, 13):
                for t in (4, 16):
                    job("ccm_n%d_t%d_full" % (n, t), Algs=q(["ccm"]), CcmNonceLens=S([n]), CcmTagLens=S([t]), Diagonal="FALSE")
    # RFC 3610 AAD length encoding seam (2 octets below 2^16-2^8, 0xFFFE + 4 octets from there on)
    job("ccm_longaad", Algs=q(["ccm"]), CcmNonceLens=S([12]), CcmTagLens=S([16]), PLens=S([17]), ALens=S([65280] if quick else [65279, 65280, 65535, 65536]),
        TamperAllMax=0, Prefixes=S([0]), Diagonal="FALSE")
    ctx.tlc_many(jobs, parallel=6)
    core.cat_files(outs, out)
    cf = cfgs.k_sm4(("native", "blockonly"), full=True)
    ctx.replay_all(out, cf)
    ctx.binding_guard(out, cf[0])
    ctx.sample_traces(out)

    def key(t):
        n = t["steps"][0]
        s = t["steps"][1]
        last = t["steps"][-1]
        return (n["alg"], n["nlen"], n["tlen"], len(s["pt"]) // 2, len(s["aad"]) // 2, len(s["prefix"]) // 2, s["inplace"], last["op"],
                last.get("ok"), last.get("ct", "")[-8:] if last["op"] == "open" else "", len(last.get("ct", "")))
    ctx.count_distinct(out, key)
    ctx.assumptions += ["plaintext/AAD up to 257 bytes (CCM AAD 65280 once, thorough); nonce sizes and tag sizes as constructible through crypto/cipher (GCM: non-96-bit nonce with 16-byte tag, or 96-bit nonce with 12..16-byte tag)",
                        "tampering = single-byte alterations (two masks) at every position for short messages, a stride sample for long ones, and truncations; multi-byte forgeries are not explored",
                        "after a refused Open the output region must be all zero or (fresh destination) never written"]
    return ctx.finish(rule="one case per TLC transition of MC_C04: (algorithm, nonce/tag/plaintext/AAD lengths, destination arrangement) x {seal, open intact, open with one tampered byte of nonce/aad/ciphertext/tag, open truncated}; replayed in 7 CPU configurations x 2 wrappers (fused asm GCM / generic GCM and CCM over the block); distinct = distinct such shapes")
