------------------------------- MODULE MC_C08 -------------------------------
(* C08: bounded instance of obj/Sm2Kx with emission (family "sm2kx").          *)
(*                                                                            *)
(* A scenario k fixes (dA, dB, rA, rB) by scalar class, the identity pair, the  *)
(* key length and which side produces its optional confirmation.  The seven     *)
(* columns are laid out as an orthogonal array of strength 2 over GF(7)          *)
(* (rows k = i + 7 j + 49 blk; column with multiplier m has level (i + m j) mod 7, *)
(* multipliers rotated by blk): every block of 49 scenarios contains every pair    *)
(* of levels of every two columns (every scalar class against every other, every   *)
(* class against every key length, every identity pair against every key length...).*)
(* From each scenario TLC explores the honest run and, at every protocol point,     *)
(* every adversary action j with (k + j) % AdvMod = 0 (AdvMod = 1: all), at most    *)
(* MaxAdv per run.  A run ends when somebody aborts or B completes; the action      *)
(* that ends it emits the whole run: every call, every message as delivered and     *)
(* every reply the specification computes, for both implementations.                *)
EXTENDS Sm2Kx, TLC, Json
CONSTANTS Seed, Ids, AdvMod, MaxAdv, LongAt, LongLen, OutFile
Rn == INSTANCE Prng
Hx == INSTANCE Hex
Em == INSTANCE Emit
VARIABLES sc, hist
vars == <<party, net, adv, reply, sc, hist>>
View == <<party, net, adv, sc>>

(* ------------------------------------------------------------ scenarios *)
NN == S!N
Two127 == S!TwoW
Col(k, m) == LET i == k % 7
                 j == (k \div 7) % 7
                 b == k \div 49
             IN (i + (((m + b) % 7) * j)) % 7
(* scalar classes: 1, 2, max, 2^127 - 1, 2^127, 2^127 + 1, pseudo-random in [1, n-2].  max = n-2 for a static *)
(* key; for an ephemeral key n-1 in even scenarios and n-2 in odd ones (package ecdh holds r in [1, n-2])       *)
Rand(k, lab) == BN!Add(BN!Mod(BN!Norm(SubSeq(Rn!Bytes(Seed, 1000 + (10 * k) + lab, 40), 1, 40)), BN!Sub(NN, <<2>>)), <<1>>)
Scalar(k, lab, eph) ==
  LET c == Col(k, lab)
  IN IF c = 0 THEN <<1>>
     ELSE IF c = 1 THEN <<2>>
     ELSE IF c = 2 THEN (IF eph /\ (k % 2) = 0 THEN BN!Sub(NN, <<1>>) ELSE BN!Sub(NN, <<2>>))
     ELSE IF c = 3 THEN BN!Sub(Two127, <<1>>)
     ELSE IF c = 4 THEN Two127
     ELSE IF c = 5 THEN BN!Add(Two127, <<1>>)
     ELSE Rand(k, lab)
ScRA(k) == Scalar(k, 2, TRUE)
ScRB(k) == Scalar(k, 3, TRUE)
(* special scenarios: the static key that makes the implicit signature t = (d + x~ r) mod n vanish, so that  *)
(* V = [t](...) = O and the party must abort: k = 10000 at the responder, k = 10001 at the initiator          *)
TZeroD(r) == LET R == S!Ec!BaseMul(r)
                 d == BN!NegMod(BN!MulMod(S!XBar(R[1]), r, NN), NN)
             IN IF S!ValidPriv(d) THEN d ELSE <<1>>
(* (then also P + [x~]R = O in the peer's computation: addition of opposite points).  k = 10002 / 10003: the   *)
(* static key d = x~ r mod n of the responder / initiator, so that P = [x~]R and the peer's addition            *)
(* P + [x~]R is a doubling - the exceptional cases of the addition formulas                                     *)
TEqD(r) == LET R == S!Ec!BaseMul(r)
               d == BN!MulMod(S!XBar(R[1]), r, NN)
           IN IF S!ValidPriv(d) THEN d ELSE <<1>>
ScDA(k) == IF k = 10001 THEN TZeroD(ScRA(k)) ELSE IF k = 10003 THEN TEqD(ScRA(k)) ELSE Scalar(k, 0, FALSE)
ScDB(k) == IF k = 10000 THEN TZeroD(ScRB(k)) ELSE IF k = 10002 THEN TEqD(ScRB(k)) ELSE Scalar(k, 1, FALSE)
(* identity pairs: empty stands for the default identity; 53 and 62 put the end of the ZA input at the SM3   *)
(* padding seams (2 + len + 192 = 55, 0 mod 64); the explicit default must give the same Z as the empty one;  *)
(* the long identity is LongLen (<= 8191) bytes in scenario LongAt and 117 bytes elsewhere                    *)
Uid(k, who, n) == SubSeq(Rn!Bytes(Seed + k, 300 + who, n), 1, n)
UidPair(k) ==
  LET c == Col(k, 4)
  IN IF c = 0 THEN <<<<>>, <<>>>>
     ELSE IF c = 1 THEN <<Uid(k, 1, 1), <<>>>>
     ELSE IF c = 2 THEN <<<<>>, Uid(k, 2, 1)>>
     ELSE IF c = 3 THEN <<Uid(k, 1, 1), Uid(k, 2, 1)>>
     ELSE IF c = 4 THEN <<S!DefaultUid, <<>>>>
     ELSE IF c = 5 THEN <<Uid(k, 1, 53), Uid(k, 2, 62)>>
     ELSE <<Uid(k, 1, IF k = LongAt THEN LongLen ELSE 117), Uid(k, 2, 200)>>
KLenList == <<1, 16, 32, 33, 48, 128, 129>>
KLen(k) == IF k = 10004 THEN 300 ELSE KLenList[Col(k, 5) + 1]     \* 10004: ten KDF blocks (multi-lane KDF paths + tail)
ConfList == <<<<TRUE, TRUE>>, <<FALSE, FALSE>>, <<TRUE, FALSE>>, <<FALSE, TRUE>>, <<TRUE, TRUE>>, <<FALSE, FALSE>>, <<TRUE, TRUE>>>>
Conf(k) == ConfList[Col(k, 6) + 1]
Cfg(k) == [dA |-> ScDA(k), dB |-> ScDB(k), uidA |-> UidPair(k)[1], uidB |-> UidPair(k)[2],
           confA |-> Conf(k)[1], confB |-> Conf(k)[2], klen |-> KLen(k)]

(* ------------------------------------------------------------- emission *)
HB(b) == Hx!FromBytes(b)
H32(a) == HB(BN!ToFixed(a, 32))
Enc(Q) == HB(S!Ec!Encode(Q, "u"))                     \* 04||x||y, or 00 for O
(* a delivered point for both APIs: integers x, y (O as 0, 0) and the bytes on the wire (04||x||y, O as 00, *)
(* or a damaged string when wire # "ok": then there is no pair of integers to hand to the big-integer API)  *)
PX(Q) == IF Q = Inf THEN "" ELSE HB(Q[1])
PY(Q) == IF Q = Inf THEN "" ELSE HB(Q[2])
EcdhScalar(r) == BN!Le(r, BN!Sub(NN, <<2>>))          \* package ecdh represents private scalars in [1, n-2] only
Terminal == party.A.phase = "failed" \/ party.B.phase \in {"failed", "done"}
Log(ev) == /\ hist' = Append(hist, ev)
           /\ UNCHANGED sc
           /\ IF Terminal' THEN Em!Line(OutFile, ToJson([fam |-> "sm2kx", steps |-> hist'])) ELSE TRUE

(* which side, if any, learns its peer's key and identity only after creation (NewKeyExchange without *)
(* peer parameters + SetPeerParameters): another API route to the same state after Setup              *)
LateList == <<"", "A", "B">>
Init == \E k \in Ids : sc = k /\ KxInit(Cfg(k)) /\ hist = <<>>

NSetup ==
  /\ Setup
  /\ LET dhA == S!Ec!Mul(party.A.d, party'.B.pub)         \* plain ECDH, both ways
         dhB == S!Ec!Mul(party.B.d, party'.A.pub)
     IN Log([op |-> "new", k |-> sc, cls |-> <<Col(sc, 0), Col(sc, 1), Col(sc, 2), Col(sc, 3)>>, dA |-> H32(party.A.d), dB |-> H32(party.B.d),
             uidA |-> HB(party.A.uid), uidB |-> HB(party.B.uid), klen |-> party.A.klen,
             confA |-> party.A.conf, confB |-> party.B.conf, late |-> LateList[(sc % 3) + 1],
             pA |-> Enc(party'.A.pub), pB |-> Enc(party'.B.pub), zA |-> HB(party'.A.z), zB |-> HB(party'.B.z),
             dhA |-> H32(dhA[1]), dhB |-> H32(dhB[1])])
NInit ==
  /\ InitKx(ScRA(sc))
  /\ Log([op |-> "init", r |-> H32(ScRA(sc)), er |-> EcdhScalar(ScRA(sc)), exp |-> Enc(reply'.R)])
NRespond ==
  /\ net # <<>>
  /\ Respond(net[1], ScRB(sc))
  /\ Log([op |-> "respond", r |-> H32(ScRB(sc)), er |-> EcdhScalar(ScRB(sc)), rx |-> PX(net[1].R), ry |-> PY(net[1].R), wire |-> net[1].wire, renc |-> HB(WireBytes(net[1])),
          ok |-> reply'.ok, exp |-> (IF reply'.ok THEN Enc(reply'.R) ELSE ""), s |-> HB(reply'.S),
          uv |-> (IF reply'.ok THEN Enc(reply'.V) ELSE ""), key |-> HB(reply'.key)])
NConfirmB ==
  /\ net # <<>>
  /\ ConfirmResponder(net[1])
  /\ Log([op |-> "confirmB", rx |-> PX(net[1].R), ry |-> PY(net[1].R), wire |-> net[1].wire, renc |-> HB(WireBytes(net[1])), sin |-> HB(net[1].S),
          ok |-> reply'.ok, exp |-> HB(reply'.key), s |-> HB(reply'.S),
          uv |-> (IF reply'.V # Inf THEN Enc(reply'.V) ELSE "")])
NConfirmA ==
  /\ net # <<>>
  /\ ConfirmInitiator(net[1])
  /\ Log([op |-> "confirmA", sin |-> HB(net[1].S), ok |-> reply'.ok, exp |-> HB(reply'.key)])

(* adversary actions, numbered per protocol point so that a tier can take a slice of them *)
KindList == <<"inf", "offcurve", "range", "wide", "other", "short", "long", "prefix", "empty", "xwide32", "ywide32">>
FlipList == <<1, 17, 32>>
Base(at) == IF at = "RA" THEN 0 ELSE IF at = "RB" THEN 17 ELSE 34
AdvOn(j) == ((sc + j) % AdvMod) = 0
NAdv ==
  /\ net # <<>>
  /\ Len(adv) < MaxAdv
  /\ LET at == net[1].kind
         b == Base(at)
     IN /\ \/ \E c \in 1..11 : at # "SA" /\ AdvOn(b + c) /\ ReplaceR(KindList[c])
           \/ \E c \in 1..3 : AdvOn(b + 11 + c) /\ FlipConfirm(FlipList[c])
           \/ AdvOn(b + 15) /\ TruncConfirm
           \/ AdvOn(b + 16) /\ DropConfirm
           \/ AdvOn(b + 17) /\ ForgeConfirm
        /\ Log([op |-> "adv", what |-> adv'[Len(adv')].op, at |-> at, kind |-> adv'[Len(adv')].kind, pos |-> adv'[Len(adv')].pos])

(* the genuine message reaches the initiator after it refused an altered one (once per run) *)
NRedeliver ==
  /\ ~(\E i \in 1..Len(hist) : hist[i].op = "redeliver")
  /\ Redeliver
  /\ hist' = Append(hist, [op |-> "redeliver"]) /\ UNCHANGED sc
Next == NSetup \/ NInit \/ NRespond \/ NConfirmB \/ NConfirmA \/ NAdv \/ NRedeliver
Spec == Init /\ [][Next]_vars

(* ---- properties (all cheap: no hashing, no scalar multiplication) ---- *)
TypeOK == /\ Len(net) <= 1 /\ Len(adv) <= MaxAdv
          /\ \A p \in Parties : party[p].phase \in {"cfg", "new", "sent", "responded", "done", "failed"}
(* plain ECDH is symmetric: [dA]PB = [dB]PA (read off the emitted "new" step) *)
DhAgree == (hist # <<>>) => hist[1].dhA = hist[1].dhB
=============================================================================
