--------------------------------- MODULE Aead ---------------------------------
(* GCM (NIST SP 800-38D) and CCM (NIST SP 800-38C / RFC 3610) over an abstract  *)
(* 16-byte block cipher E(k, block).  Seal returns ciphertext || tag; Open       *)
(* returns [ok, msg].                                                            *)
EXTENDS Integers, Sequences, Bytes
CONSTANTS E(_, _)
LOCAL INSTANCE SequencesExt      \* FoldLeft: iterative (deep RECURSIVE loops are quadratic in TLC)
G == INSTANCE GF2
BS == 16
PadZ(s) == s \o Zeros((BS - (Len(s) % BS)) % BS)
NP(s) == (Len(s) + BS - 1) \div BS
Len64(nbytes) == Zeros(4) \o I2OSP(nbytes * 8, 4)           \* bit length as 64 bits, nbytes < 2^28

(* ---------------- GCM ---------------- *)
HKey(k) == E(k, Zeros(16))
GHash(h, a, c) == G!Poly(h, PadZ(a) \o PadZ(c) \o Len64(Len(a)) \o Len64(Len(c)))
J0(k, n) == IF Len(n) = 12 THEN n \o <<0, 0, 0, 1>>
            ELSE G!Poly(HKey(k), PadZ(n) \o Zeros(8) \o Len64(Len(n)))
RECURSIVE Inc32At(_, _)
Inc32At(b, j) == IF j = 12 THEN b        \* wrap within the low 32 bits
                 ELSE IF b[j] = 255 THEN Inc32At([b EXCEPT ![j] = 0], j - 1) ELSE [b EXCEPT ![j] = @ + 1]
Inc32(b) == Inc32At(b, 16)
RECURSIVE GctrStream(_, _, _)
GctrStream(k, cb, n) == IF n = 0 THEN <<>> ELSE E(k, cb) \o GctrStream(k, Inc32(cb), n - 1)
Gctr(k, icb, x) == BXor(x, GctrStream(k, icb, NP(x)))
GcmTag(k, n, a, c, t) == Take(BXor(E(k, J0(k, n)), GHash(HKey(k), a, c)), t)
GcmSeal(k, n, p, a, t) == LET c == Gctr(k, Inc32(J0(k, n)), p) IN c \o GcmTag(k, n, a, c, t)
GcmOpen(k, n, ct, a, t) ==
  IF Len(ct) < t THEN [ok |-> FALSE, msg |-> <<>>]
  ELSE LET c == Take(ct, Len(ct) - t)
       IN IF GcmTag(k, n, a, c, t) = LastN(ct, t) THEN [ok |-> TRUE, msg |-> Gctr(k, Inc32(J0(k, n)), c)]
          ELSE [ok |-> FALSE, msg |-> <<>>]
(* a 16-byte nonce whose derived J0 is the given block: J0 = ((N*H) xor L)*H  =>  N = ((J0*H^-1) xor L)*H^-1 *)
NonceForJ0(k, j0) == LET hi == G!InvBR(HKey(k))
                         l == Zeros(8) \o Len64(16)
                     IN G!MulBR(G!XorB(G!MulBR(j0, hi), l), hi)

(* ---------------- CCM ---------------- *)
(* nonce length 7..13, q = 15 - Len(n) bytes of length field, tag length t in {4,6,...,16} *)
CcmValid(nlen, t) == nlen \in 7..13 /\ t \in {4, 6, 8, 10, 12, 14, 16}
Q(n) == 15 - Len(n)
LenQ(x, q) == IF q > 4 THEN Zeros(q - 4) \o I2OSP(x, 4) ELSE I2OSP(x, q)     \* x < 2^28; q >= 2
B0(n, plen, alen, t) == <<(IF alen > 0 THEN 64 ELSE 0) + 8 * ((t - 2) \div 2) + (Q(n) - 1)>> \o n \o LenQ(plen, Q(n))
AadEnc(a) == IF Len(a) = 0 THEN <<>>
             ELSE IF Len(a) < 65280 THEN I2OSP(Len(a), 2) \o a
             ELSE <<255, 254>> \o I2OSP(Len(a), 4) \o a
CbcMacOver(k, s) == FoldLeft(LAMBDA y, i : E(k, BXor(y, SubSeq(s, 16 * i - 15, 16 * i))), Zeros(16), [i \in 1..(Len(s) \div 16) |-> i])
CcmT(k, n, p, a, t) == Take(CbcMacOver(k, B0(n, Len(p), Len(a), t) \o PadZ(AadEnc(a)) \o PadZ(p)), t)
CcmCtr(n, i) == <<Q(n) - 1>> \o n \o LenQ(i, Q(n))
RECURSIVE CcmStream(_, _, _, _)
CcmStream(k, n, i, cnt) == IF cnt = 0 THEN <<>> ELSE E(k, CcmCtr(n, i)) \o CcmStream(k, n, i + 1, cnt - 1)
CcmCrypt(k, n, x) == BXor(x, CcmStream(k, n, 1, NP(x)))
CcmSeal(k, n, p, a, t) == CcmCrypt(k, n, p) \o BXor(CcmT(k, n, p, a, t), Take(E(k, CcmCtr(n, 0)), t))
CcmOpen(k, n, ct, a, t) ==
  IF Len(ct) < t THEN [ok |-> FALSE, msg |-> <<>>]
  ELSE LET p == CcmCrypt(k, n, Take(ct, Len(ct) - t))
       IN IF BXor(CcmT(k, n, p, a, t), Take(E(k, CcmCtr(n, 0)), t)) = LastN(ct, t) THEN [ok |-> TRUE, msg |-> p]
          ELSE [ok |-> FALSE, msg |-> <<>>]
=============================================================================
