INIT Init
NEXT Next
