INIT Init
NEXT Next
