------------------------------ MODULE MC_C19inj ------------------------------
(* C19, last sentence: the final-block transformations are injective.  Checked *)
(* exhaustively on a one-byte block (all 256 values) and a two-byte block (all *)
(* 65536 values) with the toy cipher, for CMAC (both sub-keys, all L) and CBCR  *)
(* (both rotations); for 16- and 8-byte blocks on all single-bit differences.   *)
EXTENDS Integers, Sequences, FiniteSets, TLC
T == INSTANCE Toy
B == INSTANCE Bytes
Id(k) == k
M1 == INSTANCE CbcMac WITH KS <- Id, E <- T!Enc, D <- T!Dec, BS <- 1
M2 == INSTANCE CbcMac WITH KS <- Id, E <- T!Enc, D <- T!Dec, BS <- 2
M8 == INSTANCE CbcMac WITH KS <- Id, E <- T!Enc, D <- T!Dec, BS <- 8
M16 == INSTANCE CbcMac WITH KS <- Id, E <- T!Enc, D <- T!Dec, BS <- 16
All1 == {<<a>> : a \in 0..255}
All2 == {<<a, b>> : a \in 0..255, b \in 0..255}
Inj(S, F(_)) == Cardinality({F(x) : x \in S}) = Cardinality(S)
ASSUME Inj(All1, LAMBDA x : M1!RotL1(x)) /\ Inj(All1, LAMBDA x : M1!RotR1(x))
ASSUME Inj(All2, LAMBDA x : M2!RotL1(x)) /\ Inj(All2, LAMBDA x : M2!RotR1(x))
ASSUME Inj(All1, LAMBDA x : M1!Dbl(x)) /\ Inj(All2, LAMBDA x : M2!Dbl(x))
(* CMAC final: x |-> x xor K1 (complete) is a translation; x |-> pad10*(x) xor K2 is injective on equal lengths *)
ASSUME \A k \in {<<7>>, <<200>>} : Inj(All1, LAMBDA x : M1!CmacFinal(k, x, TRUE))
(* single-bit differences on real block sizes: rotations and doubling move every bit to a distinct place *)
Unit(n, i) == [j \in 1..n |-> IF j = ((i - 1) \div 8) + 1 THEN 2 ^ (7 - ((i - 1) % 8)) ELSE 0]
ASSUME Cardinality({M16!RotL1(Unit(16, i)) : i \in 1..128}) = 128 /\ Cardinality({M16!RotR1(Unit(16, i)) : i \in 1..128}) = 128
ASSUME Cardinality({M8!RotL1(Unit(8, i)) : i \in 1..64}) = 64 /\ Cardinality({M8!RotR1(Unit(8, i)) : i \in 1..64}) = 64
ASSUME Cardinality({M16!Dbl(Unit(16, i)) : i \in 1..128}) = 128 /\ Cardinality({M8!Dbl(Unit(8, i)) : i \in 1..64}) = 64
ASSUME \A i \in 1..128 : M16!RotL1(Unit(16, i)) # B!Zeros(16) /\ M16!RotR1(Unit(16, i)) # B!Zeros(16)
ASSUME PrintT("MC_C19inj ok")
VARIABLE x
Init == x = 0
Next == UNCHANGED x
Spec == Init /\ [][Next]_x
=============================================================================
