package rt

import (
	"encoding"
	"hash"
	"math/rand"

	"github.com/emmansun/gmsm/sm3"
)

func init() {
	RegisterRecorder("sm3hash", func(r *rand.Rand, log func(map[string]interface{})) {
		objs := map[int]hash.Hash{1: sm3.New(), 2: sm3.New()}
		var snap []byte
		log(map[string]interface{}{"op": "new"})
		total := map[int]int{1: 0, 2: 0}
		nops := 3 + r.Intn(10)
		for k := 0; k < nops; k++ {
			o := 1 + r.Intn(2)
			switch r.Intn(10) {
			case 0, 1, 2, 3:
				n := pick(r, 0, 1, 3, 55, 56, 57, 63, 64, 65, 127, 128, 129, r.Intn(200))
				if total[o]+n > 600 {
					continue
				}
				d := rbytes(r, n)
				objs[o].Write(d)
				total[o] += n
				log(map[string]interface{}{"op": "write", "o": o, "data": hx(d)})
			case 4, 5, 6:
				p := rbytes(r, r.Intn(3))
				out := objs[o].Sum(p)
				log(map[string]interface{}{"op": "sum", "o": o, "prefix": hx(p), "out": hx(out)})
			case 7:
				objs[o].Reset()
				total[o] = 0
				log(map[string]interface{}{"op": "reset", "o": o})
			case 8:
				b, err := objs[o].(encoding.BinaryMarshaler).MarshalBinary()
				if err != nil {
					panic("harness: MarshalBinary failed: " + err.Error())
				}
				snap = b
				snapTotal = total[o]
				log(map[string]interface{}{"op": "marshal", "o": o})
			case 9:
				if snap == nil {
					continue
				}
				err := objs[o].(encoding.BinaryUnmarshaler).UnmarshalBinary(snap)
				total[o] = snapTotal
				log(map[string]interface{}{"op": "unmarshal", "o": o, "err": err != nil})
			}
		}
	})
}

var snapTotal int
