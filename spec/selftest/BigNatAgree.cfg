CONSTANT Seed = 1
INIT Init
NEXT Next
