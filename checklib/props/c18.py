"""C18 padding: MC_C18 (buffer padded/unpadded; Inv/Whole/AcceptOnly on the definitions) + replay."""
import os
from .. import core


def run(ctx):
    out = os.path.join(ctx.scratch, "c18.ndjson")
    if ctx.tier == "quick":
        shards = [dict(BSet=[1, 2, 3, 4, 7, 8], FullLen=8, StrBS=[1, 2, 3]),
                  dict(BSet=[15, 16, 17, 32, 255], FullLen=17, StrBS=[])]
    else:
        shards = [dict(BSet=[1, 2, 3, 4], FullLen=255, StrBS=[1, 2, 3]),
                  dict(BSet=[], FullLen=255, StrBS=[4])]
        ranges = [(5, 16), (17, 32), (33, 48), (49, 64), (65, 90), (91, 120), (121, 150), (151, 180), (181, 210), (211, 235), (236, 255)]
        shards += [dict(BSet=list(range(a, b + 1)), FullLen=64, StrBS=[]) for a, b in ranges]
    jobs, outs = [], []
    for i, sh in enumerate(shards):
        o = "%s.%d" % (out, i)
        outs.append(o)
        jobs.append(dict(module="MC_C18", name="MC_C18_%d" % i, view="View",
                         constants={"Seed": ctx.seed, "BSet": core.tla_set(sh["BSet"]), "FullLen": sh["FullLen"],
                                    "StrBS": core.tla_set(sh["StrBS"]), "HdrBS": core.tla_set(sh.get("HdrBS", sh["BSet"])), "OutFile": core.tla_str(o)},
                         invariants=("InvAll", "WholeAll", "AcceptOnlyAll", "TypeOK"), workers=4, timeout=3000))
    ctx.tlc_many(jobs, parallel=4)
    core.cat_files(outs, out)
    cfgs = [{"label": "default"}, {"label": "purego", "tags": ("verif", "purego")}]
    ctx.replay_all(out, cfgs)
    ctx.binding_guard(out, cfgs[0])
    ctx.sample_traces(out)
    ctx.count_distinct(out, lambda t: (t["steps"][0]["bs"], len(t["steps"][0]["data"]) // 2, tuple((s["op"], s.get("s")) for s in t["steps"][1:])))
    ctx.assumptions += ["ISO/IEC 9797-1 method 3 is defined for messages whose bit length fits one block; for block sizes 1..3 longer messages are outside the scheme's domain and are not explored",
                        "message contents are pseudo-random or padding-like tails; lengths and block sizes are enumerated"]
    return ctx.finish(rule="one case per TLC transition of MC_C18: (block size, message length and tail class or small-alphabet string, sequence of Pad/Unpad(scheme) calls); distinct = distinct (bs, initial length, op sequence); non-trivial = at least one reply compared",
                      exhaustive=(ctx.tier == "thorough"))
