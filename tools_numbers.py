#!/usr/bin/env python3
"""tools_numbers.py [--update-design] — the numbers column block of DESIGN.md section 14 from evidence/*.json"""
import json, os, sys, glob
root = os.path.dirname(os.path.abspath(__file__))
rows = ["| property | tier of the evidence file | TLC states | transitions | replayed spec -> code | recorded accepted code -> spec | configurations | wall s |", "|---|---|---|---|---|---|---|---|"]
for f in sorted(glob.glob(os.path.join(root, "evidence", "C*.json"))):
    e = json.load(open(f))
    c = e["coverage"]
    rows.append("| %s | %s | %s | %s | %s | %s | %s | %s |" % (e["property_id"], e["tier"], c.get("states"), c.get("transitions"), c.get("traces_replayed_spec_to_code"),
                                                    c.get("traces_recorded_code_to_spec_accepted"), len(c.get("per_configuration") or {}), int(e.get("wall_s", 0))))
text = "\n".join(rows)
if "--update-design" in sys.argv:
    dp = os.path.join(root, "DESIGN.md")
    d = open(dp).read()
    a, b = d.index("<!-- numbers:begin -->") + len("<!-- numbers:begin -->"), d.index("<!-- numbers:end -->")
    open(dp, "w").write(d[:a] + "\n" + text + "\n" + d[b:])
else:
    print(text)
