------------------------------ MODULE MC_C05nat ------------------------------
(* C05 (scalar-field half): obj/NatMachine.tla instantiated on the moduli the    *)
(* library computes with (SM2 order and prime, SM9 order, SM9 order minus one)    *)
(* and on moduli chosen for their limb geometry (one limb, a nearly empty top     *)
(* limb, all-ones limbs, 3/5/9 limbs, the unrolled 1024/1536/2048-bit multiplier  *)
(* paths, composite and even moduli).  Register contents come from boundary        *)
(* classes relative to the modulus and to the 64-bit limb grid; TLC enumerates    *)
(* (modulus, a, b) x operations (two deep on the core classes) and emits every     *)
(* transition with the integer result (family "nat").                             *)
(* Families:  arith  a, b loaded, then Add Sub Mul SubOne Exp Inverse ShiftRight   *)
(*                   and the observers;                                            *)
(*            load   the four loaders on byte strings of every length class.       *)
EXTENDS Integers, Sequences, FiniteSets, TLC, Json
CONSTANTS Seed, OutFile, Fams, ModIdx, BigFrom, NRnd, MaxOps, FullPairs, LoadLens
S  == INSTANCE SM2
B  == INSTANCE Bn
BN == INSTANCE BigNat
By == INSTANCE Bytes
R  == INSTANCE Prng
Hx == INSTANCE Hex
Em == INSTANCE Emit
VARIABLES m, ra, rb, fam, core, nops, hist
NM == INSTANCE NatMachine
vars == <<m, ra, rb, fam, core, nops, hist>>
View == <<m, ra, rb, fam, core, nops>>

Tup(f, n) == SubSeq(f, 1, n)
Rnd(label, n) == Tup(R!Bytes(Seed, label, n), n)
Pow2(s) == BN!Mul(BN!FromInt(2 ^ (s % 8)), <<1>> \o By!Zeros(s \div 8))
Ones(nbytes) == Tup([i \in 1..nbytes |-> 255], nbytes)
OddTop(label, nbytes) == LET r == Rnd(label, nbytes)                          \* random odd number with the top bit set
                         IN Tup([i \in 1..nbytes |-> IF i = 1 THEN 128 + (r[1] % 128) ELSE IF i = nbytes THEN r[i] - (r[i] % 2) + 1 ELSE r[i]], nbytes)
Mods == <<
  S!N, S!P, B!N, BN!Sub(B!N, <<1>>),                                           \*  1..4   the library's own (4 is even: H1/H2 reduce modulo N-1)
  <<3>>, <<1, 0, 1>>, BN!Sub(Pow2(64), <<59>>), BN!Add(Pow2(64), <<13>>),      \*  5..8   tiny, one full limb, a second limb holding only 1
  BN!Sub(Pow2(127), <<1>>), BN!Sub(BN!Sub(Pow2(192), Pow2(64)), <<1>>),        \*  9..10  2 and 3 limbs
  BN!Sub(Pow2(255), <<19>>), BN!Sub(Pow2(256), <<189>>), Ones(32),             \* 11..13  4 limbs: top bit clear, nearly all ones, 2^256-1 (composite)
  Pow2(128), BN!Sub(Pow2(256), Pow2(32)),                                      \* 14..15  even: a power of two (top limb = 1), 4 limbs
  BN!Sub(Pow2(320), <<197>>), BN!Sub(Pow2(521), <<1>>),                        \* 16..17  5 limbs, 9 limbs with a 9-bit top limb
  OddTop(7001, 128), OddTop(7002, 192), OddTop(7003, 256)                      \* 18..20  the unrolled 1024/1536/2048-bit paths
>>
Edges == {8, 31, 32, 33, 63, 64, 65, 127, 128, 129, 191, 192, 193, 255, 256, 320, 448, 512, 1023, 1024}
RR(mod) == BN!Mod(Pow2(8 * NM!LimbBytes(mod)), mod)                            \* 2^(64 limbs) mod m: the Montgomery radix
Below(mod, c) == {v \in c : BN!Lt(v, mod)}
Core(mod) == Below(mod, {<<>>, <<1>>, <<2>>, BN!Sub(mod, <<1>>), BN!Sub(mod, <<2>>), BN!Div(BN!Add(mod, <<1>>), <<2>>), RR(mod),
                         BN!Sub(Pow2(64), <<1>>), BN!Mod(Rnd(7100, NM!Size(mod)), mod)})
Wide(mod) ==
  Below(mod, {<<3>>, BN!Sub(mod, <<3>>), BN!Div(BN!Sub(mod, <<1>>), <<2>>), BN!Mod(BN!Sub(BN!Add(RR(mod), mod), <<1>>), mod), BN!Sub(mod, RR(mod)),
              BN!Mod(BN!Mul(RR(mod), RR(mod)), mod)}
             \cup UNION {{BN!Sub(Pow2(k), <<1>>), Pow2(k), BN!Add(Pow2(k), <<1>>)} : k \in Edges}
             \cup {BN!Mod(Rnd(7100 + i, NM!Size(mod)), mod) : i \in 1..NRnd})
  \cup {BN!Sub(mod, Pow2(k)) : k \in {e \in Edges : BN!Lt(Pow2(e), mod)}}
ValsA(i) == IF i >= BigFrom THEN Core(Mods[i]) ELSE Core(Mods[i]) \cup Wide(Mods[i])
ValsB(i) == IF FullPairs /\ i < BigFrom THEN ValsA(i) ELSE Core(Mods[i])

HX(b) == Hx!FromBytes(b)
Fix(v) == HX(BN!ToFixed(v, NM!Size(m)))
FixM(v, mod) == HX(BN!ToFixed(v, NM!Size(mod)))
Min(v) == HX(BN!Norm(v))

(* exponents: every 4-bit window value, leading zeros, empty, the Fermat exponent, random *)
Exps(mod) == {<<>>, <<0>>, <<1>>, <<2>>, <<0, 0, 3>>, <<16>>, <<18, 52, 86, 120, 154, 188, 222, 240>>, <<255, 255>>,
              BN!Sub(mod, <<2>>), BN!Sub(mod, <<1>>), Rnd(7200, 32)}
Shifts == {0, 1, 7, 63, 64, 65, 128, 255}

Init == \E i \in ModIdx, f \in Fams :
  /\ fam = f /\ m = Mods[i] /\ nops = 0
  /\ IF f = "arith"
     THEN \E a \in ValsA(i), b \in ValsB(i) :
            /\ ra = a /\ rb = b /\ core = (a \in Core(Mods[i]))
            /\ hist = <<[op |-> "mod", m |-> HX(Mods[i])],
                        [op |-> "set", reg |-> "a", how |-> "bytes", in |-> FixM(a, Mods[i]), ok |-> TRUE, a |-> FixM(a, Mods[i]), b |-> ""],
                        [op |-> "set", reg |-> "b", how |-> "bytes", in |-> Min(b), ok |-> TRUE, a |-> FixM(a, Mods[i]), b |-> FixM(b, Mods[i])]>>
     ELSE ra = <<>> /\ rb = <<>> /\ core = TRUE /\ hist = <<[op |-> "mod", m |-> HX(Mods[i])]>>

Out(ev) ==
  /\ nops' = nops + 1 /\ UNCHANGED <<fam, core>>
  /\ hist' = Append(hist, ev @@ [a |-> HX(BN!ToFixed(ra', NM!Size(m))), b |-> HX(BN!ToFixed(rb', NM!Size(m)))])
  /\ Em!Line(OutFile, ToJson([fam |-> "nat", steps |-> hist']))
Can   == fam = "arith" /\ (nops = 0 \/ (nops < MaxOps /\ core))     \* binary operations and observers: any depth (deeper only from core classes)
Unary == fam = "arith" /\ nops = 0 /\ rb = <<>>                       \* unary operations do not read b: explored once per a

Add(s)  == Can /\ (s = "a" => nops = 0) /\ NM!OpAdd(s) /\ Out([op |-> "add", src |-> s])
Sub(s)  == Can /\ (s = "a" => nops = 0) /\ NM!OpSub(s) /\ Out([op |-> "sub", src |-> s])
Mul(s)  == Can /\ (s = "a" => nops = 0) /\ NM!OpMul(s) /\ Out([op |-> "mul", src |-> s])
SubOne  == Unary /\ NM!OpSubOne /\ Out([op |-> "subone"])
Exp(e)  == Unary /\ NM!OpExp(e) /\ Out([op |-> "exp", e |-> HX(e)])
ExpS(e) == Unary /\ NM!OpExp(BN!FromInt(e)) /\ Out([op |-> "expshort", n |-> e])
Inv     == Can /\ (nops = 0 => rb = <<>>) /\ NM!OpInv /\ Out([op |-> "inv", ok |-> NM!Inverse(ra, m).ok])
Shr(n)  == Unary /\ NM!OpShr(n) /\ Out([op |-> "shr", n |-> n])
Obs     == Can /\ UNCHANGED <<m, ra, rb>> /\ Out([op |-> "obs"] @@ NM!Observe)

(* ---- loaders: byte strings around the acceptance boundaries of each loader, every length class *)
LoadInputs ==
  LET sz == NM!Size(m)
      lb == NM!LimbBytes(m)
      bl == NM!BitLenOf(m)
      m1 == BN!Sub(m, <<1>>)
  IN {<<>>, <<0>>, <<1>>, BN!ToFixed(<<1>>, sz), m1, m, BN!Add(m, <<1>>), BN!ToFixed(m1, lb), BN!ToFixed(m, lb),
      BN!Sub(Pow2(bl), <<1>>), Pow2(bl), BN!Add(m, m1), BN!Mul(m, <<2>>), Ones(lb), <<1>> \o By!Zeros(lb),
      BN!Mul(m1, <<2>>), BN!Sub(BN!Mul(m1, <<2>>), <<1>>), BN!Mul(m1, Pow2(64)), BN!Add(BN!Mul(m1, Pow2(64)), m1),
      BN!Sub(m1, <<1>>), BN!Mul(m, m), BN!Sub(BN!Mul(m, m), <<1>>), BN!Mul(m, Pow2(64)), BN!Sub(BN!Mul(m, Pow2(64)), <<1>>),
      BN!Mul(BN!Mul(m, m), m), Ones(40), Ones(2 * lb), Ones(2 * lb + 1)}
     \cup {Rnd(7300 + l, l) : l \in LoadLens}
     \cup {<<255>> \o Rnd(7400 + l, l - 1) : l \in LoadLens \ {0}}
LongZeros(b) == Len(b) > NM!LimbBytes(m) /\ b[1] = 0        \* more bytes than the limbs hold although the value might fit: left unspecified
Load(how, b) ==
  /\ fam = "load" /\ nops = 0 /\ ~LongZeros(b)
  /\ LET r == CASE how = "bytes" -> NM!SetBytes(b, m)
                [] how = "ovf" -> NM!SetOverflowing(b, m)
                [] how = "hash" -> [ok |-> TRUE, v |-> NM!SetOverflowed(b, m)]
                [] how = "mod" -> [ok |-> TRUE, v |-> NM!ModOf(b, m)]
     IN /\ (how = "hash" => NM!Odd(m) /\ BN!Lt(<<2>>, m))
        /\ (how = "mod" => BN!Lt(<<1>>, BN!Norm(b)))           \* the harness builds an arbitrary-size Nat through NewModulus(b).Nat(): needs b > 1
        /\ NM!LoadA(IF r.ok THEN r.v ELSE ra)
        /\ Out([op |-> "set", reg |-> "a", how |-> how, in |-> HX(b), ok |-> r.ok])

Next == \/ \E s \in {"a", "b"} : Add(s) \/ Sub(s) \/ Mul(s)
        \/ SubOne \/ Inv \/ Obs
        \/ \E e \in Exps(m) : Exp(e)
        \/ \E e \in {1, 2, 3, 5, 16, 65537} : ExpS(e)
        \/ \E n \in Shifts : Shr(n)
        \/ \E how \in {"bytes", "ovf", "hash", "mod"}, b \in LoadInputs : Load(how, b)
Spec == Init /\ [][Next]_vars

(* ---- properties of the machine itself (checked in every state / on every step) *)
Reduced == NM!Reduced
ModuliDistinctOdd == \A i \in ModIdx : BN!Lt(<<2>>, Mods[i])
(* an inverse that is reported is one: a * a^-1 = 1 (mod m); refusal only for non-units *)
InverseSound == [][(nops' = nops + 1 /\ hist'[Len(hist')].op = "inv") =>
                     IF hist'[Len(hist')].ok THEN BN!MulMod(ra, ra', m) = BN!Mod(<<1>>, m) ELSE (ra' = ra /\ (ra = <<>> \/ NM!Gcd(ra, m) # <<1>>))]_vars
(* field identities on the steps TLC takes: (a + b) - b = a is exercised by the depth-2 chains; here the one-step ones *)
StepLaws == [][nops' = nops + 1 =>
                 LET e == hist'[Len(hist')]
                 IN CASE e.op = "sub" /\ e.src = "a" -> ra' = <<>>
                      [] e.op = "add" /\ e.src = "a" -> ra' = BN!Mod(BN!Mul(ra, <<2>>), m)
                      [] e.op = "subone" -> BN!AddMod(ra', <<1>>, m) = ra
                      [] e.op = "expshort" /\ e.n = 2 -> ra' = BN!MulMod(ra, ra, m)
                      [] OTHER -> TRUE]_vars
=============================================================================
