// Package rt is the plumbing shared by the conformance replayers: trace
// decoding, step field access, result records. It contains no cryptography.
package rt

import (
	"bufio"
	"bytes"
	"encoding/hex"
	"encoding/json"
	"fmt"
	"io"
	"os"
	"runtime/debug"
)

// Step is one event of a trace: an operation with its arguments and the reply the specification computed.
type Step map[string]interface{}

// Trace is one behaviour emitted by TLC (or recorded from the code).
type Trace struct {
	Fam   string `json:"fam"`
	Steps []Step `json:"steps"`
}

// Fail describes the first step of a trace whose real reply differs from the specified one.
type Fail struct {
	Idx   int             `json:"idx"`
	Fam   string          `json:"fam"`
	Step  int             `json:"step"`
	Kind  string          `json:"kind"` // mismatch | panic | errmismatch | crash | hang
	Got   string          `json:"got"`
	Exp   string          `json:"exp"`
	Note  string          `json:"note,omitempty"`
	Cfg   string          `json:"cfg"`
	Trace json.RawMessage `json:"trace"`
}

func (s Step) Str(k string) string {
	v, ok := s[k]
	if !ok {
		panic(fmt.Sprintf("harness: step %v lacks field %q", s, k))
	}
	str, ok := v.(string)
	if !ok {
		panic(fmt.Sprintf("harness: field %q of %v is not a string", k, s))
	}
	return str
}

func (s Step) Has(k string) bool { _, ok := s[k]; return ok }

func (s Step) Int(k string) int {
	v, ok := s[k]
	if !ok {
		panic(fmt.Sprintf("harness: step %v lacks field %q", s, k))
	}
	f, ok := v.(float64)
	if !ok {
		panic(fmt.Sprintf("harness: field %q of %v is not a number", k, s))
	}
	return int(f)
}

func (s Step) IntOr(k string, d int) int {
	if !s.Has(k) {
		return d
	}
	return s.Int(k)
}

func (s Step) Bool(k string) bool {
	v, ok := s[k]
	if !ok {
		panic(fmt.Sprintf("harness: step %v lacks field %q", s, k))
	}
	b, ok := v.(bool)
	if !ok {
		panic(fmt.Sprintf("harness: field %q of %v is not a bool", k, s))
	}
	return b
}

func (s Step) BoolOr(k string, d bool) bool {
	if !s.Has(k) {
		return d
	}
	return s.Bool(k)
}

// Hex decodes a hex string field.
func (s Step) Hex(k string) []byte {
	b, err := hex.DecodeString(s.Str(k))
	if err != nil {
		panic(fmt.Sprintf("harness: field %q of step is not hex: %v", k, err))
	}
	return b
}

func (s Step) HexOr(k string) []byte {
	if !s.Has(k) {
		return nil
	}
	return s.Hex(k)
}

// Mismatch is returned by adapters; nil means the trace conforms.
type Mismatch struct {
	Step int
	Kind string
	Got  string
	Exp  string
	Note string
}

func Diff(step int, got, exp []byte) *Mismatch {
	if bytes.Equal(got, exp) {
		return nil
	}
	return &Mismatch{Step: step, Kind: "mismatch", Got: hex.EncodeToString(got), Exp: hex.EncodeToString(exp)}
}

func DiffStr(step int, got, exp string) *Mismatch {
	if got == exp {
		return nil
	}
	return &Mismatch{Step: step, Kind: "mismatch", Got: got, Exp: exp}
}

// DiffErr compares "an error was returned" with the specified outcome (error texts are never compared).
func DiffErr(step int, got error, expErr bool) *Mismatch {
	if (got != nil) == expErr {
		return nil
	}
	g := "ok"
	if got != nil {
		g = "error: " + got.Error()
	}
	e := "ok"
	if expErr {
		e = "error"
	}
	return &Mismatch{Step: step, Kind: "errmismatch", Got: g, Exp: e}
}

// Adapter replays one trace against the real code.
type Adapter func(t *Trace, env *Env) *Mismatch

// Env carries the per-process configuration of the replay.
type Env struct {
	Wrap string // native | blockonly | batched
	Cfg  string // label of the dispatch configuration (GODEBUG etc.), informational
}

var adapters = map[string]Adapter{}

func Register(fam string, a Adapter) { adapters[fam] = a }

// RunTrace executes one trace, converting a panic in the code under test into a Mismatch.
func RunTrace(t *Trace, env *Env) (mm *Mismatch, steps int) {
	a, ok := adapters[t.Fam]
	if !ok {
		return &Mismatch{Step: -1, Kind: "harness", Note: "no adapter for family " + t.Fam}, 0
	}
	defer func() {
		if r := recover(); r != nil {
			msg := fmt.Sprint(r)
			kind := "panic"
			if len(msg) >= 8 && msg[:8] == "harness:" {
				kind = "harness"
			}
			mm = &Mismatch{Step: CurStep, Kind: kind, Got: msg, Note: string(debug.Stack())}
		}
	}()
	CurStep = 0
	return a(t, env), len(t.Steps)
}

// CurStep is maintained by adapters (via At) so that a panic is attributed to a step.
var CurStep int

func At(i int) { CurStep = i }

// Main is the replayer main loop: read traces, run, write failures and a summary.
func Main(in io.Reader, out io.Writer, progress *os.File, env *Env, from, limit int) {
	rd := bufio.NewReaderSize(in, 1<<20)
	w := bufio.NewWriter(out)
	defer w.Flush()
	idx := -1
	traces, steps, fails := 0, 0, 0
	for {
		line, err := rd.ReadBytes('\n')
		if len(bytes.TrimSpace(line)) > 0 {
			idx++
			if idx >= from && (limit <= 0 || idx < from+limit) {
				if progress != nil {
					fmt.Fprintf(progress, "%d\n", idx)
				}
				var t Trace
				if e := json.Unmarshal(line, &t); e != nil {
					panic(fmt.Sprintf("harness: bad trace line %d: %v", idx, e))
				}
				mm, n := RunTrace(&t, env)
				traces++
				steps += n
				if mm != nil {
					fails++
					f := Fail{Idx: idx, Fam: t.Fam, Step: mm.Step, Kind: mm.Kind, Got: mm.Got, Exp: mm.Exp, Note: mm.Note, Cfg: env.Cfg, Trace: json.RawMessage(bytes.TrimSpace(line))}
					b, _ := json.Marshal(f)
					w.Write(b)
					w.WriteByte('\n')
					w.Flush()
				}
			}
		}
		if err != nil {
			break
		}
	}
	fmt.Fprintf(w, "{\"done\":true,\"traces\":%d,\"steps\":%d,\"fails\":%d}\n", traces, steps, fails)
}

func jsonStr(v interface{}) string {
	b, err := json.Marshal(v)
	if err != nil {
		return fmt.Sprint(v)
	}
	return string(b)
}
