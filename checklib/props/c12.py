"""C12 ephemeral secrets and RNG failure: RandSource rule + MC_C12 (scripted streams with rejection-sampling classes, both
MaybeReadByte alignments, a fault at every byte position) + replay of the exact outcomes."""
import os
from .. import core, cfgs

S = core.tla_set
OPS = ["sm2sign", "sm2enc", "sm2keygen", "sm2kx", "ecdhkeygen", "sm9masters", "sm9mastere", "sm9wrap", "sm9kx", "sm9sign"]


def q(xs):
    return S('"%s"' % x for x in xs)


def run(ctx):
    ctx.kats(["KAT_Bn"], seed_const=("GF2Agree", "BigNatAgree"))
    out = os.path.join(ctx.scratch, "c12.ndjson")
    quick = ctx.tier == "quick"
    seqs = [1, 2, 4, 5, 6, 9, 11, 12] if quick else list(range(1, 16))
    jobs, outs = [], []
    for i, op in enumerate(OPS):
        o = "%s.%d" % (out, i)
        outs.append(o)
        jobs.append(dict(module="MC_C12", name="MC_C12_" + op, view="View", workers=3, timeout=3300, invariants=("ScalarIsBlock",),
                         constants=dict(Seed=ctx.seed, Ops=q([op]), SeqIds=S(seqs), CmpIds=S(range(0, 81)), Aligns=S([0, 1]), FaultKinds=q(["err", "eof"]),
                                        FaultStride=(8 if quick else 1), OutFile=core.tla_str(o))))
    ctx.tlc_many(jobs, parallel=6)
    core.cat_files(outs, out)
    cf = [cfgs.K_EC[0], cfgs.K_EC[1], cfgs.K_EC[3]] if quick else cfgs.K_EC
    ctx.replay_sharded(out, cf, shards=4)      # the pure-Go backend needs minutes for the SM9 cases in one process
    # binding guard: corrupt the first allowed outcome's consumed count of a fault-free run -> must be reported
    import json
    g = os.path.join(ctx.scratch, "c12guard.ndjson")
    for line in core._lines(out):
        t = json.loads(line)
        st = t["steps"][0]
        if not st["fault"] and all(a.get("ok") for a in st["allowed"]):
            for a in st["allowed"]:
                a["consumed"] += 3
            open(g, "w").write(json.dumps(t) + "\n")
            break
    saved = (ctx.fails, ctx.replayed, ctx.steps, dict(ctx.per_cfg))
    ctx.fails = []
    got = ctx.replay(g, cf[0])
    ctx.fails, ctx.replayed, ctx.steps, ctx.per_cfg = saved
    if len(got) != 1:
        raise core.Infra("binding guard: a corrupted allowed-outcome set was accepted by the randsrc replayer")
    ctx.extra["binding_guard"] = 1
    # a rejection that is not a range rejection: SM9 key encapsulation draws again when K is all zero (klen = 1: one nonce in 256).
    # Recorded through the library with a scripted stream whose first nonce gives K = 00; Trace_Sm9!TWrapK0 decides that the
    # ephemeral secret behind the output is exactly the NEXT block (C = [r2]Q_B, e(C, de_B) = g^r2) and that two blocks were consumed
    wz = ctx.record("sm9-wrapzero", 2 if quick else 6, name="sm9-wrapzero")
    ctx.validate("Trace_Sm9", wz, "sm9-wrapzero", shards=1 if quick else 3, guard=False, label="wrapzero", timeout=1500)
    ctx.sample_traces(out)
    ctx.count_distinct(out, lambda t: (t["steps"][0]["what"], t["steps"][0]["stream"][:70], str(t["steps"][0]["fault"])))
    ctx.assumptions += ["statistical uniformity is not tested: the check pins the stronger fact that the scalar EQUALS the first in-range 32-byte block of the supplied stream (after the documented 0x42 tweak for key generators) at one of the two MaybeReadByte alignments, with the exact number of bytes consumed",
                        "SM9 Sign: the signature value needs a GT element, so only the draw (bytes consumed, honest signature verifies, error on fault) is pinned here; exact S given r is part of C10",
                        "each trace is run 8 times so that both MaybeReadByte branches are taken; every run must land in the allowed set",
                        "faults: the byte at index `at` cannot be read (error or EOF, bytes before it are delivered); at = every position (thorough) or a stride plus all block seams (quick)"]
    ctx.assumptions += ["range test: besides 0, 1, Top, Top+1, n, n+1, 2^256-1 every operation sees the 81 blocks built limb by limb (64-bit limbs below / equal / above those of the bound), each followed by the block 1"]
    return ctx.finish(rule="one case per TLC transition of MC_C12: (operation, leading block classes of the stream relative to the operation's group order - incl. the 81 limb-structured comparison classes -, alignment, fault kind and position); distinct = distinct (operation, stream prefix, fault)")
