"""C10 SM9 schemes: complete, sound, portable.
A  algo/SM9.tla pinned by the GM/T 0044.5 annex examples (selftest/KAT_SM9, run here).
B  code -> spec: the real sm9 API is driven with a scripted random reader (family sm9, internal/rt/sm9_record.go); every event
   carries the public GT elements (w = g^r via verifhook, and by the second route e(C1, de_B) ...); Trace_Sm9 recomputes every
   output byte (h, S, C1, K = KDF(C1||w||ID), C2, C3, SK, S_B, S_A, the key encodings) with the TLA+ transcription of GM/T 0044.
C  spec -> code: obj/Sm9Sys.tla (system machine over the dlog group model of C09; invariants Complete, Sound, RoundTrip,
   KxAgreement, DlogRefinesG1) sharded through MC_C10; traces (family sm9sys) replayed by internal/rt/sm9.go.
D  portability: the recorder is run with the SAME seed under K_EC x SM3 tiers (+ an SM4 tier, + purego); the event files must be
   byte-identical (every output byte equal on every tier); each DISTINCT file is validated against Trace_Sm9."""
import concurrent.futures
import hashlib
import json
import os
import threading

from .. import core, cfgs

S = core.tla_set


def q(xs):
    return S('"%s"' % x for x in xs)


ALL_VARIANTS = ["ok", "wrongid", "shortid", "longid", "wronghid", "wrongmsg", "longmsg", "wrongkey", "wronghidkey"]
ALL_MODES = ["xor", "ecb", "cbc", "cfb", "ofb"]
KX_ALL = ["ok", "tamper_ra", "tamper_rb", "tamper_sb", "tamper_sa", "wrongpeer_a", "wrongpeer_b"]
ALL_KINDS = ["smpriv", "smpub", "supriv", "empriv", "empub", "eupriv"]


def shard(name, workers=2, **kw):
    c = dict(MaxOps=3, MaxArts=1, TamperAll="FALSE", Masks=S([128]), Masters=q([]), MasterClasses=q(["r1"]), UidLens=S([5]), Hids=S([1]), CodecKinds=q([]),
             SignHows=q([]), MLens=S([20]), WrapHows=q([]), KLens=S([32]), ModeSet=q([]), EncSet=q([]), RCs=q(["r1"]), Variants=q([]),
             Tamper="FALSE", KxLens=S([]), KxKLens=S([16]), KxVars=q([]))
    c.update(kw)
    return dict(name=name, workers=workers, consts=c)


def shards(quick):
    T, F = "TRUE", "FALSE"
    if quick:
        # SM3 costs ~40 ms per block inside TLC: identities <= 49 bytes (H1 in one block) and messages <= 18 bytes keep a
        # verdict at 2-4 blocks; long identities / messages are the recorded direction's business (exact bytes there)
        return [
            # every encoding of the six key kinds, exact
            shard("codecS", MaxOps=2, Masters=q(["s"]), MasterClasses=q(["r1", "nm2"]), CodecKinds=q(ALL_KINDS[:3]), UidLens=S([0, 63, 200]), Hids=S([1, 255]), workers=2),
            shard("codecE", MaxOps=2, Masters=q(["e"]), MasterClasses=q(["r1", "nm2"]), CodecKinds=q(ALL_KINDS[3:]), UidLens=S([0, 63, 200]), Hids=S([3, 0]), workers=2),
            # every single-byte corruption of a signature (ASN.1: 104 bytes; h || S: 97 bytes)
            shard("sigtamA", Masters=q(["s"]), SignHows=q(["asn1"]), MLens=S([16]), Variants=q(ALL_VARIANTS), Tamper=T, TamperAll=T, Masks=S([1, 128])),
            shard("sigtamF", Masters=q(["s"]), SignHows=q(["func"]), MLens=S([16]), Variants=q(ALL_VARIANTS), Tamper=T, TamperAll=T, Masks=S([1, 128])),
            # identities, hid, messages, nonces, entry points
            shard("sigvar", Masters=q(["s"]), MasterClasses=q(["r2", "nm2"]), SignHows=q(["asn1", "func", "method"]), UidLens=S([0, 49]), MLens=S([0, 18]),
                  RCs=q(["r1", "nm1"]), Variants=q(ALL_VARIANTS), workers=4),
            # every single-byte corruption of an encapsulated key
            shard("wraptam", Masters=q(["e"]), WrapHows=q(["func", "method"]), Variants=q(ALL_VARIANTS), Tamper=T, TamperAll=T, Masks=S([1, 128])),
            shard("wrapvar", Masters=q(["e"]), MasterClasses=q(["r2", "one"]), WrapHows=q(["func", "method"]), UidLens=S([0, 49, 64]), KLens=S([16, 133, 411]),
                  Hids=S([3]), RCs=q(["r1", "one"]), Variants=q(ALL_VARIANTS), Tamper=T, workers=4),
            # every single-byte corruption of a ciphertext (|M| = 17), all modes, both encodings
            shard("cttamA", Masters=q(["e"]), ModeSet=q(["xor", "ecb", "cbc"]), EncSet=q(["raw", "asn1"]), MLens=S([17]), Hids=S([3]), Tamper=T, TamperAll=T, Masks=S([1, 128]), workers=3),
            shard("cttamB", Masters=q(["e"]), ModeSet=q(["cfb", "ofb"]), EncSet=q(["raw", "asn1"]), MLens=S([17]), Hids=S([3]), Tamper=T, TamperAll=T, Masks=S([1, 128]), workers=3),
            shard("ctvar", Masters=q(["e"]), ModeSet=q(ALL_MODES), EncSet=q(["raw", "asn1"]), UidLens=S([0, 49]), MLens=S([1, 16, 100]),
                  Hids=S([3]), Variants=q(ALL_VARIANTS), Tamper=T, workers=4),
            # key exchange: every run variant, every corruption of R_A, R_B, S_B, S_A
            shard("kxtam", Masters=q(["e"]), KxLens=S([3]), Hids=S([2]), KxVars=q(KX_ALL), Tamper=T, TamperAll=T, Masks=S([1])),
            shard("kxvar", Masters=q(["e"]), MasterClasses=q(["r2", "one"]), KxLens=S([0, 5, 64]), Hids=S([2]), KxKLens=S([16, 133]), KxVars=q(KX_ALL), Tamper=T, workers=4),
            # longer histories: several artefacts alive at once, consumers in any order
            shard("mix", MaxOps=6, MaxArts=2, Masters=q(["s", "e"]), SignHows=q(["asn1"]), WrapHows=q(["func"]), ModeSet=q(["cbc"]), EncSet=q(["asn1"]), MLens=S([16]), Variants=q(["ok", "wrongid"]), workers=4),
        ]
    return [
        shard("codecS", MaxOps=2, Masters=q(["s"]), MasterClasses=q(["r1", "r2", "one", "nm2"]), CodecKinds=q(ALL_KINDS[:3]), UidLens=S([0, 1, 63, 64, 127, 200]), Hids=S([0, 1, 3, 255]), workers=4),
        shard("codecE", MaxOps=2, Masters=q(["e"]), MasterClasses=q(["r1", "r2", "one", "nm2"]), CodecKinds=q(ALL_KINDS[3:]), UidLens=S([0, 1, 63, 64, 127, 200]), Hids=S([0, 1, 3, 255]), workers=4),
        shard("sigtamA", Masters=q(["s"]), SignHows=q(["asn1"]), Variants=q(ALL_VARIANTS), Tamper=T, TamperAll=T, Masks=S([1, 2, 128, 255])),
        shard("sigtamF", Masters=q(["s"]), SignHows=q(["func"]), Variants=q(ALL_VARIANTS), Tamper=T, TamperAll=T, Masks=S([1, 2, 128, 255])),
        shard("sigtamM", Masters=q(["s"]), MasterClasses=q(["nm2"]), SignHows=q(["method"]), UidLens=S([64]), MLens=S([1]), RCs=q(["nm1"]), Variants=q(ALL_VARIANTS), Tamper=T, TamperAll=T, Masks=S([4, 64])),
        shard("sigvarA", Masters=q(["s"]), MasterClasses=q(["r2", "nm2"]), SignHows=q(["asn1", "func", "method"]), UidLens=S([0, 1, 63, 64, 200]), MLens=S([0, 1, 100]),
              Hids=S([1, 255]), RCs=q(["r1", "nm1"]), Variants=q(ALL_VARIANTS), workers=4),
        shard("sigvarB", Masters=q(["s"]), MasterClasses=q(["r1", "one"]), SignHows=q(["asn1", "func"]), UidLens=S([5, 60, 127, 128]), MLens=S([20, 191]),
              Hids=S([0, 3]), RCs=q(["r2", "one"]), Variants=q(ALL_VARIANTS), workers=4),
        shard("wraptam", Masters=q(["e"]), WrapHows=q(["func", "method"]), Variants=q(ALL_VARIANTS), Tamper=T, TamperAll=T, Masks=S([1, 2, 128, 255])),
        shard("wrapvarA", Masters=q(["e"]), MasterClasses=q(["r2", "one"]), WrapHows=q(["func", "method"]), UidLens=S([0, 1, 63, 64, 200]), KLens=S([16, 97, 133, 411]),
              Hids=S([3, 255]), RCs=q(["r1", "one"]), Variants=q(ALL_VARIANTS), Tamper=T, workers=4),
        shard("wrapvarB", Masters=q(["e"]), MasterClasses=q(["r1", "nm2"]), WrapHows=q(["func", "method"]), UidLens=S([5, 60, 127, 128]), KLens=S([32, 259]),
              Hids=S([0, 1]), RCs=q(["r2", "nm1"]), Variants=q(ALL_VARIANTS), Tamper=T, workers=4),
    ] + [
        shard("cttam-%s-%d" % (m, n), Masters=q(["e"]), ModeSet=q([m]), EncSet=q(["raw", "asn1"]), MLens=S([n]), Hids=S([3]), Tamper=T, TamperAll=T, Masks=S([1, 2, 128, 255]), workers=2)
        for m in ALL_MODES for n in (1, 16, 33)
    ] + [
        shard("ctvarA", Masters=q(["e"]), MasterClasses=q(["r1", "nm2"]), ModeSet=q(ALL_MODES), EncSet=q(["raw", "asn1"]), UidLens=S([0, 60, 200]), MLens=S([1, 16, 100]),
              Hids=S([3]), RCs=q(["r1", "nm1"]), Variants=q(ALL_VARIANTS), Tamper=T, workers=4),
        shard("ctvarB", Masters=q(["e"]), MasterClasses=q(["r2", "one"]), ModeSet=q(ALL_MODES), EncSet=q(["raw", "asn1"]), UidLens=S([1, 63, 64, 127]), MLens=S([15, 17, 65, 230]),
              Hids=S([0]), RCs=q(["r2"]), Variants=q(ALL_VARIANTS), Tamper=T, workers=4),
        shard("kxtam", Masters=q(["e"]), KxLens=S([3]), Hids=S([2]), KxVars=q(KX_ALL), Tamper=T, TamperAll=T, Masks=S([1, 2, 128, 255])),
        shard("kxvarA", Masters=q(["e"]), MasterClasses=q(["r2", "one"]), KxLens=S([0, 5, 64]), Hids=S([2, 255]), KxKLens=S([16, 133]), KxVars=q(KX_ALL), Tamper=T, workers=4),
        shard("kxvarB", Masters=q(["e"]), MasterClasses=q(["r1", "nm2"]), KxLens=S([1, 63, 200]), Hids=S([0, 1]), KxKLens=S([48, 300]), KxVars=q(KX_ALL), Tamper=T, workers=4),
        shard("mix", MaxOps=6, MaxArts=2, Masters=q(["s", "e"]), SignHows=q(["asn1"]), WrapHows=q(["func"]), ModeSet=q(["cbc", "xor"]), EncSet=q(["asn1"]), Hids=S([1]), MLens=S([16]),
              Variants=q(["ok", "wrongid", "wrongkey"]), workers=4),
    ]


def godebug(*parts):
    return ",".join(p for p in parts if p)


def sm3_tier(label):
    """GODEBUG string of the SM3 tier with that label in cfgs.K_SM3 (picked by label, not by position)"""
    for c in cfgs.K_SM3:
        if c["label"] == label:
            return c["env"].get("GODEBUG")
    raise core.Infra("cfgs.K_SM3 has no entry labelled %r" % label)


def record_cfgs(quick):
    """K_EC x SM3 tiers (GODEBUG settings combined into one string), one SM4 tier, the pure-Go build."""
    sm3 = [("", None), ("+sm3-avx", sm3_tier("avx(no avx2)")), ("+sm3-scalar", sm3_tier("scalar-asm"))]
    out = []
    for c in cfgs.K_EC:
        if "purego" in c["tags"]:
            out.append(c)
            continue
        if c["label"] == "no-avx2":      # already present as <tier>+sm3-avx (same GODEBUG switch)
            continue
        for suffix, gd in sm3:
            g = godebug(c["env"].get("GODEBUG"), gd)
            out.append(cfgs.c(c["label"] + suffix, g or None))
    out.append(cfgs.c("no-aes(sm4 go tables)+sm3-ssse3", godebug("cpu.aes=off", sm3_tier("ssse3(no avx)"))))
    return out


def replay_cfgs():
    out = []
    for c in cfgs.K_EC:
        out.append(c)
        if "purego" not in c["tags"]:
            out.append(cfgs.c(c["label"] + "+sm3-scalar", godebug(c["env"].get("GODEBUG"), sm3_tier("scalar-asm"))))
    return out


def kdf_class(klen):
    n = (klen + 31) // 32
    return "1-3" if n <= 3 else ("4-7" if n <= 7 else ">=8")


def rec_key(e):
    """shape of a recorded event: (operation, uid length mod 64, KDF block-count class / message class, mode, encoding, how)"""
    op = e["op"]
    if op in ("new", "parse", "master", "user"):
        return (op, e.get("kind"), e.get("form"), e.get("which"), e.get("how"), len(e.get("uid", "")) // 2 % 64)
    if op == "sign":
        return (op, len(e["uid"]) // 2 % 64, len(e["msg"]) // 2, e["how"])
    if op == "wrap":
        return (op, len(e["uid"]) // 2 % 64, kdf_class(e["klen"]), e["how"])
    if op == "enc":
        n = len(e["msg"]) // 2
        return (op, len(e["uid"]) // 2 % 64, kdf_class(n + 32 if e["mode"] == "xor" else 48), e["mode"], e["enc"], e["how"], e["dhow"], n % 16)
    if op == "kx":
        return (op, (len(e["ida"]) + len(e["idb"])) // 2 % 64, kdf_class(e["klen"]), e["confirm"])
    return (op,)


def trace_key(t):
    """shape of a replayed trace: the operations, and for the last step its variant / altered field / position class"""
    s = t["steps"]
    last = s[-1]
    return (tuple((x["op"], x.get("which"), x.get("how"), x.get("mode"), x.get("enc"), x.get("kind"), x.get("form"), len(x.get("uid", "")) // 2 % 64,
                   len(x.get("msg", "")) // 2, x.get("klen"), x.get("cls")) for x in s),
            last.get("variant"), last.get("field"), last.get("pos"), last.get("mask"), last.get("confirm"))


def first_diff(a, b):
    with open(a) as fa, open(b) as fb:
        for n, (la, lb) in enumerate(zip(fa, fb)):
            if la != lb:
                return n, la, lb
    return -1, "", ""


def history_of(path, t):
    return [json.loads(l) for l in core._lines(path) if json.loads(l)["t"] == t]


def run(ctx):
    quick = ctx.tier == "quick"
    # ---- A: the transcription is the standard's (annex examples as ASSUMEs)
    kat = threading.Thread(target=lambda: ctx.tlc("KAT_SM9", {}, workers=1, timeout=900, heap="2g"))
    kat.start()

    # ---- C: system machine, sharded (runs while the recordings are made and validated)
    sh = shards(quick)
    jobs, outs = [], {}
    for s in sh:
        o = os.path.join(ctx.scratch, "c10-%s.ndjson" % s["name"])
        outs[s["name"]] = o
        jobs.append(dict(module="MC_C10", name="MC_C10_" + s["name"], view="View", workers=s["workers"], timeout=3300, heap="3g",
                         constants=dict(s["consts"], Seed=ctx.seed, OutFile=core.tla_str(o)),
                         invariants=("TypeOK", "Complete", "Sound", "RoundTrip", "KxAgreement", "DlogRefinesG1")))
    mc_err = []

    def mc():
        try:
            ctx.tlc_many(jobs, parallel=6 if quick else 8)
        except Exception as e:       # re-raised in the main thread
            mc_err.append(e)
    mct = threading.Thread(target=mc)
    mct.start()

    # ---- B + D: one deterministic transcript per configuration
    rcfgs = record_cfgs(quick)
    nhist = 8 + (89 if quick else 2 * 201)
    for tags in sorted({tuple(c["tags"]) for c in rcfgs}):
        ctx.build("record", tags)
    with concurrent.futures.ThreadPoolExecutor(max_workers=6) as ex:
        files = list(ex.map(lambda c: ctx.record("sm9", nhist, tags=c["tags"], env=c["env"], name="sm9-" + c["label"]), rcfgs))
    digests = {}
    for c, f in zip(rcfgs, files):
        if f is None:
            continue                 # the recorder died: ctx.record has filed the crash
        digests.setdefault(hashlib.sha256(open(f, "rb").read()).hexdigest(), []).append((c, f))
    if not digests:
        raise core.Infra("no recording was produced")
    groups = sorted(digests.values(), key=lambda g: -len(g))
    ref_cfg, ref_file = groups[0][0]
    for g in groups[1:]:             # every output byte must be the same on every tier
        for c, f in g:
            n, la, lb = first_diff(ref_file, f)
            ev = json.loads(lb) if lb else {}
            ctx.fails.append({"idx": ev.get("t", -1), "fam": "recorded:sm9", "step": -1, "kind": "portability",
                              "got": json.dumps(core._shorten(ev)), "exp": json.dumps(core._shorten(json.loads(la) if la else {})),
                              "cfg": c["label"], "trace": {"fam": "recorded:sm9", "differs_from": ref_cfg["label"], "event_line": n,
                                                           "steps": history_of(f, ev.get("t", -1))[:40]},
                              "cfgspec": {"label": c["label"], "env": c["env"], "tags": list(c["tags"]), "recorded": True}})
    ctx.extra["portability"] = {"configurations": [c["label"] for c in rcfgs], "distinct_transcripts": len(groups),
                                "sha256": {g[0][0]["label"]: h for h, g in digests.items()}, "histories": nhist,
                                "events": core.count_lines(ref_file)}
    # each distinct transcript is checked against the specification (identical bytes need one check)
    for k, g in enumerate(groups):
        label = "+".join(c["label"] for c, _ in g)
        ctx.validate("Trace_Sm9", g[0][1], "sm9", shards=16 if k == 0 else 8, timeout=3300, label=label[:60], guard=(k == 0))
        if k == 0:
            ctx.validated += (len(g) - 1) * nhist      # the same bytes were produced under the other configurations of the group
    # vacuity: every residue of the KDF input alignment was exercised with >= 4 and >= 8 hash blocks
    cover = {"4-7": set(), ">=8": set()}
    for line in core._lines(ref_file):
        e = json.loads(line)
        if e["op"] == "wrap":
            kc, res = kdf_class(e["klen"]), len(e["uid"]) // 2 % 64
        elif e["op"] == "enc" and e["mode"] == "xor":
            kc, res = kdf_class(len(e["msg"]) // 2 + 32), len(e["uid"]) // 2 % 64
        elif e["op"] == "kx":
            kc, res = kdf_class(e["klen"]), (len(e["ida"]) + len(e["idb"])) // 2 % 64
        else:
            continue
        if kc in cover:
            cover[kc].add(res)
    both = set(range(64)) - (cover["4-7"] | cover[">=8"])
    seam = {r for r in list(range(52, 64)) + [0, 1, 2, 3] if r not in cover["4-7"] or r not in cover[">=8"]}
    if both or seam:
        raise core.Infra("recorded histories miss KDF alignments: no multi-lane class for %s, not both classes for %s" % (sorted(both), sorted(seam)))
    ctx.extra["kdf_alignment_cover"] = {k: len(v) for k, v in cover.items()}
    ctx.count_distinct(ref_file, rec_key)
    # observations outside the statement of C10 (recorded in the evidence, never a verdict)
    comp = {"uncompressed": 0, "compressed": 0}
    for line in core._lines(ref_file):
        e = json.loads(line)
        if e["op"] in ("master", "user") and not e["err"]:
            comp["uncompressed" if (e.get("pubcomp") or e.get("comp")) == (e.get("pubasn1") or e.get("asn1")) else "compressed"] += 1
    ctx.extra["observations"] = {"MarshalCompressedASN1_point_form": comp}
    k1 = ctx.record("sm9-k1zero", 1, name="sm9-k1zero")
    if k1 is not None:
        st = ctx.tlc("Trace_Sm9", {"TraceFile": core.tla_str(k1)}, spec="TraceSpec", postcondition="TraceAccepted", workers=1, timeout=900,
                     name="Trace_Sm9_k1zero_observation", allow_fail=True)
        ctx.tlc_runs.remove(st)
        verdict = "follows" if st["ok"] else ("deviates" if "TraceAccepted" in st["out_tail"] else "not decided")
        ctx.extra["observations"]["GMT0044.4_7.1_A6_K1_all_zero_draw_again"] = (
            verdict + ": for a nonce whose K1 is 00 (one-byte message, found by search through the library) the standard's encryption draws again; "
            "the library tests the whole K1||K2 (proposed_fixes/C10-sm9-encrypt-k1-zero.diff)")

    # key encapsulation around "K all zero: draw again" (klen = 1, one nonce in 256): recorded through the library with a scripted stream
    # whose first nonce gives K = 00; Trace_Sm9!TWrapK0 decides (the retry uses the NEXT block only, unwrapping returns the key)
    wz = ctx.record("sm9-wrapzero", 2 if quick else 6, name="sm9-wrapzero")
    ctx.validate("Trace_Sm9", wz, "sm9-wrapzero", shards=1 if quick else 3, guard=False, label="wrapzero", timeout=1500)

    # ---- C continued: replay
    mct.join()
    kat.join()
    if mc_err:
        raise mc_err[0]
    if not any(r["name"] == "KAT_SM9" and r["ok"] for r in ctx.tlc_runs):
        raise core.Infra("KAT_SM9 did not pass")
    allt = core.cat_files([outs[s["name"]] for s in sh], os.path.join(ctx.scratch, "c10.ndjson"))
    rc = replay_cfgs()
    if quick:
        ctx.replay_all(allt, rc, per_trace_timeout=60)
    else:
        # the every-position shards (two thirds of the traces differ only in the altered byte) run on the four field-arithmetic
        # backends; the others additionally with the scalar SM3 tier
        tam = [s["name"] for s in sh if s["consts"]["TamperAll"] == "TRUE"]
        ftam = core.cat_files([outs[n] for n in tam], os.path.join(ctx.scratch, "c10-tam.ndjson"))
        fvar = core.cat_files([outs[s["name"]] for s in sh if s["name"] not in tam], os.path.join(ctx.scratch, "c10-var.ndjson"))
        ctx.replay_all(fvar, rc, per_trace_timeout=60)
        ctx.replay_all(ftam, cfgs.K_EC, per_trace_timeout=60)
    ctx.binding_guard(outs[sh[0]["name"]], rc[0])
    ctx.binding_guard(outs["wraptam"], rc[0])
    for n in ("sigtamA", "ctvar" if quick else "ctvarA", "kxtam"):
        ctx.sample_traces(outs[n])
    ctx.count_distinct(allt, trace_key)
    ctx.extra["shards"] = [s["name"] for s in sh]
    ctx.assumptions += [
        "GT values are not computed by the specification (no F_p^12 tower in TLA+). Recorded direction: w, g1, g2, g3 are logged by the recorder (recomputed through the library's "
        "own GT exponentiation and, by a second route, its pairing) and every byte derived from them (h, S, K, C2, C3, SK, S_B, S_A) is recomputed exactly; the two routes must agree; "
        "the annex examples of GM/T 0044.5 (A signature, B key exchange, C encapsulation, D encryption XOR/ECB) driven through the public API must give the standard's outputs, which "
        "anchors the logged GT values absolutely. Replayed direction: group elements are discrete logarithms (model of C09); H1, user-key scalars, all G1/G2 values and encodings are "
        "exact; verdicts follow from the scheme's equations on that model; H2/KDF/MAC on GT arguments are idealised (H2 evaluated on the logarithm, KDF/MAC as terms). "
        "A consistent error in every GT path that preserved all relations and the annex constants would escape (limit of C09)",
        "uid lengths " + ("every residue mod 64 plus 64..70, 124..130, 190..200" if quick else "0..200 (twice, with different parameter rotations)")
        + "; KDF output classes 1..3 / 4..7 / >= 8 hash blocks for every alignment of the KDF input (both large classes at the seams 52..63, 0..3); message and key bytes pseudo-random per seed",
        "single-byte alterations: every byte position of ASN.1 and (h,S) signatures, of encapsulated keys, of ciphertexts with |M| " + ("= 17" if quick else "in {1, 16, 33}")
        + " in all five modes and both encodings, of R_A, R_B, S_B, S_A, with XOR masks " + ("{01, 80}" if quick else "{01, 02, 80, ff}") + "; first/last byte of every field elsewhere. "
        "An altered coordinate of S is taken to leave the curve (S is not known exactly to the model; C1, R_A, R_B are, and are decided exactly). "
        "Altering the EnType byte of an ASN.1 ciphertext to another defined mode is left open (EnType is outside C3 by the standard): only 'no panic' is required there",
        "MarshalCompressedASN1 of the four point-valued key kinds: the property asks that the encoding parses back to an equal key; the uncompressed and the compressed point are both let through "
        "(the pinned tree writes the uncompressed point); compressed encodings offered to the parsers are computed by the specification (replay) / by the library's internal MarshalCompressed (recording)",
        "the encryption's 'K1 all zero: draw again' rule of GM/T 0044.4 (the library tests the whole K) is outside the property and has probability 2^-8|M|; not forced here",
    ]
    return ctx.finish(rule="replayed: one case per TLC transition of MC_C10 (history of <= 3-5 operations ending in a consumer step: variant x altered position x mask); recorded: "
                           "one case per history (one identity length, all operations) per configuration; distinct = distinct operation/length-class/mode/encoding/variant/position tuples",
                      exhaustive=False)
