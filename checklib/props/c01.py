"""C01 SM3 digest and SM3-KDF: HashObj histories (MC_C01), KDF (MC_C01kdf), replay on every SM3 tier."""
import os
from .. import core, cfgs

S = core.tla_set


def run(ctx):
    ctx.kats(["KAT_SM3"], seed_const=("GF2Agree", "BigNatAgree"))
    out_h = os.path.join(ctx.scratch, "c01hash.ndjson")
    out_k = os.path.join(ctx.scratch, "c01kdf.ndjson")
    if ctx.tier == "quick":
        hjobs = [("h3", dict(WriteLens=S([0, 1, 55, 56, 63, 64, 65, 128, 191]), WriteLens2=S([1, 64]),
                             OneShotLens=S([0, 1, 55, 56, 63, 64, 65, 119, 120, 128, 129, 257]), MaxOps=3)),
                 # longer histories on a small alphabet: Sum before an import / reset / write on the same object, imports after imports
                 ("h5small", dict(WriteLens=S([1, 64]), WriteLens2=S([1]), OneShotLens=S([]), MaxOps=5))]
        zl = list(range(0, 71)) + [124, 125, 126, 127]
        kl = [1, 32, 33, 96, 97, 128, 129, 255, 256, 257, 300]
        zshards = 4
    else:
        hjobs = [("h4", dict(WriteLens=S([0, 1, 55, 56, 63, 64, 65, 128, 191]), WriteLens2=S([1, 64]),
                             OneShotLens=S(list(range(0, 130)) + [255, 256, 257, 1023, 1024, 1025]), MaxOps=4)),
                 ("h3mid", dict(WriteLens=S([0, 1, 8, 55, 56, 57, 63, 64, 65, 72, 119, 120, 127, 128, 129, 191, 192]), WriteLens2=S([1, 63]), OneShotLens=S([]), MaxOps=3)),
                 ("h6small", dict(WriteLens=S([1, 64]), WriteLens2=S([1]), OneShotLens=S([]), MaxOps=6)),
                 ("h2all", dict(WriteLens=S(range(0, 201)), WriteLens2=S([1, 63]), OneShotLens=S([]), MaxOps=2))]
        zl = list(range(0, 201))
        kl = sorted(set(sum([[32 * k - 1, 32 * k, 32 * k + 1] for k in range(1, 18)], [])))
        zshards = 8
    jobs, outs_h, outs_k = [], [], []
    for name, consts in hjobs:
        o = "%s.%s" % (out_h, name)
        outs_h.append(o)
        jobs.append(dict(module="MC_C01", name="MC_C01_" + name, view="View", workers=8, timeout=3300,
                         constants=dict(consts, Seed=ctx.seed, OutFile=core.tla_str(o)), invariants=("TypeOK",), properties=("SumPure",)))
    # long streams: the suffix of a stream of 2^29 / 2^32 / 2^45 / 2^60 bytes, entered through the length field of the exported state
    o = "%s.big" % out_h
    outs_h.append(o)
    jobs.append(dict(module="MC_C01big", name="MC_C01big", workers=6, timeout=1800, invariants=("TypeOK",),
                     constants=dict(Seed=ctx.seed, N1=S([0, 1, 55, 56, 63, 64, 65] if ctx.tier == "quick" else [0, 1, 8, 55, 56, 57, 63, 64, 65, 119, 120, 127, 128, 129]),
                                    N2=S([0, 1, 8, 9, 56, 64, 65, 128] if ctx.tier == "quick" else [0, 1, 8, 9, 55, 56, 57, 63, 64, 65, 72, 127, 128, 129, 192]),
                                    DeltaIds=S([1, 2, 3, 4, 5, 6]), OutFile=core.tla_str(o))))
    if ctx.tier == "quick":
        # every block count 1..17 of the output (each remainder of the 4- and 8-lane batches on both SIMD tiers) on a few alignments of z
        o = "%s.blocks" % out_k
        outs_k.append(o)
        jobs.append(dict(module="MC_C01kdf", name="MC_C01kdf_blocks", view="View", workers=4, timeout=3300,
                         constants=dict(Seed=ctx.seed, ZLens=S([0, 1, 32, 55, 59, 60, 63, 64]), KLens=S([32 * k for k in range(1, 18)] + [7 * 32 - 31, 11 * 32 - 31]),
                                        OutFile=core.tla_str(o)), invariants=("PrefixOK",)))
    for i in range(zshards):
        o = "%s.%d" % (out_k, i)
        outs_k.append(o)
        jobs.append(dict(module="MC_C01kdf", name="MC_C01kdf_%d" % i, view="View", workers=3, timeout=3300,
                         constants=dict(Seed=ctx.seed, ZLens=S(zl[i::zshards]), KLens=S(kl), OutFile=core.tla_str(o)), invariants=("PrefixOK",)))
    # small instances on which the caches are checked to be what they claim (refinement of the definition)
    jobs.append(dict(module="MC_C01", name="MC_C01_refine", view="View", workers=2, timeout=900,
                     constants=dict(Seed=ctx.seed, WriteLens=S([0, 1, 63, 64, 65]), WriteLens2=S([1]), OneShotLens=S([]), MaxOps=2,
                                    OutFile=core.tla_str(os.path.join(ctx.scratch, "c01refine.ndjson"))),
                     invariants=("TypeOK", "CvIsChain", "DigestIsHash")))
    jobs.append(dict(module="MC_C01kdf", name="MC_C01kdf_refine", view="View", workers=2, timeout=900,
                     constants=dict(Seed=ctx.seed, ZLens=S([0, 1, 59, 60, 63, 64]), KLens=S([33]), OutFile=core.tla_str(os.path.join(ctx.scratch, "c01krefine.ndjson"))),
                     invariants=("PrefixOK", "StreamIsKdf")))
    # implementation-shaped model of digest{h,x,nx,len} with a symbolic chaining value: refines HashObj for every chunk length
    jobs.append(dict(module="Sm3Digest", name="Sm3Digest", workers=4, timeout=900, invariants=("Refines", "Bookkeeping", "SumOk"),
                     constants=dict(Lens=core.tla_set(list(range(0, 131)) + [191, 192, 193, 255, 256, 257]) if ctx.tier == "thorough" else core.tla_set([0, 1, 7, 55, 56, 57, 63, 64, 65, 119, 120, 127, 128, 129, 200]),
                                    MaxLen=600, MaxOps=(3 if ctx.tier == "thorough" else 4))))
    # implementation-shaped lane-template model (integers only): holds under the fixed sizing rule ...
    jobs.append(dict(module="KdfLanes", name="KdfLanes_new", constants=dict(Rule='"new"'), invariants=("TemplateExact", "CounterInside"), workers=1, timeout=300))
    # behaviour beyond the listed property: the ZA-prefixed hash object of package sm2 (MC_C01za); an OBSERVATION, never a verdict of C01
    za_out = os.path.join(ctx.scratch, "c01za.ndjson")
    jobs.append(dict(module="MC_C01za", name="MC_C01za", workers=3, timeout=1200, invariants=("TypeOK",),
                     constants=dict(Seed=ctx.seed, UidLens=S([0, 16] if ctx.tier == "quick" else [0, 1, 16, 200]), N1=S([0, 1, 64]), N2=S([0, 63] if ctx.tier == "quick" else [0, 1, 63, 64]),
                                    N3=S([1, 55] if ctx.tier == "quick" else [0, 1, 55, 56, 64]), OutFile=core.tla_str(za_out))))
    ctx.tlc_many(jobs, parallel=5)
    # ... and TLC must refute it under the pre-fix rule (documents D1; a model that cannot fail proves nothing)
    old = ctx.tlc("KdfLanes", dict(Rule='"old"'), invariants=("TemplateExact", "CounterInside"), workers=1, timeout=300, name="KdfLanes_old", allow_fail=True)
    ctx.tlc_runs.remove(old)
    if old["ok"] or "TemplateExact is violated" not in old["out_tail"]:
        raise core.Infra("KdfLanes: the pre-fix sizing rule was not refuted by TLC")
    ctx.extra["kdf_lanes_old_rule_refuted"] = True
    core.cat_files(outs_h, out_h)
    core.cat_files(outs_k, out_k)
    allt = core.cat_files([out_h, out_k], os.path.join(ctx.scratch, "c01.ndjson"))
    saved = (ctx.fails, ctx.replayed, ctx.steps, dict(ctx.per_cfg))
    ctx.fails = []
    obs = ctx.replay(za_out, cfgs.K_SM3[0]) if os.path.exists(za_out) else []
    ctx.fails, ctx.replayed, ctx.steps, ctx.per_cfg = saved
    ctx.extra["sm2_hash_object_observation"] = {"cases": core.count_lines(za_out) if os.path.exists(za_out) else 0, "deviations": len(obs), "first": (core._shorten(obs[0]) if obs else None),
                                                "note": "sm2.NewHash* (ZA-prefixed running hash, Reset returns to 'ZA absorbed', digest = e of GB/T 32918.2) against MC_C01za; outside the wording of C01, never a verdict"}
    ctx.replay_all(allt, cfgs.K_SM3)
    ctx.binding_guard(out_h, cfgs.K_SM3[0])
    ctx.binding_guard(out_k, cfgs.K_SM3[0])
    # code -> spec: recorded random histories on real objects, validated by TLC against HashObj
    nrec = 120 if ctx.tier == "quick" else 1500
    for c in (cfgs.K_SM3[0], cfgs.K_SM3[2], cfgs.K_SM3[3], cfgs.K_SM3[4]):
        ev = ctx.record("sm3hash", nrec, tags=c["tags"], env=c["env"], name="sm3hash-" + c["label"])
        ctx.validate("Trace_Hash", ev, "sm3hash", shards=4 if ctx.tier == "quick" else 5, label=c["label"], guard=(c is cfgs.K_SM3[0]))
    ctx.sample_traces(out_h)
    ctx.sample_traces(out_k)

    def key(t):
        if t["fam"] == "sm3kdf":
            s = t["steps"][0]
            return ("kdf", s["via"], len(s["z"]) // 2, s["n"])
        return ("hash",) + tuple((s["op"], s.get("o"), len(s.get("data", "")) // 2) for s in t["steps"][1:])
    ctx.count_distinct(allt, key)
    ctx.assumptions += ["messages up to ~400 bytes (hash histories) / 1025 bytes (one-shot); stream positions beyond 2^29, 2^32, 2^45 and 2^60 bytes are entered through the byte count of an exported state (MC_C01big: the digest of the suffix given chaining value, tail and total length), not by hashing that much data",
                        "chunk contents are pseudo-random; chunk lengths, operation sequences, (len z, keyLen) pairs are enumerated"]
    return ctx.finish(rule="one case per TLC transition: hash histories over Write/Sum/Reset/Marshal/Unmarshal with seam lengths on two objects, one-shot lengths, (len z, keyLen, entry point) KDF requests; each replayed on 5 SM3 tiers; distinct = distinct operation/length tuples")
