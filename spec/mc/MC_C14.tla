------------------------------- MODULE MC_C14 -------------------------------
(* C14: bounded instance of obj/KeyContainer.tla + emission (family "keycont"). *)
(* A behaviour is  New(key) -> Marshal(container) -> [one alteration] -> Parse.  *)
(* TLC enumerates the product  key kind x scalar class x container x cipher x    *)
(* KDF x PEM cipher  (Tier "thorough": full product; "quick": a pairwise cover    *)
(* given by modular formulas rotated by Seed), the single-byte alterations        *)
(* (region, index, mask) of the chosen containers, wrong passwords / unwrapping   *)
(* keys and out-of-range scalars, checks the clauses of C14 as invariants on the  *)
(* outcome algebra, and at every Parse emits the trace with the ALLOWED OUTCOME   *)
(* SET.  Exact bytes are dictated only where the standard fixes them: the raw      *)
(* 32-byte scalar encoding and the public point [d]G of SM2-curve and P-256 keys   *)
(* (algo/SM2.tla, algo/EC.tla).                                                    *)
EXTENDS Integers, Sequences, FiniteSets, TLC, Json
CONSTANTS Seed,
          Tier,        \* "quick" | "thorough"
          Parts,       \* subset of {"rt", "tamper", "inject"}: the scenario families of this run
          KindsRun,    \* the key kinds of this run (sharding over JVMs)
          OutFile
VARIABLES key, cont, status, outcome
INSTANCE KeyContainer
S  == INSTANCE SM2
BN == INSTANCE BigNat
By == INSTANCE Bytes
R  == INSTANCE Prng
Hx == INSTANCE Hex
Em == INSTANCE Emit
Q == Tier = "quick"

(* ------------------------------------------------------------------ curves *)
P256P  == Hx!ToBytes("ffffffff00000001000000000000000000000000ffffffffffffffffffffffff")
P256A  == Hx!ToBytes("ffffffff00000001000000000000000000000000fffffffffffffffffffffffc")
P256B  == Hx!ToBytes("5ac635d8aa3a93e7b3ebbd55769886bc651d06b0cc53b0f63bce3c3e27d2604b")
P256N  == Hx!ToBytes("ffffffff00000000ffffffffffffffffbce6faada7179e84f3b9cac2fc632551")
P256Gx == Hx!ToBytes("6b17d1f2e12c4247f8bce6e563a440f277037d812deb33a0f4a13945d898c296")
P256Gy == Hx!ToBytes("4fe342e2fe1a7f9b8ee7eb4a7c0f9e162bce33576b315ececbb6406837bf51f5")
E256 == INSTANCE EC WITH P <- P256P, A <- P256A, B <- P256B, N <- P256N, Gx <- P256Gx, Gy <- P256Gy, CLen <- 32
P384N == Hx!ToBytes("ffffffffffffffffffffffffffffffffffffffffffffffffc7634d81f4372ddf581a0db248b0a77aecec196accc52973")            \* FIPS 186-4 D.1.2.4
P521N == Hx!ToBytes("01fffffffffffffffffffffffffffffffffffffffffffffffffffffffffffffffffa51868783bf2f966b7fcc0148f709a5d03bb5c9b8899c47aebb6fb71e91386409")   \* D.1.2.5
SM9N == Hx!ToBytes("b640000002a3a6f1d603ab4ff58ec74449f2934b18ea8beee56ee19cd69ecf25")     \* GM/T 0044.5 order of G1, G2, GT
(* FIPS 186-4 D.1.2.3 base point is on the curve; RFC 6979 A.2.5 key pair *)
ASSUME E256!OnCurve(E256!G)
ASSUME E256!Mul(Hx!ToBytes("c9afa9d845ba75166b5c215767b1d6934e50c3db36e89b127b8a622b120f6721"), E256!G)
       = <<Hx!ToBytes("60fed4ba255a9d31c961eb74c6356d68c049b8923b61fa6ce669622e60f29fb6"),
           Hx!ToBytes("7903fe1008b8bc99a41ae9e95628bc64f2f1b20c2d7e9f5177a3c294d4462299")>>

(* ------------------------------------------------------------------ scalars *)
NOf(kind) == CASE kind \in {"sm2", "ecdh"} -> S!N [] kind = "ecdsa" -> P256N [] kind = "ecdsa384" -> P384N [] kind = "ecdsa521" -> P521N [] OTHER -> SM9N
SLen(kind) == CASE kind = "ecdsa384" -> 48 [] kind = "ecdsa521" -> 66 [] OTHER -> 32          \* octets of an encoded scalar
F32(x) == BN!ToFixed(x, 32)
ClsSeq == <<"one", "nMinus2", "hiByteZero", "loByteZero", "hiBitSet", "random1", "random2">>
AllClsSeq == ClsSeq \o <<"nMinus1", "zero", "n", "nPlus1", "max", "wide", "negative", "rsa2048", "rsa1024">>
IndexOf(seq, x) == CHOOSE i \in 1..Len(seq) : seq[i] = x
(* big-endian scalar of a class, SLen(kind) octets (one more for "wide"); classes that depend on the group order take it from the kind. *)
(* P-521: the top octet of the order is 01, so the first octet of a pseudo-random scalar is 01 and the second below ff.                  *)
Scalar(kind, cls) ==
  LET n == NOf(kind)
      L == SLen(kind)
      b == SubSeq(R!Bytes(Seed, 1400 + IndexOf(AllClsSeq, cls), L), 1, L)
      FL(x) == BN!ToFixed(x, L)
      top(v) == IF kind = "ecdsa521" THEN <<1, b[2] % 255>> ELSE <<v, b[2]>>
  IN CASE cls = "one"        -> FL(<<1>>)
       [] cls = "nMinus2"    -> FL(BN!Sub(n, <<2>>))
       [] cls = "nMinus1"    -> FL(BN!Sub(n, <<1>>))
       [] cls = "hiByteZero" -> <<0, 128 + (b[2] % 128)>> \o SubSeq(b, 3, L)         \* leading zero octet, then an octet with the top bit set: an encoder
                                                                                   \* that strips zeros must still emit the DER sign octet ("one" is the
                                                                                   \* complementary case: zeros stripped, no sign octet needed)
       [] cls = "loByteZero" -> top((b[1] % 127) + 1) \o SubSeq(b, 3, L - 1) \o <<0>>
       [] cls = "hiBitSet"   -> top(128 + (b[1] % 48)) \o SubSeq(b, 3, L)             \* DER INTEGER needs a sign octet; below every order
       [] cls \in {"random1", "random2", "negative"} -> top((b[1] % 127) + 1) \o SubSeq(b, 3, L)
       [] cls = "zero"       -> By!Zeros(L)
       [] cls = "n"          -> FL(n)
       [] cls = "nPlus1"     -> FL(BN!Add(n, <<1>>))
       [] cls = "max"        -> By!Rep(255, L)
       [] cls = "wide"       -> <<1>> \o FL(<<5>>)                                    \* 2^256 + 5
(* the valid classes really are valid and the invalid ones invalid, on the definitions *)
InRange(kind, d) == ~BN!IsZero(d) /\ BN!Le(d, BN!Sub(NOf(kind), IF kind \in EcdsaKinds THEN <<1>> ELSE <<2>>))
ASSUME \A kind \in {"sm2", "ecdsa", "ecdsa384", "ecdsa521", "sm9sm"} : /\ \A c \in ValidCls(kind) : InRange(kind, Scalar(kind, c))
                                               /\ \A c \in BadCls(kind) \ {"negative"} : ~InRange(kind, Scalar(kind, c))

(* public points dictated by the specification, computed once (zero-arity definitions are evaluated once) *)
PubClsSeq == ClsSeq \o <<"nMinus1">>
PubSm2  == SubSeq([i \in 1..7 |-> Hx!FromBytes(S!Ec!Uncompressed(S!PublicKey(Scalar("sm2", ClsSeq[i]))))], 1, 7)
PubP256 == SubSeq([i \in 1..8 |-> Hx!FromBytes(E256!Uncompressed(E256!Mul(Scalar("ecdsa", PubClsSeq[i]), E256!G)))], 1, 8)
PubHex(k) == IF k.kind = "ecdsa" THEN PubP256[IndexOf(PubClsSeq, k.cls)] ELSE PubSm2[IndexOf(ClsSeq, k.cls)]
HasPubHex(k) == k.kind \in {"sm2", "ecdh", "ecdsa"}

(* ------------------------------------------------------------------ passwords *)
NZ(s) == SubSeq([i \in 1..Len(s) |-> (s[i] % 255) + 1], 1, Len(s))          \* no zero octets: HMAC pads keys with zeros
PwSeq == <<"short", "ascii8", "bin32", "long">>
Pw(pwc) == CASE pwc = "short"  -> <<112>>
             [] pwc = "ascii8" -> <<80, 97, 115, 115, 119, 48, 114, 100>>
             [] pwc = "bin32"  -> NZ(R!Bytes(Seed, 1501, 32))
             [] pwc = "long"   -> NZ(R!Bytes(Seed, 1502, 100))
             [] OTHER          -> <<>>                                          \* "empty", "-"
Bump(b) == IF b = 255 THEN 1 ELSE b + 1
(* wrong passwords: first octet changed, last octet dropped, one octet appended, unrelated, none at all *)
WrongPws(pw) ==
  LET cands == IF pw = <<>> THEN << <<120>>, NZ(R!Bytes(Seed, 1503, 9)) >>
               ELSE << <<Bump(pw[1])>> \o Tail(pw), SubSeq(pw, 1, Len(pw) - 1), pw \o <<120>>, NZ(R!Bytes(Seed, 1503, 9)), <<>> >>
  IN SelectSeq(cands, LAMBDA w : w # pw)
HexSeq(ss) == SubSeq([i \in 1..Len(ss) |-> Hx!FromBytes(ss[i])], 1, Len(ss))

(* ------------------------------------------------------------------ scenario enumeration *)
KindSeq8 == <<"sm2", "ecdh", "ecdsa", "rsa", "sm9sm", "sm9su", "sm9em", "sm9eu">>
KindIdx(kind) == IndexOf(<<"sm2", "ecdh", "ecdsa", "rsa", "sm9sm", "sm9su", "sm9em", "sm9eu", "sm9smp", "sm9emp", "ecdsa384", "ecdsa521">>, kind)
BigEc == {"ecdsa384", "ecdsa521"}
ClsAt(kind, j) == IF kind = "rsa" THEN (IF j % 2 = 0 THEN "rsa2048" ELSE "rsa1024") ELSE ClsSeq[(j % 7) + 1]
KeyIdx(k) == KindIdx(k.kind) * 16 + IndexOf(AllClsSeq, k.cls)
SaltSeq == <<1, 8, 16, 33>>
IterSeq == <<1, 2, 3, 17>>
ScryptSeq == << <<2, 1, 1>>, <<4, 1, 1>>, <<16, 2, 1>>, <<8, 1, 2>> >>
InnerOf(kind) == IF kind \in {"sm2"} \cup EcdsaKinds THEN "sec1" ELSE IF kind = "rsa" THEN "pkcs1" ELSE "pkcs8"
SweepN == IF Q THEN 300 ELSE 1024

(* a scheme: <<pbes, cipher, kdf, sid>> *)
Pbes2Sch(i, j) == <<"pbes2", Pbes2Ciphers[i + 1], Kdfs[j + 1], i * 10 + j>>
SmSch(j)       == <<"smpbes", "sm4cbc", Kdfs[j + 1], 120 + j>>
P1Sch(i)       == <<"pbes1", Pbes1Variants[i + 1], "-", 130 + i>>
DefSch         == <<"default", "aes256cbc", "pbkdf2-sha256", 136>>
CheapKdf(sch)  == sch[1] = "pbes1" \/ (sch[1] # "default" /\ sch[3] # "scrypt")
(* an encrypted PKCS#8 container for scheme sch; salt size, iteration count, scrypt parameters and password class are drawn per (scheme, key) *)
EncC(sch, k, sweepOK) ==
  LET h == R!Word16(Seed, 1700 + sch[4], KeyIdx(k))
      sp == ScryptSeq[((h \div 16) % 4) + 1]
  IN [C0 EXCEPT !.fmt = "PKCS8enc", !.pbes = sch[1], !.cipher = sch[2], !.kdf = sch[3],
                !.salt = IF sch[1] = "default" THEN 16 ELSE SaltSeq[(h % 4) + 1],
                !.iter = IF sch[1] = "default" THEN 2048 ELSE IterSeq[((h \div 4) % 4) + 1],
                !.n = sp[1], !.r = sp[2], !.p = sp[3],
                !.pwc = PwSeq[((h \div 64) % 4) + 1],
                !.sweep = IF sweepOK /\ CheapKdf(sch) /\ sch[2] \notin GcmCiphers THEN SweepN ELSE 0]
(* explicit parameters (tamper scenarios: one-octet work factors >= 2, non-empty salt; parameter product) *)
EncP(sch, salt, iter, sp, pwc) ==
  [C0 EXCEPT !.fmt = "PKCS8enc", !.pbes = sch[1], !.cipher = sch[2], !.kdf = sch[3], !.salt = salt, !.iter = iter,
             !.n = sp[1], !.r = sp[2], !.p = sp[3], !.pwc = pwc]
PemC(pemc, k, sweepOK) == [C0 EXCEPT !.fmt = "PEMenc", !.pemc = pemc, !.inner = InnerOf(k.kind),
                                     !.pwc = PwSeq[(R!Word16(Seed, 1800, KeyIdx(k)) % 4) + 1], !.sweep = IF sweepOK THEN SweepN ELSE 0]
PlainC(fmt, papi) == [C0 EXCEPT !.fmt = fmt, !.papi = papi]
EnvC(uw) == [C0 EXCEPT !.fmt = "SM2Enveloped", !.papi = uw]            \* papi carries the class of the unwrapping key
CfcaC(pwc, sweepOK) == [C0 EXCEPT !.fmt = "CFCA", !.pwc = pwc, !.sweep = IF sweepOK THEN SweepN ELSE 0]

PlainConts(k) ==
  LET kind == k.kind
  IN (IF kind \in Pkcs8Kinds THEN {PlainC("PKCS8", "pkcs8"), PlainC("PKCS8", "smx509")} ELSE {})
     \cup (IF kind = "sm2" THEN {PlainC("SEC1", "direct"), PlainC("SEC1", "typed")} ELSE IF kind \in EcdsaKinds THEN {PlainC("SEC1", "direct")} ELSE {})
     \cup (IF kind \in {"sm2", "ecdh", "rsa"} \cup EcdsaKinds THEN {PlainC("PKIX", "-")} ELSE {})
     \cup (IF kind \in {"sm2", "ecdh"} THEN {PlainC("RAW", "-")} ELSE {})
     \cup (IF kind \in Sm9Kinds THEN {PlainC("SM9asn1", "-")} ELSE {})
     \cup (IF kind \in Sm9Points THEN {PlainC("SM9raw", "-"), PlainC("SM9rawc", "-"), PlainC("SM9asn1c", "-")} ELSE {})

(* quick tier: rows of a pairwise cover.  Row (i, j) of the cipher x KDF grid takes kind (i+j+Seed) mod 8 and class (i+2j+Seed) mod 7,  *)
(* so every (kind, cipher) and (kind, KDF) pair occurs; two more families give every (cipher, class) and (KDF, class) pair.               *)
RowKey(a, b) == LET kind == KindSeq8[((a + Seed) % 8) + 1] IN [kind |-> kind, cls |-> ClsAt(kind, b + Seed)]
NonRsa == <<"sm2", "ecdh", "ecdsa", "sm9sm", "sm9su", "sm9em", "sm9eu">>
QuickEnc(k) ==
  {EncC(Pbes2Sch(ij[1], ij[2]), k, (ij[1] + ij[2]) % 3 = 0) : ij \in {x \in (0..11) \X (0..9) : RowKey(x[1] + x[2], x[1] + 2 * x[2]) = k}}
  \cup {EncC(Pbes2Sch(ic[1], (ic[1] + 3 * ic[2] + Seed) % 10), k, FALSE) :
          ic \in {x \in (0..11) \X (0..6) : k = [kind |-> NonRsa[((x[1] + x[2] + Seed) % 7) + 1], cls |-> ClsSeq[x[2] + 1]]}}
  \cup {EncC(Pbes2Sch((jc[1] + 5 * jc[2] + Seed) % 12, jc[1]), k, FALSE) :
          jc \in {x \in (0..9) \X (0..6) : k = [kind |-> NonRsa[((2 * x[1] + x[2] + Seed) % 7) + 1], cls |-> ClsSeq[x[2] + 1]]}}
  \cup {EncC(SmSch(j), k, j % 4 = 0) : j \in {x \in 0..9 : RowKey(x + 3, x) = k}}
  \cup {EncC(P1Sch(i), k, TRUE) : i \in {x \in 0..5 : RowKey(x + 5, 2 * x + 1) = k}}
  \cup (IF RowKey(1, 5) = k THEN {EncC(DefSch, k, FALSE)} ELSE {})
  \cup (IF k.kind \in BigEc THEN {EncC(Pbes2Sch((KeyIdx(k) + Seed) % 12, (3 * KeyIdx(k) + Seed) % 10), k, k.cls = "hiByteZero")} ELSE {})     \* P-384 / P-521: one row per key
ThoroughEnc(k) ==
  {EncC(Pbes2Sch(ij[1], ij[2]), k, k.cls \in {"random1", "rsa1024"}) : ij \in (0..11) \X (0..9)}
  \cup {EncC(SmSch(j), k, k.cls \in {"random1", "rsa1024"}) : j \in 0..9}
  \cup {EncC(P1Sch(i), k, k.cls \in {"random1", "rsa1024"}) : i \in 0..5}
  \cup {EncC(DefSch, k, FALSE)}
(* salt size x iteration count x password class (incl. the empty password = plain PKCS#8), scrypt parameters *)
ParamConts(k) ==
  IF ~(k \in {[kind |-> "sm2", cls |-> "random1"], [kind |-> "sm9eu", cls |-> "random2"]}) THEN {}
  ELSE LET schs == IF Q THEN {Pbes2Sch(1, 7), P1Sch(2)} ELSE {Pbes2Sch(1, 7), Pbes2Sch(5, 0), P1Sch(2), P1Sch(5), SmSch(8), Pbes2Sch(0, 2)}
           salts == IF Q THEN {0, 33} ELSE {0, 1, 8, 16, 33}
           iters == IF Q THEN {1, 100} ELSE {1, 2, 100}
           pwcs == {"short", "ascii8", "bin32", "long", "empty"}
       IN {EncP(x[1], x[2], x[3], <<2, 1, 1>>, x[4]) : x \in schs \X salts \X iters \X pwcs}
          \cup {EncP(Pbes2Sch(x[1], 9), x[2], 1, x[3], "ascii8") :
                  x \in (IF Q THEN {2} ELSE {2, 8}) \X {0, 8} \X (IF Q THEN {<<2, 1, 1>>, <<64, 2, 2>>} ELSE {<<2, 1, 1>>, <<16, 1, 1>>, <<64, 1, 1>>, <<16, 2, 1>>, <<16, 1, 2>>, <<64, 2, 2>>})}
RtConts(k) ==
  PlainConts(k)
  \cup (IF k.kind \in Pkcs8Kinds
        THEN (IF Q THEN QuickEnc(k) ELSE ThoroughEnc(k))
             \cup {PemC(PemCiphers[i + 1], k, k.cls \in {"random1", "rsa1024"} \/ Q) :
                     i \in {x \in 0..5 : ~Q \/ k.cls = ClsAt(k.kind, x + KindIdx(k.kind) + Seed)}}
             \cup ParamConts(k)
        ELSE {})
  \cup (IF k.kind = "sm2"
        THEN {EnvC(uw) : uw \in IF Q THEN {ClsSeq[((IndexOf(ClsSeq, k.cls) + Seed) % 7) + 1]} ELSE {"random2", "one", "nMinus2", "hiByteZero"}}
             \cup {CfcaC(pwc, k.cls \in {"random1", "hiByteZero"}) : pwc \in IF Q THEN {PwSeq[((IndexOf(ClsSeq, k.cls) + Seed) % 4) + 1]} ELSE {"short", "ascii8", "bin32", "long"}}
        ELSE {})

(* containers whose single-byte alterations are enumerated; explicit one-octet KDF work factors (>= 2: a count of 1 and a   *)
(* non-positive count derive the same key), non-empty salt                                                                   *)
TP(sch) == EncP(sch, 8, 3, <<4, 1, 1>>, "ascii8")
TamperConts(k) ==
  CASE k = [kind |-> "sm2", cls |-> "random1"] ->
         {TP(Pbes2Sch(2, 7)), TP(Pbes2Sch(9, 9)), EnvC("random2"), CfcaC("ascii8", FALSE)}                                    \* authenticated
         \cup (IF Q THEN {} ELSE {TP(Pbes2Sch(i, j)) : i \in {2, 5, 7, 9}, j \in {2, 7, 9}})
         \cup {PlainC("PKCS8", "pkcs8"), PlainC("SEC1", "direct"), PlainC("PKIX", "-"), PlainC("RAW", "-"),
               TP(Pbes2Sch(1, 7)), TP(Pbes2Sch(0, 7)), TP(Pbes2Sch(10, 0)), TP(P1Sch(2)),
               [PemC("sm4", k, FALSE) EXCEPT !.pwc = "ascii8"]}
         \cup (IF Q THEN {} ELSE {TP(Pbes2Sch(3, 2)), TP(Pbes2Sch(4, 9)), TP(Pbes2Sch(11, 8)), TP(SmSch(8)), TP(P1Sch(5)), TP(P1Sch(1)), EncP(DefSch, 16, 2048, <<2, 1, 1>>, "ascii8"),
                                  [PemC("des", k, FALSE) EXCEPT !.pwc = "ascii8"], [PemC("aes256", k, FALSE) EXCEPT !.pwc = "ascii8"]})
    [] k = [kind |-> "sm2", cls |-> "hiByteZero"] -> {EnvC("nMinus2"), CfcaC("bin32", FALSE)}
    [] k = [kind |-> "rsa", cls |-> "rsa1024"] ->
         {PlainC("PKCS8", "pkcs8"), PlainC("PKIX", "-"), TP(Pbes2Sch(5, 2))} \cup (IF Q THEN {} ELSE {TP(Pbes2Sch(1, 7)), [PemC("aes128", k, FALSE) EXCEPT !.pwc = "ascii8"]})
    [] k = [kind |-> "rsa", cls |-> "rsa2048"] -> IF Q THEN {} ELSE {PlainC("PKCS8", "pkcs8"), TP(Pbes2Sch(8, 2))}
    [] k = [kind |-> "ecdsa", cls |-> "random1"] -> {PlainC("PKCS8", "pkcs8"), PlainC("SEC1", "direct")} \cup (IF Q THEN {} ELSE {PlainC("PKIX", "-"), TP(Pbes2Sch(7, 4))})
    [] k \in {[kind |-> "ecdsa521", cls |-> "hiByteZero"], [kind |-> "ecdsa384", cls |-> "random1"]} ->
         {PlainC("PKCS8", "pkcs8"), PlainC("SEC1", "direct")} \cup (IF Q THEN {} ELSE {PlainC("PKIX", "-"), TP(Pbes2Sch(1, 7))})
    [] k = [kind |-> "ecdh", cls |-> "random1"] -> {PlainC("PKCS8", "pkcs8"), PlainC("PKIX", "-")} \cup (IF Q THEN {} ELSE {PlainC("RAW", "-"), TP(Pbes2Sch(2, 7))})
    [] k.kind \in Sm9Kinds /\ k.cls = "random1" ->
         {c \in PlainConts(k) : c.papi # "smx509"}
         \cup (IF k.kind \in Pkcs8Kinds /\ (~Q \/ k.kind = "sm9su") THEN {TP(Pbes2Sch(1, 7)), TP(Pbes2Sch(2, 9))} ELSE {})
    [] OTHER -> {}
(* upper bounds of the region lengths (the replayer reduces an index modulo the actual length) *)
PlainLen(k, fmt) ==
  CASE fmt = "RAW" -> 32 [] fmt = "SM9rawc" -> IF k.kind \in {"sm9smp", "sm9eu"} THEN 65 ELSE 33
    [] fmt = "SM9raw" -> IF k.kind \in {"sm9smp", "sm9eu"} THEN 129 ELSE 65
    [] fmt \in {"SM9asn1", "SM9asn1c"} -> IF k.kind \in Sm9Master THEN 35 ELSE IF k.kind \in {"sm9smp", "sm9eu"} THEN 133 ELSE 68
    [] fmt = "PKIX" -> CASE k.cls = "rsa2048" -> 294 [] k.cls = "rsa1024" -> 162 [] k.kind = "ecdsa384" -> 120 [] k.kind = "ecdsa521" -> 158 [] OTHER -> 91
    [] fmt = "SEC1" -> CASE k.kind = "ecdsa384" -> 167 [] k.kind = "ecdsa521" -> 223 [] OTHER -> 121
    [] OTHER -> CASE k.cls = "rsa2048" -> 1220 [] k.cls = "rsa1024" -> 640 [] k.kind \in {"sm9sm", "sm9su", "sm9eu"} -> 230
                  [] k.kind = "ecdsa384" -> 185 [] k.kind = "ecdsa521" -> 241 [] OTHER -> 140     \* PKCS8
RegionLen(k, c, region) ==
  CASE region = "any" -> (CASE c.fmt = "PKCS8enc" -> PlainLen(k, "PKCS8") + 125
                            [] c.fmt = "PEMenc"   -> PlainLen(k, IF c.inner = "sec1" THEN "SEC1" ELSE "PKCS8") + 32
                            [] OTHER              -> PlainLen(k, c.fmt))
    [] c.fmt = "SM2Enveloped" -> (CASE region = "c1" -> 66 [] region = "c3" -> 32 [] region = "c2" -> 16 [] region = "pub" -> 65 [] region = "encpriv" -> 32 [] OTHER -> 36)
    [] c.fmt = "CFCA" -> (CASE region = "ct" -> 48 [] region = "certpub" -> 65 [] OTHER -> 280)
    [] OTHER -> (CASE region = "salt" -> c.salt [] region = "work" -> (IF c.kdf = "scrypt" THEN 3 ELSE 1) [] region = "nonce" -> 12
                   [] region = "icvlen" -> 1 [] region = "ct" -> PlainLen(k, "PKCS8") + 16 [] OTHER -> 90)
MasksOf(c, region) ==
  CASE region = "any"                -> IF Q THEN {1, 8, 16, 17, 128} ELSE {1, 2, 4, 8, 16, 32, 64, 128, 17, 255}
    [] c.fmt = "CFCA" /\ region = "ct" -> IF Q THEN {1, 17, 128} ELSE {1, 2, 4, 8, 16, 32, 64, 128, 17, 255}           \* 17 turns a padding octet 16 into 1
    [] region = "struct"             -> IF Q THEN {1, 17, 128} ELSE {1, 8, 16, 17, 128, 255}
    [] OTHER                         -> IF Q THEN {1, 128} ELSE {1, 2, 128, 255}
IdxOf(k, c, region) ==
  LET n == RegionLen(k, c, region)
  IN IF Q /\ region = "any" THEN {i \in 0..(n - 1) : i < 110 \/ i >= n - 4 \/ (i % 9) = (Seed % 9)} ELSE 0..(n - 1)

InjectConts(k) ==
  IF k.cls # "hiBitSet" THEN {}
  ELSE {c \in {PlainC("PKCS8", "pkcs8"), PlainC("SEC1", "direct"), PlainC("SEC1", "typed"), PlainC("RAW", "-"), PlainC("SM9asn1", "-"), EnvC("random2"), CfcaC("ascii8", FALSE)} :
          Applicable(k.kind, c.fmt) /\ (c.papi = "typed" => k.kind = "sm2") /\ \E bad \in BadCls(k.kind) : InjectApplies(k.kind, c, bad)}

KeysRun == UNION {{[kind |-> kind, cls |-> cls] : cls \in ValidCls(kind)} : kind \in KindsRun}
ContsFor(k) == (IF "rt" \in Parts THEN RtConts(k) ELSE {})
               \cup (IF "tamper" \in Parts THEN TamperConts(k) ELSE {})
               \cup (IF "inject" \in Parts THEN InjectConts(k) ELSE {})

(* ------------------------------------------------------------------ emission *)
SeedOf(k, c) == ((Seed % 1000) * 100000) + (KeyIdx(k) * 300) + (R!Word16(Seed, 1900 + c.salt + c.iter, KeyIdx(k) + Len(c.cipher) + Len(c.kdf)) % 300)
NewStep(k, c) ==
  LET base == [op |-> "new", kind |-> k.kind, cls |-> k.cls, seed |-> SeedOf(k, c)]
  IN IF k.kind = "rsa" THEN base
     ELSE IF k.kind \in {"sm9su", "sm9eu"}
          THEN base @@ [d |-> Hx!FromBytes(Scalar(k.kind, k.cls)), uid |-> Hx!FromBytes(<<65, 108, 105, 99, 101>>), hid |-> IF k.kind = "sm9su" THEN 1 ELSE 3]
          ELSE base @@ [d |-> Hx!FromBytes(Scalar(k.kind, k.cls))]
MarshalStep(k, c) ==
  LET base == [op |-> "marshal", fmt |-> c.fmt, pbes |-> c.pbes, cipher |-> c.cipher, kdf |-> c.kdf, salt |-> c.salt, iter |-> c.iter,
               N |-> c.n, r |-> c.r, p |-> c.p, pemc |-> c.pemc, inner |-> c.inner, papi |-> c.papi, pw |-> Hx!FromBytes(Pw(c.pwc))]
  IN IF c.fmt = "SM2Enveloped" THEN base @@ [unwrapd |-> Hx!FromBytes(Scalar("sm2", c.papi))]
     ELSE IF c.fmt = "RAW" THEN base @@ [exp |-> Hx!FromBytes(Scalar(k.kind, k.cls))]                \* the raw encoding is the 32-byte big-endian scalar
     ELSE base
(* another unwrapping key: the class after the right one *)
OtherCls(cls) == ClsSeq[(IndexOf(ClsSeq, cls) % 7) + 1]
AltSteps(k, c, s) ==
  CASE s.t = "tampered"       -> << [op |-> "tamper", region |-> s.region, idx |-> s.idx, mask |-> s.mask] >>
    [] s.t = "wrongPassword"  -> << [op |-> "wrongpw", pws |-> HexSeq(WrongPws(Pw(c.pwc))), sweepbase |-> "7a", sweep |-> c.sweep] >>
    [] s.t = "wrongUnwrapKey" -> << [op |-> "wrongkey", d |-> Hx!FromBytes(Scalar("sm2", OtherCls(c.papi)))] >>
    [] s.t = "rightAfterWrongPassword"  -> << [op |-> "wrongpw", pws |-> HexSeq(WrongPws(Pw(c.pwc))), sweepbase |-> "7a", sweep |-> 0],
                                              [op |-> "parse", allowed |-> <<"Err">>], [op |-> "rightagain"] >>
    [] s.t = "rightAfterWrongUnwrapKey" -> << [op |-> "wrongkey", d |-> Hx!FromBytes(Scalar("sm2", OtherCls(c.papi)))],
                                              [op |-> "parse", allowed |-> <<"Err">>], [op |-> "rightagain"] >>
    [] s.t = "injected"       -> << [op |-> "inject", cls |-> s.cls, d |-> Hx!FromBytes(Scalar(k.kind, s.cls)), neg |-> (s.cls = "negative")] >>
    [] s.t = "reencoded"      -> << [op |-> "reencode", form |-> "stripzeros"] >>
    [] OTHER                  -> << >>
AllowedSeq(A) == SelectSeq(<<"Same", "Err", "Different">>, LAMBDA o : o \in A)
TraceOf(k, c, s) ==
  <<NewStep(k, c), MarshalStep(k, c)>> \o AltSteps(k, c, s)
  \o << [op |-> "parse", allowed |-> AllowedSeq(Allowed(k, c, s))] >>
  \o (IF HasPubHex(k) /\ s.t = "intact" THEN << [op |-> "pubhex", exp |-> PubHex(k)] >> ELSE << >>)

(* ------------------------------------------------------------------ behaviours *)
Init == KInit
Rep(A) == CHOOSE o \in A : \A x \in A : IndexOf(<<"Same", "Err", "Different">>, o) <= IndexOf(<<"Same", "Err", "Different">>, x)
DoParse(o) ==
  /\ Parse(o)
  /\ (status.t = "intact" => "rt" \in Parts)                        \* round trips are emitted by the "rt" family
  /\ IF o = Rep(Allowed(key, cont, status))                          \* one trace per transition, whatever outcome the model picks
     THEN Em!Line(OutFile, ToJson([fam |-> "keycont", steps |-> TraceOf(key, cont, status)]))
     ELSE TRUE
Fresh == status.t = "intact" /\ outcome = "-"          \* marshalled, not yet altered or parsed
Next ==
  \/ (key.kind = "-" /\ \E k \in KeysRun : New(k.kind, k.cls))
  \/ (key.kind # "-" /\ status.t = "none" /\ \E c \in ContsFor(key) : Marshal(c))
  \/ (Fresh /\ "tamper" \in Parts /\ cont \in TamperConts(key)
      /\ \E region \in Regions(cont) : \E idx \in IdxOf(key, cont, region) : \E mask \in MasksOf(cont, region) : Tamper(region, idx, mask))
  \/ (Fresh /\ "rt" \in Parts /\ TakesPassword(cont) /\ cont \in RtConts(key) /\ UseWrongPassword)
  \/ (Fresh /\ "rt" \in Parts /\ TakesUnwrapKey(cont) /\ cont \in RtConts(key) /\ UseWrongUnwrapKey)
  \/ (Fresh /\ "inject" \in Parts /\ cont \in InjectConts(key) /\ \E bad \in BadCls(key.kind) : InjectScalar(bad))
  \/ (Fresh /\ "inject" \in Parts /\ key.kind \in {"sm2", "ecdsa", "ecdsa384", "ecdsa521"} /\ Reencode)
  \/ RightSecretAfterwards
  \/ (status.t # "none" /\ outcome = "-" /\ \E o \in Outcomes : DoParse(o))
Spec == Init /\ [][Next]_kcvars
=============================================================================
