------------------------------ MODULE KAT_Modes ------------------------------
(* Mode definitions over SM4 against published examples: GB/T 17964-2021 B.7   *)
(* (GB-XTS, cited in cipher/xts_sm4_test.go), XTS-SM4 data units from the same *)
(* test file (32 bytes, and 25 bytes with ciphertext stealing), and the HCTR   *)
(* whole-block examples of cipher/hctr_test.go (whole blocks only: the partial  *)
(* block example there encodes the known deviation D4).                         *)
EXTENDS Integers, Sequences, TLC
S4 == INSTANCE SM4
M == INSTANCE Modes WITH KS <- S4!RoundKeys, E <- S4!EncRK, D <- S4!DecRK
H == INSTANCE Hex
K(hex) == S4!RoundKeys(H!ToBytes(hex))
T0(k2hex, tweakhex) == S4!Enc(H!ToBytes(k2hex), H!ToBytes(tweakhex))
ASSUME H!FromBytes(M!XtsEnc(K("00000000000000000000000000000000"), T0("00000000000000000000000000000000", "00000000000000000000000000000000"),
                            H!ToBytes("0000000000000000000000000000000000000000000000000000000000000000"), FALSE))
       = "d9b421f731c894fdc35b77291fe4e3b02a1fb76698d59f0e51376c4ada5bc75d"
ASSUME H!FromBytes(M!XtsEnc(K("c46acc2e7e013cb71cdbf750cf76b000"), T0("249fbf4fb6cd17607773c23ffa2c4330", "5e000000000000000000000000000000"),
                            H!ToBytes("7e9c2289cba460e470222953439cdaa892a5433d4dab2a3f67"), FALSE))
       = "c3cf5445c64aa518f4abce2848faddfb4605d9fb66f1f12c0c"
ASSUME H!FromBytes(M!XtsDec(K("c46acc2e7e013cb71cdbf750cf76b000"), T0("249fbf4fb6cd17607773c23ffa2c4330", "5e000000000000000000000000000000"),
                            H!ToBytes("c3cf5445c64aa518f4abce2848faddfb4605d9fb66f1f12c0c"), FALSE))
       = "7e9c2289cba460e470222953439cdaa892a5433d4dab2a3f67"
GBP == H!ToBytes("6bc1bee22e409f96e93d7e117393172aae2d8a571e03ac9c9eb76fac45af8e5130c81c46a35ce411e5fbc1191a0a52eff69f2445df4f9b17")
ASSUME H!FromBytes(M!XtsEnc(K("2b7e151628aed2a6abf7158809cf4f3c"), T0("000102030405060708090a0b0c0d0e0f", "f0f1f2f3f4f5f6f7f8f9fafbfcfdfeff"), GBP, TRUE))
       = "e9538251c71d7b80bbe4483fef497bd12c5c581bd6242fc51e08964fb4f60fdb0ba42f63499279213d318d2c11f6886e903be7f93a1b3479"
ASSUME H!FromBytes(M!HctrEnc(K("2b7e151628aed2a6abf7158809cf4f3c"), H!ToBytes("000102030405060708090a0b0c0d0e0f"), H!ToBytes("f0f1f2f3f4f5f6f7f8f9fafbfcfdfeff"),
                             H!ToBytes("6bc1bee22e409f96e93d7e117393172a"))) = "b7b1dd75f608012dc69621d4ea720a60"
ASSUME PrintT("KAT_Modes ok")
VARIABLE x
Init == x = 0
Next == UNCHANGED x
Spec == Init /\ [][Next]_x
=============================================================================
