----------------------------- MODULE RandSource -----------------------------
(* The caller's random source as the library may consume it, and the rule by   *)
(* which every ephemeral or long-term secret scalar is drawn from it (C12):    *)
(*   optionally ONE byte is discarded first (randutil.MaybeReadByte: 0 or 1     *)
(*   byte, the caller cannot know which - `skew`), then 32-byte big-endian      *)
(*   blocks are read until one lies in [1, top]; key generators XOR byte 1      *)
(*   (0-based) of each block with 0x42 before the test.  The accepted block IS   *)
(*   the scalar: no masking, no reduction, no reuse.                             *)
(* A source is (stream, fault): fault = <<>> or <<kind, at>>: reading the byte   *)
(* at 0-based index >= at fails (error or EOF).  HOW the source delivers its     *)
(* bytes is not part of the abstract state: an io.Reader may return whole reads, *)
(* short reads of any size, and a failure either together with the last bytes or *)
(* on the following call - the outcome of an operation must be the same for all  *)
(* of these delivery styles (the replayer runs each of them).                    *)
EXTENDS Integers, Sequences, Bitwise
BN == INSTANCE BigNat

Block(stream, skew, i) == SubSeq(stream, skew + 32 * i + 1, skew + 32 * i + 32)      \* i = 0, 1, ...
Tweak(b, xor42) == IF xor42 THEN [b EXCEPT ![2] = @ ^^ 66] ELSE b
InRange(b, top) == LET v == BN!Norm(b) IN v # <<>> /\ BN!Le(v, top)
(* index of the first accepted block at or after block i0, or -1 if the stream is exhausted *)
RECURSIVE FirstFrom(_, _, _, _, _)
FirstFrom(stream, skew, top, xor42, i) ==
  IF skew + 32 * (i + 1) > Len(stream) THEN -1
  ELSE IF InRange(Tweak(Block(stream, skew, i), xor42), top) THEN i
  ELSE FirstFrom(stream, skew, top, xor42, i + 1)
(* the draw: [ok, k (scalar bytes, 32), idx (block index), consumed (bytes read incl. skew)] *)
Draw(stream, skew, top, xor42) ==
  LET i == FirstFrom(stream, skew, top, xor42, 0)
  IN IF i < 0 THEN [ok |-> FALSE, k |-> <<>>, idx |-> -1, consumed |-> Len(stream)]
     ELSE [ok |-> TRUE, k |-> Tweak(Block(stream, skew, i), xor42), idx |-> i, consumed |-> skew + 32 * (i + 1)]
(* with a fault at byte index `at`: the operation succeeds iff it never needs that byte *)
Succeeds(consumed, fault) == IF fault = <<>> THEN TRUE ELSE consumed <= fault[2]
=============================================================================
